"""
cgen.py -- generators of C12 programs.

CloneGen.program()   static clones: scheduled framers whose frames list clones of moot framers (named tags,
                     insular `mine`, via inodes, several clones of one moot in one frame / in several frames),
                     moots that clone later moots (nesting), relative store variables of every kind.
CloneGen.rear_program()  rear/raze programs: a scheduled framer that rears insular clones into other frames,
                     runs them, razes (all|first|last) and rears again (name reuse).
"""
import kernel
from kernel import CMPS, STATS


class CloneGen(kernel.Gen):
    def __init__(self, rng, features=None, ticks=(0.125,), sizes=(2, 3)):
        kernel.Gen.__init__(self, rng, features=features, ticks=ticks, sizes=sizes)

    # ---- variable references -------------------------------------------------------------
    def vref(self, prog, fm):
        r = self.rng
        kinds = ["abs", "abs", "fr", "fr", "fe", "ino"]
        if fm["sched"] == "moot":
            kinds += ["mfr", "mfr", "mfe", "fr"]
        if not prog.get("nrel"):
            kinds = ["abs"]
        k = r.choice(kinds)
        if k == "abs":
            return r.randrange(prog["nvars"])
        return [k, r.randrange(prog["nrel"])]

    def need(self, prog, fm, depth=0):
        r = self.rng
        opts = ["var", "var", "var", "elapsed", "recurred"]
        others = [x["name"] for x in prog["framers"] if x["name"] != fm["name"] and x["sched"] != "moot"]
        if others and self.f("status"):
            opts += ["status", "done"]
        k = r.choice(opts)
        if k == "var":
            n = ["var", self.vref(prog, fm), r.choice(list(CMPS)), r.randint(0, 4)]
        elif k == "elapsed":
            n = ["elapsed", r.choice([">=", ">=", ">", "<", "=="]),
                 r.choice([1, 2, 3, 4]) * prog["tick"] if r.random() < 0.7 else r.choice([0.1, 0.3, 0.25, 0.5])]
        elif k == "recurred":
            n = ["recurred", r.choice([">=", ">=", ">", "=="]), r.randint(0, 4)]
        elif k == "status":
            n = ["status", r.choice(others), r.choice(list(STATS))]
        else:
            n = ["done", r.choice(others)]
        if depth == 0 and r.random() < 0.15:
            n = ["not", n]
        return n

    def simple_act(self, prog, fm):
        r = self.rng
        k = r.choice(["put", "inc", "inc", "copy", "rec"])
        if k == "put":
            return ["put", self.vref(prog, fm), r.randint(0, 4)]
        if k == "inc":
            return ["inc", self.vref(prog, fm), r.randint(1, 2)]
        if k == "copy":
            return ["copy", self.vref(prog, fm), self.vref(prog, fm)]
        return ["rec", self.newtag()]

    def marker_need(self, prog, fm, fr):
        """'<share> is updated|changed [in frame me|name] [by mk]' on an absolute or relative share.  In moots mostly on
        shares that are NOT clone relative (absolute, main relative): clones with equal tags under different mains
        then watch the same share and must still own their marks"""
        r = self.rng
        kind = r.choice(["updated", "updated", "changed"])
        infr = r.choice([None, None, "me", r.choice(fm["frames"])["name"]])
        by = r.choice([None, None, "mka", "mkb"])
        if fm["sched"] == "moot" and prog.get("nrel"):
            x = r.random()
            ref = r.randrange(prog["nvars"]) if x < 0.55 else [r.choice(["mfr", "mfr", "mfe", "fr", "ino"]), r.randrange(prog["nrel"])]
        else:
            ref = self.vref(prog, fm) if r.random() < 0.4 else r.randrange(prog["nvars"])
            if isinstance(ref, list) and ref[0] == "fe":
                ref = r.randrange(prog["nvars"])
        n = [kind, ref, infr, by]
        return ["not", n] if r.random() < 0.1 else n

    # ---- frames -----------------------------------------------------------------------------
    def frames(self, prefix, n):
        r = self.rng
        frs = []
        for j in range(n):
            over = None
            if j > 0 and r.random() < 0.5 and self.f("nest"):
                over = r.choice(frs)["name"]
            frs.append({"name": "%s%d" % (prefix, j), "over": over, "under": None, "beacts": [], "enacts": [],
                        "renacts": [], "preacts": [], "reacts": [], "exacts": [], "rexacts": [], "auxes": []})
        return frs

    def fill(self, prog, fm):
        r = self.rng
        for fr in fm["frames"]:
            kids = [c["name"] for c in fm["frames"] if c["over"] == fr["name"]]
            if len(kids) > 1 and r.random() < (0.8 if fm["sched"] == "moot" else 0.4):
                fr["under"] = r.choice(kids[1:]) if fm["sched"] == "moot" else r.choice(kids)
            fr["enacts"].append(["rec", self.newtag()])
            fr["reacts"].append(["rec", self.newtag()])
            fr["exacts"].append(["rec", self.newtag()])
            if r.random() < 0.25:
                fr["renacts"].append(["rec", self.newtag()])
                fr["rexacts"].append(["rec", self.newtag()])
            for key in ("enacts", "reacts", "exacts"):
                for _ in range(r.randint(0, 2)):
                    fr[key].append(self.simple_act(prog, fm))
            if r.random() < 0.2 and self.f("let"):
                fr["beacts"] = self.needs(prog, fm, 1, 1)
            if fm["sched"] in ("aux", "moot") and r.random() < 0.4:
                fr[r.choice(["enacts", "reacts"])].append(["done", ["me"]])
            mains = [x["name"] for x in prog["framers"] if x["sched"] in ("active", "inactive")]
            if mains and r.random() < 0.12 and self.f("bid"):
                ctl = r.choice(["stop", "start", "run", "abort", "ready"])
                tg = [r.choice(mains)]
                fr[r.choice(["enacts", "reacts", "exacts"])].append(["bid", ctl, tg, None])
            for _ in range(r.randint(0, 3)):
                x = r.random()
                if x < 0.65:
                    far = r.choice(fm["frames"])["name"]
                    ns = self.needs(prog, fm, 0 if r.random() < 0.12 else 1, 2)
                    if fr["auxes"] and r.random() < 0.5:
                        ns = ns[:1] + [["doneaux", r.choice(["any", "all"]), fr["name"]]]
                    names = [x["name"] for x in fm["frames"]]
                    nxt = names[names.index(fr["name"]) + 1] if names.index(fr["name"]) + 1 < len(names) else None
                    if nxt and self.f("verbs") and r.random() < (0.3 if fm["sched"] == "moot" else 0.12):
                        # the timeout / repeat verbs (target = lexically next frame): the implicit need reads the
                        # EXECUTING framer's own elapsed / recurred, also in a clone
                        if r.random() < 0.5:
                            t = r.choice([1, 2, 3, 4]) * prog["tick"] if r.random() < 0.7 else r.choice([0.1, 0.3, 0.25, 0.5])
                            fr["preacts"].append(["go", [["elapsed", ">=", t]], nxt, "timeout"])
                        else:
                            fr["preacts"].append(["go", [["recurred", ">=", r.randint(0, 4)]], nxt, "repeat"])
                        continue
                    if self.f("marker") and r.random() < (0.5 if fm["sched"] == "moot" else 0.25):
                        mn = self.marker_need(prog, fm, fr)
                        if r.random() < 0.6:
                            ns = [mn]               # a transition that waits for the update alone
                        else:
                            ns.insert(r.randint(0, len(ns)), mn)
                    fr["preacts"].append(["go", ns, far])
                else:
                    fr["preacts"].append(["act", self.simple_act(prog, fm)])

    # ---- static clone programs -------------------------------------------------------------------
    def program(self):
        r = self.rng
        self.tag = 0            # recorder tags stay below clones.K
        tick = r.choice(self.ticks)
        prog = {"tick": tick, "nvars": r.randint(1, 2), "nrel": r.choice([0, 1, 2, 2]) if self.f("rel") else 0,
                "framers": []}
        nmain = r.randint(1, self.sizes[0])
        nmoot = r.randint(1, 3)
        norig = r.randint(0, 1) if self.f("aux") else 0
        for i in range(nmain):
            sched = "active" if (i == 0 or r.random() < 0.8) else "inactive"
            per = r.choice([0.0, 0.0, 0.0, tick, 2 * tick]) if self.f("period") else 0.0
            fm = {"name": "m%d" % i, "sched": sched, "order": r.choice(["front", "mid", "mid", "back"]), "period": per}
            fm["frames"] = self.frames("f", r.randint(1, self.sizes[1]))
            fm["first"] = r.choice(fm["frames"])["name"]
            prog["framers"].append(fm)
        for i in range(norig):
            fm = {"name": "a%d" % i, "sched": "aux", "order": "mid", "period": 0.0}
            fm["frames"] = self.frames("g", r.randint(1, 2))
            fm["first"] = fm["frames"][0]["name"]
            prog["framers"].append(fm)
        moots = []
        for i in range(nmoot):
            fm = {"name": "mo%d" % i, "sched": "moot", "order": "mid", "period": 0.0}
            fm["frames"] = self.frames("k", r.randint(1, self.sizes[1] + 1))
            fm["first"] = fm["frames"][0]["name"] if r.random() < 0.6 else r.choice(fm["frames"])["name"]
            prog["framers"].append(fm)
            moots.append(fm)
        # clone uses.  Budget on the number of instances (nesting multiplies).
        count = {m["name"]: 1 for m in moots}         # instances created by ONE use of the moot
        ctag = [0]

        def use(fm, fr, m):
            x = r.random()
            if x < 0.45:
                tag = "mine"
            elif x < 0.55:
                tag = "%s%d" % (m["name"], r.randint(1, 2))      # looks like an insular tag: newMootTag must skip it
            else:
                ctag[0] += 1
                tag = "c%d" % ctag[0]
            used = [a["tag"] for f in fm["frames"] for a in f["auxes"] if isinstance(a, dict)]
            if tag != "mine" and tag in used:
                return False
            via = None
            if r.random() < 0.4 and self.f("via"):
                via = "n%d" % r.randint(1, 2)
            fr["auxes"].append({"moot": m["name"], "tag": tag, "via": via})
            return True

        # nesting: moot i may clone moots j > i
        for i in range(len(moots) - 1, -1, -1):
            m = moots[i]
            for fr in m["frames"]:
                for mj in moots[i + 1:]:
                    if r.random() < 0.3 and count[m["name"]] + count[mj["name"]] <= 4 and self.f("nestclone"):
                        if use(m, fr, mj):
                            count[m["name"]] += count[mj["name"]]
        total = 0
        origs = [x["name"] for x in prog["framers"] if x["sched"] == "aux"]
        owned = set()
        for fm in prog["framers"]:
            if fm["sched"] not in ("active", "inactive"):
                continue
            for fr in fm["frames"]:
                for m in moots:
                    for _ in range(2):
                        if r.random() < 0.35 and total + count[m["name"]] <= 7:
                            if use(fm, fr, m):
                                total += count[m["name"]]
                for a in origs:
                    if a not in owned and r.random() < 0.25:
                        fr["auxes"].append(a)
                        owned.add(a)
        if total == 0:
            fm = prog["framers"][0]
            use(fm, fm["frames"][0], moots[0])
        # the insular-looking named tags may collide with a LATER `mine` of the same framer (ParseError by
        # design): keep named look-alikes only before the first `mine` of that moot in the framer
        for fm in prog["framers"]:
            seen_mine = set()
            for fr in fm["frames"]:
                for a in fr["auxes"]:
                    if isinstance(a, dict):
                        if a["tag"] == "mine":
                            seen_mine.add(a["moot"])
                        elif a["tag"].startswith(a["moot"]) and a["moot"] in seen_mine:
                            ctag[0] += 1
                            a["tag"] = "c%d" % ctag[0]
        for fm in prog["framers"]:
            self.fill(prog, fm)
        return prog

    # ---- directed: clones with EQUAL TAGS under different mains watching one share ------------------------
    def marker_program(self):
        """a feeder framer updates .v0 (and .v1) every few ticks; a watcher moot waits for `is updated` / `is changed`
        (optionally `in frame`, `by`) on a share that is not clone relative, counts in its own framer-relative share
        and waits again.  The watcher is cloned as `mine` (or under one explicit tag) by two scheduled framers and/or
        nested in an outer moot that is cloned twice: the clones carry the same tag under different mains, and each
        must still see every update exactly as an original run alone does (Marks are per framer NAME)."""
        r = self.rng
        self.tag = 0
        tick = r.choice(self.ticks)
        prog = {"tick": tick, "nvars": 2, "nrel": 1, "framers": []}

        def frame(name, over=None):
            return {"name": name, "over": over, "under": None, "beacts": [], "enacts": [["rec", self.newtag()]],
                    "renacts": [], "preacts": [], "reacts": [["rec", self.newtag()]], "exacts": [["rec", self.newtag()]],
                    "rexacts": [], "auxes": []}
        fd = {"name": "fd", "sched": "active", "order": r.choice(["front", "mid", "back"]), "period": 0.0, "first": "i0",
              "frames": [frame("i0"), frame("i1")]}
        fd["frames"][0]["preacts"].append(["go", [["elapsed", ">=", r.randint(1, 3) * tick]], "i1"])
        fd["frames"][1]["enacts"].append(r.choice([["inc", 0, 1], ["put", 0, 1], ["inc", 0, 2]]))
        if r.random() < 0.5:
            fd["frames"][1]["enacts"].append(["inc", 1, 1])
        fd["frames"][1]["preacts"].append(["go", [], "i0"])
        tagname = "mine" if r.random() < 0.7 else "w"
        shape = r.choice(["two-mains", "nested", "both"])
        watcher = {"name": "mo1", "sched": "moot", "order": "mid", "period": 0.0, "first": "k0",
                   "frames": [frame("k0"), frame("k1"), frame("k2")]}
        k0, k1, k2 = watcher["frames"]
        k0["enacts"].append(["put", ["fr", 0], 0])
        k0["preacts"].append(["go", [], "k1"])
        kind = r.choice(["updated", "updated", "changed"])
        share = r.choice([0, 0, 0, 1])
        infr = r.choice([None, None, "me", "k1"])
        by = r.choice([None, None, "mka"])
        ns = [[kind, share, infr, by]]
        if r.random() < 0.3:
            ns.append(r.choice([["recurred", ">=", r.randint(0, 2)], ["var", ["fr", 0], "<=", r.randint(2, 6)]]))
        k1["preacts"].append(["go", ns, "k2"])
        if r.random() < 0.3:
            k1["preacts"].append(["go", [[r.choice(["updated", "changed"]), 1, None, r.choice([None, "mkb"])]], "k0"])
        k2["enacts"].append(["inc", ["fr", 0], 1])
        if r.random() < 0.4:
            k2["enacts"].append(["inc", ["mfr", 0], 1])
        k2["preacts"].append(["go", [] if r.random() < 0.6 else [["recurred", ">=", r.randint(0, 2)]], "k1"])
        outer = {"name": "mo0", "sched": "moot", "order": "mid", "period": 0.0, "first": "o0", "frames": [frame("o0")]}
        for _ in range(r.randint(1, 2)):
            outer["frames"][0]["auxes"].append({"moot": "mo1", "tag": tagname if tagname == "mine" else "w%d" % _,
                                                "via": r.choice([None, None, "n1"])})
        mains = []
        for i in range(2 if shape in ("two-mains", "both") else 1):
            m = {"name": "m%d" % i, "sched": "active", "order": r.choice(["front", "mid", "back"]), "period": 0.0,
                 "first": "f0", "frames": [frame("f0"), frame("f1")]}
            f0, f1 = m["frames"]
            if shape in ("two-mains", "both"):
                f0["auxes"].append({"moot": "mo1", "tag": tagname, "via": None})
            if shape in ("nested", "both"):
                for _ in range(2 if shape == "nested" else r.randint(1, 2)):
                    f0["auxes"].append({"moot": "mo0", "tag": "mine", "via": None})
            if r.random() < 0.4:
                f0["preacts"].append(["go", [["elapsed", ">=", r.randint(6, 12) * tick]], "f1"])
                f1["preacts"].append(["go", [["recurred", ">=", r.randint(0, 2)]], "f0"])
            mains.append(m)
        prog["framers"] = [fd] + mains + [outer, watcher]
        return prog

    # ---- rear / raze programs ----------------------------------------------------------------------
    def rear_program(self, mid_raze=False, reuse=True, nested_named=True, static_too=True):
        """scheduled framer m0:  top > [rearN, runN, razeN]*  then done.  rear frames rear moots into the run frame
        (never in their own outline), the run frame runs the reared clones for a few iterations, the raze frame
        razes all|first|last of the run frame (or the run frame razes its own clones while they run: mid_raze)."""
        r = self.rng
        self.tag = 0
        tick = r.choice(self.ticks)
        prog = {"tick": tick, "nvars": 1, "nrel": 1, "framers": [], "rear": True}
        nmoot = r.choice([1, 2, 2, 3, 3])
        moots = []
        for i in range(nmoot):
            fm = {"name": "mo%d" % i, "sched": "moot", "order": "mid", "period": 0.0}
            fm["frames"] = self.frames("k", r.randint(1, 3))
            fm["first"] = fm["frames"][0]["name"]
            moots.append(fm)
        # nested uses inside moots (static clone verbs inside the moot text).  Often SEVERAL (2-4) nested clones in
        # ONE frame, insular and named mixed: Framer.prune must prune every one of them (a prune that mutates
        # frame.auxes while iterating it skips every second one and leaves its name registered)
        for i, m in enumerate(moots[:-1]):
            mj = moots[-1]
            x = r.random()
            if x < 0.55:
                fr = r.choice(m["frames"])
                for j in range(r.randint(2, 4)):
                    tag = "mine" if (r.random() < 0.5 or not nested_named) else "x%d_%d" % (i, j)
                    fr["auxes"].append({"moot": mj["name"], "tag": tag, "via": None})
            elif x < 0.85:
                tag = "mine" if (r.random() < 0.5 or not nested_named) else "x%d" % i
                r.choice(m["frames"])["auxes"].append({"moot": mj["name"], "tag": tag, "via": None})
        m0 = {"name": "m0", "sched": "active", "order": "mid", "period": 0.0, "frames": [], "first": "r0"}
        rounds = r.randint(2, 3) if reuse else 1
        m0["frames"].append({"name": "top", "over": None, "under": None, "beacts": [], "enacts": [], "renacts": [],
                             "preacts": [["go", [["elapsed", ">=", 40 * tick]], "fin"]], "reacts": [], "exacts": [],
                             "rexacts": [], "auxes": []})

        def fr(name):
            f = {"name": name, "over": "top", "under": None, "beacts": [], "enacts": [["rec", self.newtag()]],
                 "renacts": [], "preacts": [], "reacts": [["rec", self.newtag()]], "exacts": [["rec", self.newtag()]],
                 "rexacts": [], "auxes": []}
            m0["frames"].append(f)
            return f
        plan = []
        for k in range(rounds):
            a, b, c = fr("r%d" % k), fr("u%d" % k), fr("z%d" % k)
            target = "u%d" % (0 if (k > 0 and r.random() < 0.5) else k)     # sometimes rear again into the first run frame
            n = r.randint(1, 3)
            holders = [m for m in moots if any(f["auxes"] for f in m["frames"])]
            reared = [r.choice(holders if (holders and r.random() < 0.65) else moots)["name"] for _ in range(n)]
            for mname in reared:
                a["enacts"].append(["rear", mname, target])
            a["preacts"].append(["go", [], "u%d" % k if target == "u%d" % k else target])
            runfr = [f for f in m0["frames"] if f["name"] == target][0]
            if k == 0 or target == "u%d" % k:
                runfr["preacts"].append(["go", [["recurred", ">=", r.randint(1, 4)]], "z%d" % k])
                if mid_raze and r.random() < 0.7:
                    runfr[r.choice(["enacts", "reacts"])].append(["raze", r.choice(["first", "last", "all"]), None])
            else:
                # the first run frame is entered again: leave it towards this round's raze frame
                runfr["preacts"] = [["go", [["recurred", ">=", r.randint(1, 3)], ["var", 0, ">=", k]], "z%d" % k]] + runfr["preacts"]
            if static_too and target == "u%d" % k and r.random() < 0.6:
                # clones the raze must NOT touch: a static insular clone (not razeable) and a named clone
                for tg in r.sample(["mine", "s%d" % k], r.randint(1, 2)):
                    pos = r.choice([0, len(runfr["auxes"])])
                    runfr["auxes"].insert(pos, {"moot": r.choice(moots)["name"], "tag": tg, "via": None})
            c["enacts"].append(["inc", 0, 1])
            who = r.choice(["all", "all", "first", "last"])
            c["enacts"].append(["raze", who, target])
            if r.random() < 0.3:
                c["enacts"].append(["raze", r.choice(["all", "first", "last"]), target])
            nxt = "r%d" % (k + 1) if k + 1 < rounds else "fin"
            c["preacts"].append(["go", [], nxt])
            plan.append({"round": k, "target": target, "reared": reared, "who": who})
        m0["frames"].append({"name": "fin", "over": None, "under": None, "beacts": [], "enacts": [["rec", self.newtag()],
                             ["bid", "stop", ["me"], None]], "renacts": [], "preacts": [], "reacts": [], "exacts": [],
                             "rexacts": [], "auxes": []})
        prog["framers"] = [m0] + moots
        for m in moots:
            self.fill_moot_simple(prog, m)
        prog["plan"] = plan
        return prog

    def fill_moot_simple(self, prog, fm):
        r = self.rng
        for i, fr in enumerate(fm["frames"]):
            fr["enacts"].append(["rec", self.newtag()])
            fr["reacts"].append(["rec", self.newtag()])
            fr["exacts"].append(["rec", self.newtag()])
            if i == 0:
                # like the example plans: a moot initialises its own relative data when it starts (a reused clone
                # name inherits the shares of its razed predecessor -- the store is never pruned)
                fr["enacts"].append(["put", ["fr", 0], r.randint(0, 2)])
            fr["enacts"].append(r.choice([["put", ["fr", 0], r.randint(0, 3)], ["inc", ["fr", 0], 1], ["inc", ["mfr", 0], 1]]))
            if r.random() < 0.5:
                fr["reacts"].append(["inc", ["fr", 0], 1])
            if i + 1 < len(fm["frames"]):
                fr["preacts"].append(["go", [r.choice([["recurred", ">=", r.randint(0, 2)], ["var", ["fr", 0], ">=", r.randint(1, 3)]])],
                                      fm["frames"][i + 1]["name"]])
            elif r.random() < 0.6:
                fr["enacts"].append(["done", ["me"]])
