"""
rearraze.py -- C12 harness for the run-time verbs rear / raze.

Doubles (harness process only): Rearer.action and Razer.action are wrapped; before and after every call the
clone registry of the house is snapshotted:  Framer.Names (framers), and for every live framer reachable from
the scheduled framers the clones listed in each Frame.auxes (name, tag, insular, razeable, object serial).

Executable statements (implementation alone):
  S1 raze-only      a raze removes from the named frame exactly the razeable insular clones selected by
                    all|first|last, and no aux list of any surviving framer changes otherwise
  S2 never-again    no recorder action is ever executed again by a framer object pruned by a raze
  S3 name-free      after a raze the names of all pruned framers are absent from Framer.Names, and no rear
                    ever fails with CloneError
  S4 like-original  the recorder trace of the first activation of every reared clone (and of its nested clones)
                    equals the trace of ORIGINAL `be aux` copies of the same moots run alone in the same role
                    (auxiliary of a frame entered at relative tick 0), under the renaming of framer names
"""
import collections.abc  # noqa
import copy

import kernel
import clones


def snapshot(house, rec, tops):
    from ioflo.base import framing
    names = sorted(k for k, v in framing.Framer.Names.items() if isinstance(v, framing.Framer))
    frames = {}         # (holder name, frame index) -> [clone dict]
    live = []

    def walk(framer):
        live.append(rec.who(framer))
        for j, fr in enumerate(framer.frameNames.values()):
            lst = []
            for aux in fr.auxes:
                if isinstance(aux, framing.Framer) and not aux.original:
                    lst.append({"name": aux.name, "tag": aux.tag, "insular": bool(aux.insular),
                                "razeable": bool(aux.razeable), "serial": rec.who(aux)})
                    walk(aux)
            if lst:
                frames["%s/%d" % (framer.name, j)] = lst
    for t in tops:
        walk(t)
    return {"names": names, "frames": frames, "live": live}


def subtree(snap, name):
    """serials and names of the clone `name` and of every clone nested in it (from a snapshot)"""
    out = []
    for key, lst in snap["frames"].items():
        for c in lst:
            if c["name"] == name or c["name"].startswith(name + "_"):
                out.append((c["serial"], c["name"]))
    return out


def make_hooks(prog):
    def hooks(rec, house):
        from ioflo.base import acting
        rec.ops = []
        tops = [t for t in house.framers if t.original and t.name in
                [fm["name"] for fm in prog["framers"] if fm["sched"] != "moot"]]
        o_rear, o_raze = acting.Rearer.action, acting.Razer.action

        def rear(self, original, clone, schedule, frame, framer, **kw):
            before = snapshot(house, rec, tops)
            op = {"op": "rear", "tick": rec.tick, "nev": len(rec.events), "holder": framer.name,
                  "frame": list(framer.frameNames.values()).index(frame), "framename": frame.name,
                  "moot": original.name, "base": original.tag, "before": before, "error": None}
            rec.ops.append(op)
            try:
                return o_rear(self, original=original, clone=clone, schedule=schedule, frame=frame, framer=framer, **kw)
            except Exception as ex:
                op["error"] = type(ex).__name__
                raise
            finally:
                op["after"] = snapshot(house, rec, tops)

        def raze(self, who, frame, framer, **kw):
            before = snapshot(house, rec, tops)
            op = {"op": "raze", "tick": rec.tick, "nev": len(rec.events), "holder": framer.name,
                  "frame": list(framer.frameNames.values()).index(frame), "framename": frame.name,
                  "who": who, "before": before, "error": None}
            rec.ops.append(op)
            try:
                return o_raze(self, who=who, frame=frame, framer=framer, **kw)
            except Exception as ex:
                op["error"] = type(ex).__name__
                raise
            finally:
                op["after"] = snapshot(house, rec, tops)
                op["nev_after"] = len(rec.events)

        acting.Rearer.action = rear
        acting.Razer.action = raze

        def undo():
            acting.Rearer.action = o_rear
            acting.Razer.action = o_raze
        return [undo]
    return hooks


def predicted_inits(prog, maxn=10):
    """absolute paths of the relative shares of every clone name a rear program can create (so that they
    exist with value 0 as in the static programs): m0_<moot><n> and nested"""
    lay = clones.Layout(prog)
    paths = [".v%d" % k for k in range(prog["nvars"])] + [".framer.m0.rv0"]

    def nest(name, moot, depth):
        out = [name]
        if depth > 3:
            return out
        for (frn, i, tag) in lay.tags[moot]:
            use = [f for f in lay.src[moot]["frames"] if f["name"] == frn][0]["auxes"][i]
            out += nest("%s_%s" % (name, tag), use["moot"], depth + 1)
        return out
    for rec in lay.inst:
        paths.append(".framer.%s.rv0" % rec["name"])
    for fm in prog["framers"]:
        if fm["sched"] == "moot":
            for n in range(1, maxn + 1):
                for nm in nest("m0_%s%d" % (fm["name"], n), fm["name"], 0):
                    paths.append(".framer.%s.rv0" % nm)
    return paths


def run_rear(prog, workdir, name, maxticks=50):
    """run a rear/raze program on the implementation.  returns observation (+ ops)"""
    lay = clones.Layout(prog)
    lay.vpath = predicted_inits(prog)          # used only for the init lines / final values
    ob = clones.run_impl_clones(prog, None, workdir, name, maxticks=maxticks, lay=lay, hooks=make_hooks(prog))
    rec = ob.get("rec")
    ob["ops"] = rec.ops if rec is not None and hasattr(rec, "ops") else []
    return ob


# ---------------------------------------------------------------------------
# executable statements
# ---------------------------------------------------------------------------
def statements(prog, ob):
    """returns None or (finding key, description)"""
    ops = ob["ops"]
    events = ob["events"]
    for k, op in enumerate(ops):
        if op["error"] == "CloneError" and not any(o["op"] == "raze" for o in ops[:k]):
            return ("rear-clone-error", "op %d (tick %d): rear %s in frame %s raised CloneError although nothing was "
                    "razed before: newAuxTag returned a tag in use or the clone name is not unique" % (
                        k, op["tick"], op["moot"], op["framename"]))
        if op["error"] == "CloneError":
            return ("raze-name-not-free", "op %d (tick %d): rear %s in frame %s raised CloneError: a name that a raze "
                    "should have freed is still registered" % (k, op["tick"], op["moot"], op["framename"]))
        if op["error"]:
            return ("rear-raze-error", "op %d raised %s" % (k, op["error"]))
        if op["op"] != "raze":
            continue
        key = "%s/%d" % (op["holder"], op["frame"])
        bf, af = op["before"]["frames"], op["after"]["frames"]
        lst = bf.get(key, [])
        cand = [c for c in lst if c["insular"] and c["razeable"]]
        expect = {"all": cand, "first": cand[:1], "last": cand[-1:]}[op["who"]]
        gone = [c for c in lst if c["serial"] not in [d["serial"] for d in af.get(key, [])]]
        if [c["serial"] for c in gone] != [c["serial"] for c in expect]:
            return ("raze-wrong-set", "op %d: raze %s in %s removed %r, expected %r" % (
                k, op["who"], key, [c["name"] for c in gone], [c["name"] for c in expect]))
        dead = []
        for c in expect:
            dead += subtree(op["before"], c["name"])
        deadnames = [n for (_, n) in dead]
        for key2, l2 in bf.items():
            holder = key2.split("/")[0]
            if key2 == key or holder in deadnames:
                continue
            if [c["serial"] for c in l2] != [c["serial"] for c in af.get(key2, [])]:
                return ("raze-touched-other-frame", "op %d: raze in %s changed the aux list of %s" % (k, key, key2))
        if [c["serial"] for c in af.get(key, [])] != [c["serial"] for c in lst if c not in expect]:
            return ("raze-wrong-set", "op %d: survivors of %s reordered or lost" % (k, key))
        # S3
        left = [n for n in deadnames if n in op["after"]["names"]]
        if left:
            return ("raze-name-not-free", "op %d (tick %d): after raze %s in %s the names %r of pruned clones are still "
                    "registered in Framer.Names" % (k, op["tick"], op["who"], key, left))
        # S2
        ds = set(s for (s, _) in dead)
        for ev in events[op.get("nev_after", op["nev"]):]:
            if ev[1] in ds:
                return ("razed-clone-ran", "op %d: framer object %s (razed at tick %d) executed recorder %d at tick %d"
                        % (k, ev[2], op["tick"], ev[4], ev[0]))
    return None


def alone_program(prog, mootname):
    """static clone program: framer w, one frame p0 listing `aux <moot> as mine`, never left"""
    w = {"name": "w", "sched": "active", "order": "mid", "period": 0.0, "first": "p0",
         "frames": [{"name": "p0", "over": None, "under": None, "beacts": [], "enacts": [], "renacts": [],
                     "preacts": [], "reacts": [], "exacts": [], "rexacts": [],
                     "auxes": [{"moot": mootname, "tag": "mine", "via": None}]}]}
    return {"tick": prog["tick"], "nvars": prog["nvars"], "nrel": prog.get("nrel", 0),
            "framers": [w] + [copy.deepcopy(fm) for fm in prog["framers"] if fm["sched"] == "moot"]}


_alone_cache = {}


def alone_trace(prog, mootname, nticks, workdir, label):
    """events [(relative tick, relative framer name, tag)] of ORIGINAL copies of the moot (and of its nested
    clones) run alone as auxiliary of a frame entered at tick 0, for relative ticks < nticks"""
    sp = alone_program(prog, mootname)
    lay = clones.Layout(sp)
    xp = clones.expand_src(sp, lay)
    ob = kernel.run_impl(xp, None, workdir, label, maxticks=nticks)
    if "error" in ob:
        return ob
    names = {lay.tid[n]: n for n in lay.tid}
    out = []
    top = "w_%s1" % mootname
    for e in ob["trace"]:
        if e[0] == "rec":
            t, tag = divmod(e[2], clones.K)
            nm = names[t]
            if nm.startswith(top):
                out.append((e[1], nm[len(top):], tag))
    return out


def like_original(prog, ob, workdir, label):
    """S4.  returns (None | (key, description), number of clone activations compared)"""
    ops = ob["ops"]
    events = ob["events"]
    ncmp = 0
    for k, op in enumerate(ops):
        if op["op"] != "rear" or op["error"]:
            continue
        key = "%s/%d" % (op["holder"], op["frame"])
        new = [c for c in op["after"]["frames"].get(key, [])
               if c["serial"] not in [d["serial"] for d in op["before"]["frames"].get(key, [])]]
        if len(new) != 1:
            # rear refused (own outline) -- not generated
            return ("rear-no-clone", "op %d: rear %s created %d clones in %s" % (k, op["moot"], len(new), key)), ncmp
        top = new[0]
        fam = dict(subtree(op["after"], top["name"]))       # serial -> name
        evs = [e for e in events if e[1] in fam]
        if not evs:
            continue
        t0 = evs[0][0]
        # first activation ends with the first raze op that prunes it or at the next time its main frame is left:
        # compare whole ticks strictly before the tick of the first exit-context event / the pruning raze
        tend = None
        for op2 in ops[k + 1:]:
            if op2["op"] == "raze" and top["serial"] not in [c["serial"] for l in op2["after"]["frames"].values() for c in l]:
                tend = op2["tick"]
                break
        exit_tags = set()
        for fm in prog["framers"]:
            for fr in fm["frames"]:
                for a in fr.get("exacts", []):
                    if a[0] == "rec":
                        exit_tags.add(a[1])
        for e in evs:
            if e[4] in exit_tags:
                tend = e[0] if tend is None else min(tend, e[0])
                break
        last = max(e[0] for e in evs)
        if tend is None:
            tend = last           # still running when the run ended: the last tick may be cut by the sweep
        n = tend - t0
        if n <= 0:
            continue
        ref = alone_trace(prog, op["moot"], n + 1, workdir, "%s_al%d" % (label, k))
        if isinstance(ref, dict):
            return ("alone-error", "original-alone program failed: %r" % (ref,)), ncmp
        mine = [(e[0] - t0, fam[e[1]][len(top["name"]):], e[4]) for e in evs if e[0] < tend]
        ref = [x for x in ref if x[0] < n]
        ncmp += 1
        if mine != ref:
            i = 0
            while i < min(len(mine), len(ref)) and mine[i] == ref[i]:
                i += 1
            return ("reared-clone-differs", "op %d: clone %s of %s reared at tick %d: event %d of its first activation is "
                    "%r, the original alone does %r" % (k, top["name"], op["moot"], op["tick"], i,
                                                       mine[i] if i < len(mine) else None,
                                                       ref[i] if i < len(ref) else None)), ncmp
    return None, ncmp


# ---------------------------------------------------------------------------
# registry model (coq/C12/Model.v part 3): ops and snapshots as Coq terms
# ---------------------------------------------------------------------------
def cs(s):
    return '"%s"%%string' % s


def tmpl_of(lay, mootname, depth=0):
    if depth > 4:
        raise ValueError("moot nesting too deep")
    fm = lay.src[mootname]
    uses = []
    for (frn, i, tag) in lay.tags[mootname]:
        j = [f["name"] for f in fm["frames"]].index(frn)
        use = fm["frames"][j]["auxes"][i]
        uses.append("(%s, %s, %s, %s)" % (cs(tag), kernel.cn(j), "true" if use["tag"] == "mine" else "false",
                                          tmpl_of(lay, use["moot"], depth + 1)))
    return "(Tmpl %s)" % kernel.clist(uses, "(string * nat * bool * tmpl)")


def coq_snapshot(snap):
    fr = []
    for key in sorted(snap["frames"]):
        h, j = key.split("/")
        fr.append("(%s, %s, %s)" % (cs(h), kernel.cn(int(j)),
                                    kernel.clist([cs(c["name"]) for c in snap["frames"][key]], "string")))
    return "(%s, %s)" % (kernel.clist([cs(n) for n in snap["names"]], "string"),
                         kernel.clist(fr, "(string * nat * list string)"))


def coq_ops_case(prog, ob):
    """(model expression, expected literal): snapshots after every op, from the initial registry"""
    lay = clones.Layout(prog)
    ops = ob["ops"]
    if not ops:
        return None
    init = ops[0]["before"]
    recs = []
    for key, lst in init["frames"].items():       # walk order: holders before the clones they hold
        h, j = key.split("/")
        for c in lst:
            recs.append("(Build_crec %s %s %s %s %s %s)" % (cs(c["name"]), cs(c["tag"]), cs(h), kernel.cn(int(j)),
                                                           "true" if c["insular"] else "false",
                                                           "true" if c["razeable"] else "false"))
    cops, exp = [], []
    for op in ops:
        if op["error"]:
            break
        if op["op"] == "rear":
            cops.append("(ORear %s %s %s %s)" % (cs(op["holder"]), kernel.cn(op["frame"]), cs(op["base"]),
                                                  tmpl_of(lay, op["moot"])))
        else:
            cops.append("(ORaze %s %s %s)" % ({"all": "WAll", "first": "WFirst", "last": "WLast"}[op["who"]],
                                               cs(op["holder"]), kernel.cn(op["frame"])))
        exp.append(coq_snapshot(op["after"]))
    g0 = "(Build_reg %s %s)" % (kernel.clist([cs(n) for n in init["names"]], "string"), kernel.clist(recs, "crec"))
    return ("(run_ops %s %s)" % (g0, kernel.clist(cops, "rop")),
            kernel.clist(exp, "(list string * list (string * nat * list string))"))
