"""
clones.py -- C12 harness: kernel program AST extended with MOOT framers, clone auxiliaries
(`aux <moot> as <tag> [via <inode>]`, `aux <moot> as mine`), relative store variables and the
run-time verbs rear / raze.

AST additions to lib/kernel.py's program AST:
  framer.sched may be "moot"
  frame.auxes entries: framername (original aux) | {"moot": name, "tag": name|"mine", "via": inode|None}
  variable references (in put/inc/copy acts and var needs):
      int k          absolute share        .v<k>
      ["fr", k]      framer relative       framer.me.rv<k>
      ["fe", k]      frame relative        framer.me.frame.me.rv<k>
      ["mfr", k]     main-framer relative  framer.main.rv<k>                (moots only)
      ["mfe", k]     main-frame relative   framer.main.frame.main.rv<k>     (moots only)
      ["ino", k]     inode relative        q<k>   (prefixed by the `via` inodes of the clone chain)
  acts (rear programs only, never given to the Coq kernel):
      ["rear", moot, framename] | ["raze", all|first|last, framename|None]

Three renderings:
  render_flo_clones  FloScript WITH the clone verbs (the program under test, real Builder + Skedder)
  render_coq_clones  Coq term  expand P0 specs  : P0 = the source framers (moots with placeholder ids),
                     specs = one (moot, renaming, main frame) per clone instance; the expansion itself is the
                     Coq function V.C12.Model.expand (theorem clone_expansion_preserves_frames)
  expand_src         kernel AST in which every clone is replaced by its own ORIGINAL `be aux` framer (copy of the
                     moot's text, relative variables made private absolute shares): the reference program of the
                     bisimulation statement "each clone runs like its original alone in the same role"
"""
import collections.abc  # noqa
import copy
import os
import signal

import kernel
from kernel import CMPS, CTLS, STATS, SCHED, cf, clist, cn, cz, fl

K = 1000        # recorder tag offset per framer instance: observed tag = tag + K * tid(instance)
PH = 100000     # placeholder tid base for the clone uses inside a moot


def is_clone_use(ax):
    return isinstance(ax, dict)


# ---------------------------------------------------------------------------
# tags and instances (mirror of Builder.buildAux / Framer.newMootTag / Framer.resolveMoots / House.resolve)
# ---------------------------------------------------------------------------
def new_tag(base, used, count=0):
    """Framer.newMootTag / newAuxTag"""
    count += 1
    tag = "%s%d" % (base, count)
    while tag in used:
        count += 1
        tag = "%s%d" % (base, count)
    return tag


def source_tags(fm):
    """[(frame name, position in frame.auxes, tag)] for the clone uses of one source framer, in build order"""
    used, out = [], []
    for fr in fm["frames"]:
        for i, ax in enumerate(fr.get("auxes", [])):
            if is_clone_use(ax):
                tag = ax["tag"]
                if tag == "mine":
                    tag = new_tag(ax["moot"], used)
                if tag in used:
                    raise ValueError("clone tag %r used twice in framer %s" % (tag, fm["name"]))
                used.append(tag)
                out.append((fr["name"], i, tag))
    return out


class Layout(object):
    """numbering of framers (tids), clone instances and variables of a program with moots"""

    def __init__(self, prog):
        self.prog = prog
        self.src = {fm["name"]: fm for fm in prog["framers"]}
        self.tid = {fm["name"]: t for t, fm in enumerate(prog["framers"])}
        self.n0 = len(prog["framers"])
        self.tags = {fm["name"]: source_tags(fm) for fm in prog["framers"]}
        self.inst = []          # clone instances, breadth first as House.presolvePresolvables creates them
        self.by_name = {}
        queue = [(fm["name"], fm["name"], "") for fm in prog["framers"] if fm["sched"] != "moot"]
        while queue:
            holder, srcname, inode = queue.pop(0)      # holder = instance (or top framer) name
            fm = self.src[srcname]
            for (frn, i, tag) in self.tags[srcname]:
                use = [f for f in fm["frames"] if f["name"] == frn][0]["auxes"][i]
                name = "%s_%s" % (holder, tag)
                if name in self.by_name or name in self.tid:
                    raise ValueError("clone name %s not unique" % name)
                ino = inode
                if use.get("via"):
                    ino = (inode + "." if inode else "") + use["via"]
                rec = {"name": name, "moot": use["moot"], "tag": tag, "parent": holder, "frame": frn,
                       "pos": i, "insular": use["tag"] == "mine", "inode": ino, "tid": self.n0 + len(self.inst)}
                self.inst.append(rec)
                self.by_name[name] = rec
                self.tid[name] = rec["tid"]
                queue.append((name, use["moot"], ino))
        # variables
        self.vars = {}          # key -> index
        self.vpath = []         # index -> absolute store path
        for k in range(prog["nvars"]):
            self._alloc(("abs", k), ".v%d" % k)
        # every instance (and every non-moot source framer) owns its relative variables; allocate all that
        # can be referenced so that indices do not depend on traversal order of acts
        self.srcname = {fm["name"]: fm["name"] for fm in prog["framers"] if fm["sched"] != "moot"}
        for rec in self.inst:
            self.srcname[rec["name"]] = rec["moot"]
        self.inode = {n: "" for n in self.srcname}
        for rec in self.inst:
            self.inode[rec["name"]] = rec["inode"]
        nrel = prog.get("nrel", 0)
        for name in list(self.srcname):
            for k in range(nrel):
                self._alloc(("fr", name, k), ".framer.%s.rv%d" % (name, k))
            for fr in self.src[self.srcname[name]]["frames"]:
                for k in range(nrel):
                    self._alloc(("fe", name, fr["name"], k), ".framer.%s.frame.%s.rv%d" % (name, fr["name"], k))
        for name in list(self.srcname):
            for k in range(nrel):
                ino = self.inode[name]
                if ("ino", ino, k) not in self.vars:
                    self._alloc(("ino", ino, k), ".%s%sq%d" % (ino, "." if ino else "", k))
        # placeholders of the moots (variables of the moot "as if it were an instance"; never touched at run time)
        for fm in prog["framers"]:
            if fm["sched"] != "moot":
                continue
            m = fm["name"]
            for k in range(nrel):
                self._alloc(("fr", m, k), None)
                self._alloc(("mfr", m, k), None)
                self._alloc(("mfe", m, k), None)
                self._alloc(("inoph", m, k), None)
                for fr in fm["frames"]:
                    self._alloc(("fe", m, fr["name"], k), None)
        self.nvars = len(self.vpath)

    def _alloc(self, key, path):
        self.vars[key] = len(self.vpath)
        self.vpath.append(path)

    # variable index of reference `ref` written in frame frn of source framer fm, executed by instance `who`
    # (who == fm["name"] for the source text itself: placeholders for moots)
    def var(self, ref, who, frn):
        if isinstance(ref, int):
            return self.vars[("abs", ref)]
        kind, k = ref
        moot = who in self.src and self.src[who]["sched"] == "moot"
        if kind == "fr":
            return self.vars[("fr", who, k)]
        if kind == "fe":
            return self.vars[("fe", who, frn, k)]
        if kind == "ino":
            return self.vars[("inoph", who, k)] if moot else self.vars[("ino", self.inode[who], k)]
        if kind == "mfr":
            if moot:
                return self.vars[("mfr", who, k)]
            rec = self.by_name[who]
            return self.vars[("fr", rec["parent"], k)]
        if kind == "mfe":
            if moot:
                return self.vars[("mfe", who, k)]
            rec = self.by_name[who]
            return self.vars[("fe", rec["parent"], rec["frame"], k)]
        raise ValueError(ref)

    def children(self, holder):
        """clone instances held by instance/top framer `holder`, in build order"""
        return [r for r in self.inst if r["parent"] == holder]

    def taskables(self):
        out = []
        for order in ("front", "mid", "back"):
            for fm in self.prog["framers"]:
                if fm["sched"] in ("active", "inactive") and fm.get("order", "mid") == order:
                    out.append(self.tid[fm["name"]])
        return out


# ---------------------------------------------------------------------------
# FloScript with clone verbs
# ---------------------------------------------------------------------------
def vpath_flo(ref):
    if isinstance(ref, int):
        return ".v%d" % ref
    kind, k = ref
    return {"fr": "framer.me.rv%d", "fe": "framer.me.frame.me.rv%d", "mfr": "framer.main.rv%d",
            "mfe": "framer.main.frame.main.rv%d", "ino": "q%d"}[kind] % k


def flo_need(n, vp=vpath_flo):
    k = n[0]
    if k == "var":
        return "%s %s %d" % (vp(n[1]), n[2], n[3])
    if k in ("updated", "changed"):
        t = "%s is %s" % (vp(n[1]), k)
        if n[2]:
            t += " in frame %s" % n[2]
        if n[3]:
            t += " by %s" % n[3]
        return t
    if k == "not":
        return "not " + flo_need(n[1], vp)
    return kernel.flo_need(n)


def flo_needs(ns, vp=vpath_flo):
    ns = [n for n in ns if n[0] != "always"]
    if not ns:
        return ""
    return " if " + " and ".join(flo_need(n, vp) for n in ns)


def flo_act(a, vp=vpath_flo):
    k = a[0]
    if k == "put":
        return "put %d into %s" % (a[2], vp(a[1]))
    if k == "inc":
        return "inc %s with %d" % (vp(a[1]), a[2])
    if k == "copy":
        return "copy %s into %s" % (vp(a[1]), vp(a[2]))
    if k == "rear":
        return "rear %s as mine be aux in frame %s" % (a[1], a[2])
    if k == "raze":
        return "raze %s" % a[1] + (" in frame %s" % a[2] if a[2] else "")
    return kernel.flo_act(a)


def flo_aux(ax):
    if not is_clone_use(ax):
        return "aux %s" % ax
    s = "aux %s as %s" % (ax["moot"], ax["tag"])
    if ax.get("via"):
        s += " via %s" % ax["via"]
    return s


def render_flo_clones(prog, inits=None):
    """FloScript of a program with moots and clone verbs.  inits: absolute share paths initialised to 0"""
    L = ["house h", ""]
    for p in (inits if inits is not None else [".v%d" % v for v in range(prog["nvars"])]):
        L.append("  init %s with value 0" % p)
    for fm in prog["framers"]:
        h = "  framer %s be %s" % (fm["name"], fm["sched"])
        if fm["sched"] in ("active", "inactive") and fm.get("order", "mid") != "mid":
            h += " in %s" % fm["order"]
        if fm.get("period", 0.0):
            h += " at %s" % fl(fm["period"])
        h += " first %s" % fm["first"]
        L += ["", h]
        for fr in fm["frames"]:
            h = "    frame %s" % fr["name"]
            if fr.get("over"):
                h += " in %s" % fr["over"]
            L.append(h)
            ind = "      "
            if fr.get("under"):
                L.append(ind + "under %s" % fr["under"])
            for ax in fr.get("auxes", []):
                L.append(ind + flo_aux(ax))
            if fr.get("beacts"):
                L.append(ind + "let me" + flo_needs(fr["beacts"]))
            for ctx, key in (("enter", "enacts"), ("renter", "renacts")):
                if fr.get(key):
                    L.append(ind + ctx)
                    for a in fr[key]:
                        L.append(ind + "  " + flo_act(a))
            inprecur = False
            for pa in fr.get("preacts", []):
                if pa[0] == "act":
                    if not inprecur:
                        L.append(ind + "precur")
                        inprecur = True
                    L.append(ind + "  " + flo_act(pa[1]))
                elif pa[0] == "go" and len(pa) > 3 and pa[3] == "timeout":
                    # the verb itself: `timeout T` = go <lexically next frame> if elapsed >= T
                    L.append(ind + "timeout %s" % fl(pa[1][0][2]))
                elif pa[0] == "go" and len(pa) > 3 and pa[3] == "repeat":
                    L.append(ind + "repeat %d" % pa[1][0][2])
                elif pa[0] == "go":
                    L.append(ind + "go %s%s" % (pa[2], flo_needs(pa[1])))
                elif pa[0] == "aux":
                    L.append(ind + "aux %s%s" % (pa[2], flo_needs(pa[1])))
                else:
                    raise ValueError(pa)
            for ctx, key in (("recur", "reacts"), ("exit", "exacts"), ("rexit", "rexacts")):
                if fr.get(key):
                    L.append(ind + ctx)
                    for a in fr[key]:
                        L.append(ind + "  " + flo_act(a))
    return "\n".join(L) + "\n"


# ---------------------------------------------------------------------------
# Coq: source framers with placeholders + one spec per clone instance
# ---------------------------------------------------------------------------
class CMarks(object):
    """mirror of needing.NeedMarker._resolve for every EXECUTING framer (source framer, clone instance, or the moot
    text itself as placeholder): one Mark per (share, '<framer NAME><<marker or frame>'); a marker need with an
    `in frame` clause inserts an enact marker FIRST in that frame unless an equal one is already there."""

    def __init__(self, lay):
        self.lay = lay
        self.ids = {}
        self.enact = {}         # (source framer, frame) -> inserted marker acts [kind, need], first = last inserted
        for fm in lay.prog["framers"]:
            for fr in fm["frames"]:
                for (frn, m) in self.uses_in(fr):
                    if m[2]:
                        frame = fr["name"] if m[2] == "me" else m[2]
                        lst = self.enact.setdefault((fm["name"], frame), [])
                        # equality of inserted markers = same kind and same Mark (share, marker key)
                        ent = (m[0], self.mid(fm["name"], fr["name"], m), fr["name"], m)
                        if (ent[0], ent[1]) not in [(e[0], e[1]) for e in lst]:
                            lst.insert(0, ent)

    @staticmethod
    def uses_in(fr):
        out = []
        for pa in fr.get("preacts", []):
            if pa[0] in ("go", "aux"):
                for nd in pa[1]:
                    for m in kernel.marker_needs(nd):
                        out.append((fr["name"], m))
        return out

    def mid(self, who, frn, m):
        frame = frn if (not m[2] or m[2] == "me") else m[2]
        k = (self.lay.var(m[1], who, frn), who + "<" + (m[3] if m[3] else frame))
        if k not in self.ids:
            self.ids[k] = len(self.ids)
        return self.ids[k]


class CoqR(object):
    def __init__(self, lay):
        self.lay = lay
        self.marks = CMarks(lay)

    def tidof(self, name, fm):
        if name == "me":
            return self.lay.tid[fm["name"]]
        return self.lay.tid[name]

    def auxtid(self, fm, frn, i, ax):
        lay = self.lay
        if not is_clone_use(ax):
            return lay.tid[ax]
        uses = lay.tags[fm["name"]]
        j = [(f, p) for (f, p, t) in uses].index((frn, i))
        if fm["sched"] == "moot":
            return PH + j
        return lay.tid["%s_%s" % (fm["name"], uses[j][2])]

    def need(self, fm, frn, n):
        k = n[0]
        lay = self.lay
        if k == "always":
            return "NAlways"
        if k == "var":
            return "(NVar %s %s %s)" % (cn(lay.var(n[1], fm["name"], frn)), CMPS[n[2]], cz(n[3]))
        if k in ("updated", "changed"):
            return "(%s %s %s)" % ("NUpdated" if k == "updated" else "NChanged", cn(lay.var(n[1], fm["name"], frn)),
                                   cn(self.marks.mid(fm["name"], frn, n)))
        if k == "elapsed":
            return "(@NElapsed FOps %s %s)" % (CMPS[n[1]], cf(n[2]))
        if k == "recurred":
            return "(NRecurred %s %s)" % (CMPS[n[1]], cz(n[2]))
        if k == "done":
            return "(NDone %s)" % cn(self.tidof(n[1], fm))
        if k == "doneaux":
            if n[1] not in ("any", "all"):
                raise ValueError("named done-aux needs are not generated for clone programs")
            sel = {"any": "AuxAny", "all": "AuxAll"}[n[1]]
            fid = [f["name"] for f in fm["frames"]].index(n[2])
            return "(NDoneAux %s %s)" % (sel, cn(fid))
        if k == "status":
            return "(NStatus %s %s)" % (cn(self.tidof(n[1], fm)), STATS[n[2]])
        if k == "not":
            return "(NNot %s)" % self.need(fm, frn, n[1])
        raise ValueError(n)

    def act(self, fm, frn, a):
        k = a[0]
        lay = self.lay
        v = lambda ref: cn(lay.var(ref, fm["name"], frn))
        if k == "rec":
            return "(ARec %s)" % cn(a[1] + (0 if fm["sched"] == "moot" else K * lay.tid[fm["name"]]))
        if k == "put":
            return "(APut %s %s)" % (v(a[1]), cz(a[2]))
        if k == "inc":
            return "(AInc %s %s)" % (v(a[1]), cz(a[2]))
        if k == "copy":
            return "(ACopy %s %s)" % (v(a[1]), v(a[2]))
        if k == "bid":
            ts = []
            for nm in a[2]:
                for t in (lay.taskables() if nm == "all" else [self.tidof(nm, fm)]):
                    if t not in ts:
                        ts.append(t)
            per = "None" if (a[3] is None or a[1] in ("stop", "abort")) else "(Some %s)" % cf(a[3])
            return "(@ABid FOps %s %s %s)" % (CTLS[a[1]], clist([cn(t) for t in ts], "nat"), per)
        if k == "fiat":
            return "(AFiat %s %s)" % (CTLS[a[1]], cn(self.tidof(a[2], fm)))
        if k == "done":
            ts = []
            for nm in a[1]:
                t = self.tidof(nm, fm)
                if t not in ts:
                    ts.append(t)
            return "(ADone %s)" % clist([cn(t) for t in ts], "nat")
        raise ValueError(a)

    def framer(self, fm):
        fids = {fr["name"]: j for j, fr in enumerate(fm["frames"])}
        frs = []
        for fr in fm["frames"]:
            frn = fr["name"]
            pre, deact = [], []
            for pa in fr.get("preacts", []):
                if pa[0] == "act":
                    pre.append("(PAct %s)" % self.act(fm, frn, pa[1]))
                elif pa[0] == "go":
                    pre.append("(PGo %s %s)" % (clist([self.need(fm, frn, n) for n in pa[1]], "(need FOps)"),
                                                cn(fids[pa[2]])))
                elif pa[0] == "aux":
                    pre.append("(PAux %s %s)" % (clist([self.need(fm, frn, n) for n in pa[1]], "(need FOps)"),
                                                 cn(self.lay.tid[pa[2]])))
                    deact.append("(ADeactivize %s)" % cn(self.lay.tid[pa[2]]))
            exacts = [self.act(fm, frn, a) for a in fr.get("exacts", [])] + deact

            def acts(key):
                pre_m = []
                if key == "enacts":         # enact markers inserted first by the resolver
                    for (kind, mk, nfrn, m) in self.marks.enact.get((fm["name"], frn), []):
                        pre_m.append("(AMarkU %s false)" % cn(mk) if kind == "updated" else
                                     "(AMarkC %s %s)" % (cn(self.lay.var(m[1], fm["name"], nfrn)), cn(mk)))
                return clist(pre_m + [self.act(fm, frn, a) for a in fr.get(key, [])], "(act FOps)")
            frs.append(
                "(@Build_frame FOps %s %s %s %s %s %s %s %s %s %s)" % (
                    "None" if not fr.get("over") else "(Some %s)" % cn(fids[fr["over"]]),
                    clist([cn(fids[u]) for u in kernel.unders_of(fm, fr)], "nat"),
                    clist([self.need(fm, frn, n) for n in fr.get("beacts", [])], "(need FOps)"),
                    acts("enacts"), acts("renacts"), clist(pre, "(pact FOps)"), acts("reacts"),
                    clist(exacts, "(act FOps)"), acts("rexacts"),
                    clist([cn(self.auxtid(fm, frn, i, ax)) for i, ax in enumerate(fr.get("auxes", []))], "nat")))
        return "(@Build_framer FOps %s %s %s %s true None)" % (
            clist(frs, "(frame FOps)"), cn(fids[fm["first"]]), SCHED[fm["sched"]], cf(abs(fm.get("period", 0.0))))


def cpairs(ps):
    return clist(["(%s, %s)" % (cn(a), cn(b)) for a, b in ps], "(nat * nat)")


def render_specs(lay, marks=None):
    marks = marks or CMarks(lay)
    prog = lay.prog
    nrel = prog.get("nrel", 0)
    specs = []
    for rec in lay.inst:
        m = rec["moot"]
        fm = lay.src[m]
        rt = [(lay.tid[m], rec["tid"])]
        for j, ch in enumerate(lay.children(rec["name"])):
            rt.append((PH + j, ch["tid"]))
        rv = []
        for k in range(nrel):
            rv.append((lay.vars[("fr", m, k)], lay.vars[("fr", rec["name"], k)]))
            rv.append((lay.vars[("mfr", m, k)], lay.vars[("fr", rec["parent"], k)]))
            rv.append((lay.vars[("mfe", m, k)], lay.vars[("fe", rec["parent"], rec["frame"], k)]))
            rv.append((lay.vars[("inoph", m, k)], lay.vars[("ino", rec["inode"], k)]))
            for fr in fm["frames"]:
                rv.append((lay.vars[("fe", m, fr["name"], k)], lay.vars[("fe", rec["name"], fr["name"], k)]))
        rmk = []
        for fr in fm["frames"]:
            for (frn, mn) in CMarks.uses_in(fr):
                pr = (marks.mid(m, frn, mn), marks.mid(rec["name"], frn, mn))
                if pr not in rmk:
                    rmk.append(pr)
        psrc = lay.src[lay.srcname[rec["parent"]]]
        mainfid = [f["name"] for f in psrc["frames"]].index(rec["frame"])
        specs.append("(Build_spec %s (Build_ren %s %s %s %s) (%s, %s))" % (
            cn(lay.tid[m]), cpairs(rt), cpairs(rv), cn(K * rec["tid"]), cpairs(rmk), cn(lay.tid[rec["parent"]]),
            cn(mainfid)))
    return clist(specs, "spec")


def render_coq_clones(prog, lay=None):
    lay = lay or Layout(prog)
    R = CoqR(lay)
    p0 = "(@Build_prog FOps %s %s %s %s)" % (
        clist([R.framer(fm) for fm in prog["framers"]], "(framer FOps)"),
        clist([cn(t) for t in lay.taskables()], "nat"), cf(prog["tick"]), cf(0.0))
    return "(expand %s %s)" % (p0, render_specs(lay, R.marks))


COQ_HEADER = kernel.COQ_HEADER + "Require Import V.C12.Model.\n"


def coq_run_expr(prog, crash_at, maxticks, lay=None):
    lay = lay or Layout(prog)
    ca = "None" if crash_at is None else "(Some (%s, %s))" % (cn(crash_at[0]), crash_at[1])
    return "(observe FOps (run %s %s %s %s))" % (render_coq_clones(prog, lay), cn(lay.nvars), ca, cn(maxticks))


# ---------------------------------------------------------------------------
# source-level expansion: every clone becomes its own ORIGINAL auxiliary framer
# ---------------------------------------------------------------------------
def expand_src(prog, lay=None):
    """kernel AST (lib/kernel.py, absolute variables only) with one `be aux` framer per clone instance.
    Framer order: non-moot source framers, then the instances.  Recorder tags carry K * tid of the layout."""
    lay = lay or Layout(prog)

    def conv(fm, who):
        out = {"name": who, "sched": fm["sched"] if who == fm["name"] else "aux", "order": fm.get("order", "mid"),
               "period": fm.get("period", 0.0) if who == fm["name"] else 0.0, "first": fm["first"], "frames": []}
        off = K * lay.tid[who]
        uses = {(f, p): t for (f, p, t) in lay.tags[fm["name"]]}

        def vr(ref, frn):
            return lay.var(ref, who, frn)

        def need(n, frn):
            if n[0] == "var":
                return ["var", vr(n[1], frn), n[2], n[3]]
            if n[0] in ("updated", "changed"):
                return [n[0], vr(n[1], frn), n[2], n[3]]
            if n[0] == "not":
                return ["not", need(n[1], frn)]
            return list(n)

        def act(a, frn):
            k = a[0]
            if k == "rec":
                return ["rec", a[1] + off]
            if k in ("put", "inc"):
                return [k, vr(a[1], frn), a[2]]
            if k == "copy":
                return ["copy", vr(a[1], frn), vr(a[2], frn)]
            if k == "bid":
                return ["bid", a[1], [who if x == "me" else x for x in a[2]], a[3]]
            if k == "done":
                return ["done", [who if x == "me" else x for x in a[1]]]
            return copy.deepcopy(a)

        for fr in fm["frames"]:
            frn = fr["name"]
            g = {"name": frn, "over": fr.get("over"), "under": fr.get("under"),
                 "beacts": [need(n, frn) for n in fr.get("beacts", [])],
                 "auxes": [("%s_%s" % (who, uses[(frn, i)]) if is_clone_use(ax) else ax)
                           for i, ax in enumerate(fr.get("auxes", []))], "preacts": []}
            for key in ("enacts", "renacts", "reacts", "exacts", "rexacts"):
                g[key] = [act(a, frn) for a in fr.get(key, [])]
            for pa in fr.get("preacts", []):
                if pa[0] == "act":
                    g["preacts"].append(["act", act(pa[1], frn)])
                elif pa[0] == "go":
                    g["preacts"].append(["go", [need(n, frn) for n in pa[1]], pa[2]] + list(pa[3:]))
                else:
                    g["preacts"].append(["aux", [need(n, frn) for n in pa[1]], pa[2]])
            out["frames"].append(g)
        return out

    xp = {"tick": prog["tick"], "nvars": lay.nvars, "framers": []}
    for fm in prog["framers"]:
        if fm["sched"] != "moot":
            xp["framers"].append(conv(fm, fm["name"]))
    for rec in lay.inst:
        xp["framers"].append(conv(lay.src[rec["moot"]], rec["name"]))
    return xp


# ---------------------------------------------------------------------------
# implementation runner for programs with clones (real Builder, real Skedder)
# ---------------------------------------------------------------------------
class CloneRecorder(kernel.Recorder):
    """recorder events carry the identity of the EXECUTING framer: tag + K * tid(framer name)"""

    def __init__(self, lay, crash_at):
        self.trace = []
        self.tick = 0
        self.nrec = 0
        self.crash_at = crash_at
        self.lay = lay
        self.fid = {}
        for fm in lay.prog["framers"]:
            for j, fr in enumerate(fm["frames"]):
                self.fid[(fm["name"], fr["name"])] = j
        self.serial = {}            # id(framer object) -> (serial, name)
        self.events = []            # (tick, serial, framer name, frame name, tag)   -- every recorder action
        self.unknown = []

    def who(self, framer):
        k = id(framer)
        if k not in self.serial:
            self.serial[k] = (len(self.serial), framer.name, framer)   # keep a reference: ids stay unique
        return self.serial[k][0]

    def record_from(self, actor, message):
        tag = int(message.strip()[1:])
        frame = actor._act.frame
        framer = frame.framer
        self.events.append((self.tick, self.who(framer), framer.name, frame.name, tag))
        t = self.lay.tid.get(framer.name)
        if t is None:
            self.unknown.append(framer.name)
            t = 999
        self.trace.append(["rec", self.tick, tag + K * t])
        k = self.nrec
        self.nrec += 1
        if self.crash_at is not None and k == self.crash_at[0]:
            if self.crash_at[1] == "KbdInt":
                raise KeyboardInterrupt()
            raise kernel.Crash("injected")


def run_impl_clones(prog, crash_at, workdir, name="prog", limit_s=20, maxticks=60, lay=None, hooks=None):
    """build + run the FloScript with clone verbs.  Observation in the numbering of Layout(prog):
    {trace, vars, status, excn, names (framer registry at the end), events}.
    hooks(rec, house): optional callable installing extra doubles (rear/raze snapshots)"""
    from ioflo.aid.consoling import getConsole
    getConsole().reinit(verbosity=0)
    from ioflo.base import skedding, acting, housing, framing
    lay = lay or Layout(prog)
    path = os.path.join(workdir, name + ".flo")
    inits = [p for p in lay.vpath if p is not None]
    with open(path, "w") as f:
        f.write(render_flo_clones(prog, inits))
    rec = CloneRecorder(lay, crash_at)
    orig_printer = acting.Printer.action

    def action(self, message, **kw):
        rec.record_from(self, message)

    acting.Printer.action = action
    old = signal.signal(signal.SIGALRM, kernel._alarm)
    signal.setitimer(signal.ITIMER_REAL, limit_s)
    undo = []
    try:
        housing.ClearRegistries()
        sk = skedding.Skedder(name="k", period=prog["tick"], real=False, filepath=path)
        try:
            ok = sk.build()
        except Exception as ex:
            return {"error": type(ex).__name__, "msg": str(ex)[:300], "phase": "build"}
        if not ok:
            return {"error": "BuildFalse", "msg": "", "phase": "build"}
        house = sk.houses[0]
        store = house.store
        byname = {}
        for x in house.taskers:
            byname.setdefault(x.name, x)
        for fm in prog["framers"]:
            if fm["sched"] in ("active", "inactive", "slave"):
                t = byname[fm["name"]]
                t.runner = kernel.RunnerProxy(t, lay.tid[fm["name"]], rec)
        if hooks is not None:
            undo = hooks(rec, house) or []
        orig_change = store.changeStamp
        calls = [0]

        def changeStamp(stamp):
            calls[0] += 1
            if calls[0] > maxticks:
                raise KeyboardInterrupt()
            rec.tick = calls[0] - 1
            return orig_change(stamp)

        store.changeStamp = changeStamp
        excn = False
        try:
            sk.run()
        except kernel.Crash:
            excn = True
        except kernel.Hang:
            raise
        except Exception as ex:
            return {"error": type(ex).__name__, "msg": str(ex)[:300], "phase": "run", "trace": rec.trace,
                    "events": rec.events, "rec": rec}
        vals = []
        for p in lay.vpath:
            if p is None:
                vals.append(0)
                continue
            sh = store.fetchShare(p)
            x = sh.value if sh is not None else 0
            vals.append(int(x) if x is not None else 0)
        status = []
        allnames = [fm["name"] for fm in prog["framers"]] + [r["name"] for r in lay.inst]
        missing = []
        for nm in allnames:
            if nm in byname_now(house):
                status.append(byname_now(house)[nm].status)
            else:
                missing.append(nm)
                status.append(0)
        extra = sorted(set(t.name for t in house.framers) - set(allnames))
        return {"trace": rec.trace, "vars": vals, "status": status, "excn": excn, "events": rec.events,
                "missing": missing, "extra": extra, "unknown": rec.unknown, "rec": rec,
                "names": sorted(k for k, v in framing.Framer.Names.items() if isinstance(v, framing.Framer)),
                "clones": {t.name: {"tag": t.tag, "original": t.original, "insular": t.insular,
                                    "inode": t.inode, "main": t.main.name if t.main else None,
                                    "mainframer": t.main.framer.name if t.main else None}
                           for t in house.framers if not t.original}}
    except kernel.Hang:
        return {"error": "Hang", "msg": "no termination within %ss" % limit_s, "phase": "run",
                "trace": rec.trace[-20:]}
    finally:
        signal.setitimer(signal.ITIMER_REAL, 0)
        signal.signal(signal.SIGALRM, old)
        acting.Printer.action = orig_printer
        for fn in undo:
            fn()


def byname_now(house):
    d = {}
    for x in house.taskers:
        d.setdefault(x.name, x)
    return d


def coq_obs(ob):
    return kernel.coq_obs(ob)


# ---------------------------------------------------------------------------
# comparison of the clone program with its source-level expansion (originals alone)
# ---------------------------------------------------------------------------
def map_expanded_obs(xp, ob, lay):
    """observation of the expanded program (kernel numbering of xp) -> numbering of the layout"""
    tmap = {t: lay.tid[fm["name"]] for t, fm in enumerate(xp["framers"])}
    tr = []
    for e in ob["trace"]:
        if e[0] == "rec":
            tr.append(list(e))
        else:
            e = list(e)
            e[2] = tmap[e[2]]
            tr.append(e)
    status = [0] * (lay.n0 + len(lay.inst))
    for t, fm in enumerate(xp["framers"]):
        status[tmap[t]] = ob["status"][t]
    return {"trace": tr, "vars": list(ob["vars"]), "status": status, "excn": ob["excn"]}


def first_difference(a, b):
    for i, (x, y) in enumerate(zip(a["trace"], b["trace"])):
        if list(x) != list(y):
            return "event %d: clone program %r, originals alone %r" % (i, x, y)
    if len(a["trace"]) != len(b["trace"]):
        return "trace lengths %d vs %d" % (len(a["trace"]), len(b["trace"]))
    if list(a["vars"]) != list(b["vars"]):
        d = [i for i, (x, y) in enumerate(zip(a["vars"], b["vars"])) if x != y]
        return "final variables differ at indices %r: %r vs %r" % (d, [a["vars"][i] for i in d], [b["vars"][i] for i in d])
    if list(a["status"]) != list(b["status"]):
        return "final status %r vs %r" % (a["status"], b["status"])
    if a["excn"] != b["excn"]:
        return "exception flag"
    return None
