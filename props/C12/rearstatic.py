"""C12 directed family (implementation only): a REARED moot that itself holds build-time insular clones and a raze.

Moot `worker` holds k static insular clones (`aux kid as mine`; kid may itself hold `aux grand as mine`) in its
frame W1 and a `raze all|first|last [in frame W1]` verb (in W0 = before W1 is entered, in W1 itself without an
`in frame` clause, or in W2 = after W1).  The main framer instantiates it BOTH ways side by side in frame `work`:
`aux worker as mine` (build time) and `rear worker as mine be aux in frame work` (run time); optionally the main
framer razes frame `work` afterwards.  Real Builder + real Skedder (tick limit), doubles in this process only
(wrappers around Rearer.action / Razer.action / Frame.enter).

Executable statements:
  (a) after every raze, every clone that was NOT put into a frame by Rearer.action (i.e. created by
      Framer.resolveMoots for an `aux X as ...` line, at build time or while a reared clone is resolved) and that
      is not nested in a reared clone removed by that raze is still in its frame's .auxes and still registered
      (Framer.Names[name] is the same object); only reared clones leave the razed frame.
  (b) the reared clone's observable trace -- (stamp, relative framer name, frame) of every Frame.enter of the
      clone and of the clones nested in it, plus the final values of their framer-relative marker shares -- equals
      the build-time clone's.
"""
import itertools
import os

KEY = "C12:raze-removes-static-clone"


def script(k, kind, place, mainraze, deep):
    raze = "raze %s" % kind
    L = ["house h", "",
         "  framer main be active first setup",
         "    frame top",
         "      go abort if elapsed >= 6",
         "      frame setup in top",
         "        rear worker as mine be aux in frame work",
         "        go next",
         "      frame work in top",
         "        aux worker as mine",
         "        go next if all is done",
         "      frame cut in top"]
    if mainraze:
        L.append("        raze %s in frame work" % kind)
    L += ["        go next",
          "      frame finish in top",
          "        put 1 into .demo.finished",
          "        bid stop all",
          "    frame abort",
          "      put 1 into .demo.timeout",
          "      bid stop all", "",
          "  framer worker be moot first W0",
          "    frame W0",
          "      put 1 into started of framer"]
    if place == "before":
        L.append("      %s in frame W1" % raze)
    L += ["      go next",
          "    frame W1"]
    L += ["      aux kid as mine"] * k
    if place == "inside":
        L.append("      %s" % raze)
    L += ["      go next if all is done",
          "    frame W2",
          "      put 1 into finished of framer"]
    if place == "after":
        L.append("      %s in frame W1" % raze)
    L += ["      go next",
          "    frame W3",
          "      done", "",
          "  framer kid be moot first K0",
          "    frame K0",
          "      put 1 into ran of framer"]
    if deep:
        L += ["      aux grand as mine",
              "      raze %s" % kind,
              "      go next if all is done"]
    else:
        L.append("      go next")
    L += ["    frame K1",
          "      done", ""]
    if deep:
        L += ["  framer grand be moot first G0",
              "    frame G0",
              "      put 1 into ran of framer",
              "      go next",
              "    frame G1",
              "      done", ""]
    return "\n".join(L) + "\n"


def run_one(ctx, flo, name, limit=120):
    """returns (observation dict, error string)"""
    from ioflo.aid.consoling import getConsole
    getConsole().reinit(verbosity=0)
    from ioflo.base import skedding, housing, framing, acting
    path = os.path.join(ctx.work, name + ".flo")
    with open(path, "w") as f:
        f.write(flo)
    housing.ClearRegistries()
    sk = skedding.Skedder(name="k", period=0.125, real=False, filepath=path)
    try:
        if not sk.build():
            return None, "build failed"
    except Exception as ex:  # noqa
        return None, "build raised %s: %s" % (type(ex).__name__, ex)
    house = sk.houses[0]
    store = house.store
    main = [f for f in house.framers if f.name == "main"][0]
    reared = []          # framer objects put into a frame by Rearer.action
    enters = []          # (stamp, framer object, frame name)
    bad = []             # statement (a)
    calls = [0]
    och = store.changeStamp

    def changeStamp(stamp):
        calls[0] += 1
        if calls[0] > limit:
            raise KeyboardInterrupt()
        return och(stamp)
    store.changeStamp = changeStamp

    def walk(framer, chain, out):
        for fr in framer.frameNames.values():
            for aux in fr.auxes:
                if isinstance(aux, framing.Framer) and not aux.original:
                    out.append((fr, aux, chain))
                    walk(aux, chain + [aux], out)
        return out

    o_rear, o_raze, o_enter = acting.Rearer.action, acting.Razer.action, framing.Frame.enter

    def rear(self, original, clone, schedule, frame, framer, **kw):
        before = list(frame.auxes)
        try:
            return o_rear(self, original=original, clone=clone, schedule=schedule, frame=frame, framer=framer, **kw)
        finally:
            reared.extend(a for a in frame.auxes if not any(a is b for b in before))

    def raze(self, who, frame, framer, **kw):
        before = walk(main, [], [])
        try:
            return o_raze(self, who=who, frame=frame, framer=framer, **kw)
        finally:
            isreared = lambda a: any(a is r for r in reared)  # noqa: E731
            gone = [a for (fr, a, _) in before if isreared(a) and not any(a is b for b in fr.auxes)]
            for (fr, a, chain) in before:
                if isreared(a) or any(c is g for c in chain for g in gone):
                    continue
                if not any(a is b for b in fr.auxes):
                    bad.append("`raze %s` executed by framer %s on frame %s.%s removed clone %s from %s.%s.auxes "
                               "although that clone was created by `aux ... as mine` (never reared; razeable=%r)"
                               % (who, self._act.frame.framer.name, framer.name, frame.name, a.name,
                                  fr.framer.name, fr.name, a.razeable))
                elif framing.Framer.Names.get(a.name) is not a:
                    bad.append("`raze %s` on frame %s.%s freed the name of the never reared clone %s"
                               % (who, framer.name, frame.name, a.name))

    def enter(self, *pa, **kw):
        enters.append((store.stamp, self.framer, self.name))
        return o_enter(self, *pa, **kw)

    acting.Rearer.action, acting.Razer.action, framing.Frame.enter = rear, raze, enter
    err = None
    try:
        sk.run()
    except KeyboardInterrupt:
        err = None
    except Exception as ex:  # noqa
        err = "run raised %s: %s" % (type(ex).__name__, ex)
    finally:
        acting.Rearer.action, acting.Razer.action, framing.Frame.enter = o_rear, o_raze, o_enter
    if err:
        return None, err

    def val(p):
        sh = store.fetchShare(p)
        return None if sh is None else sh.value

    def view(root):
        """observable trace of the clone `root` and of everything nested in it, names relative to root"""
        n = root.name
        rel = lambda s: "@" + s[len(n):]  # noqa: E731
        mine = lambda s: s == n or s.startswith(n + "_")  # noqa: E731
        tr = [[t, rel(f.name), fn] for (t, f, fn) in enters if isinstance(f, framing.Framer) and mine(f.name)]
        names = sorted(set(x[1] for x in tr) | {"@"})
        vals = {r: [val("framer.%s.%s" % (n + r[1:], m)) for m in ("started", "ran", "finished")] for r in names}
        return {"enters": tr, "marks": vals}

    work = main.frameNames["work"]
    everaux = []
    for (t, f, fn) in enters:
        if isinstance(f, framing.Framer) and not f.original and f.name.startswith("main_worker") \
                and f.name.count("_") == 1 and not any(f is e for e in everaux):
            everaux.append(f)
    rr = [f for f in everaux if any(f is r for r in reared)]
    st = [f for f in everaux if not any(f is r for r in reared)]
    ob = {"bad": bad, "reared": [r.name for r in reared], "static_in_work": [a.name for a in work.auxes
                                                                           if not any(a is r for r in reared)],
          "timeout": val(".demo.timeout"), "finished": val(".demo.finished"),
          "static": view(st[0]) if st else None, "rear": view(rr[0]) if rr else None,
          "names": [st[0].name if st else None, rr[0].name if rr else None]}
    return ob, None


def check_reared_static(ctx):
    found = None
    i = 0
    for deep, mainraze, place, kind, k in itertools.product((False, True), (False, True),
                                                            ("before", "inside", "after"),
                                                            ("all", "first", "last"), (1, 2, 3)):
        if deep and k == 3:
            continue
        i += 1
        flo = script(k, kind, place, mainraze, deep)
        ob, err = run_one(ctx, flo, "rs%d" % i)
        why = err
        nontrivial = False
        if why is None:
            if len(ob["reared"]) != 1 or ob["static"] is None or ob["rear"] is None:
                why = ("expected one reared and one build-time clone of worker to run: reared=%r, traces of %r"
                       % (ob["reared"], ob["names"]))
            elif ob["bad"]:
                why = ob["bad"][0]
            elif ob["static"] != ob["rear"]:
                a, b = ob["static"], ob["rear"]
                why = ("the reared clone %s does not run like the build-time clone %s of the same moot: frames entered "
                       "(stamp, framer relative to the clone, frame) %r vs %r; marker shares [started, ran, finished] "
                       "%r vs %r" % (ob["names"][1], ob["names"][0], b["enters"], a["enters"], b["marks"], a["marks"]))
            elif not ob["static_in_work"]:
                why = "the build-time clone of worker left main.work.auxes"
            nontrivial = ob["static"] is not None and ob["static"]["marks"]["@"][2] == 1 and not ob["timeout"]
        ctx.case({"reared_static": i, "k": k, "kind": kind, "place": place, "mainraze": mainraze, "deep": deep},
                 nontrivial=nontrivial, kind="rear-static-raze,place=%s,mainraze=%s,deep=%s" % (place, mainraze, deep))
        if why and found is None:
            found = {"key": KEY, "flo": flo, "k": k, "raze": kind, "place": place, "observed": why,
                     "expected": "a raze removes only clones put into the frame by `rear`; clones created by "
                     "`aux X as mine` inside a reared moot stay in their frame's .auxes and registered, and the "
                     "reared clone enters the same frames at the same stamps with the same marker values as the "
                     "build-time clone of the same moot",
                     "contradicts": "C12 statement (raze removes only reared clones; a reared clone runs like a "
                     "build-time clone); C12.Props raze_only_razeable_insular"}
    return found
