"""C12 -- cloned framers run like their originals and never share relative state; rear / raze.
See coq/C12/{Model,Proofs,Paths,Props}.v, props/C12/{clones,cgen,rearraze}.py, coq/Kernel (run-time model)."""
import os
import sys

sys.path.insert(0, os.path.dirname(os.path.abspath(__file__)))

import kernel          # noqa: E402
import clones          # noqa: E402
import cgen            # noqa: E402
import rearraze        # noqa: E402
import rearstatic      # noqa: E402

LEVEL = "proof"

TAG_HEADER = """From Coq Require Import String List.
Import ListNotations.
Require Import V.C12.Model.
Open Scope string_scope.
Definition ostr_eqb (a b : option string) : bool :=
  match a, b with Some x, Some y => String.eqb x y | None, None => true | _, _ => false end.
"""

REG_HEADER = """From Coq Require Import String List.
Import ListNotations.
Require Import V.C12.Model.
"""


def static_part(ctx, failures):
    """programs with static clones: implementation vs kernel model on the expanded program (Coq expansion),
    and implementation with clones vs implementation with ORIGINAL copies (the bisimulation statement)"""
    n = ctx.n(50, 450)
    maxticks = ctx.n(18, 30)
    g = cgen.CloneGen(ctx.rng, features={"rel": True, "via": True, "nestclone": True, "marker": True},
                      ticks=(0.125, 0.1), sizes=(2, 3))
    cases, metas = [], []
    ndirected = ctx.n(16, 120)
    for i in range(n + ndirected):
        p = g.program() if i < n else g.marker_program()
        try:
            lay = clones.Layout(p)
        except ValueError:
            continue            # generator produced a clone-name collision (CloneError by design): not a C12 case
        ob = clones.run_impl_clones(p, None, ctx.work, "st%d" % i, maxticks=maxticks, lay=lay)
        flo = clones.render_flo_clones(p, [x for x in lay.vpath if x is not None])
        if "error" in ob:
            ctx.case({"flo": flo, "error": ob["error"]}, nontrivial=True, kind="static,impl-error")
            ctx.tie_broken("correspondence", "static clones: implementation raised %s" % ob["error"],
                           kernel.json_dumps({"flo": flo, "error": {k: v for k, v in ob.items() if k != "rec"}}))
            failures.append({"key": "C12:impl-error:%s" % ob["error"], "flo": flo,
                             "observed": ob.get("msg"), "expected": "build and run of a clone program succeed",
                             "contradicts": "C12 correspondence (kernel language left)"})
            continue
        # naming / flags of the clones as predicted by the layout (resolveMoots: surname_tag, insular, main)
        for r in lay.inst:
            c = ob["clones"].get(r["name"])
            want = {"tag": r["tag"], "original": False, "insular": r["insular"], "main": r["frame"],
                    "mainframer": r["parent"]}
            got = None if c is None else {k: c[k] for k in want}
            if got != want:
                ctx.tie_broken("correspondence", "clone registry differs", kernel.json_dumps(
                    {"flo": flo, "clone": r["name"], "expected": want, "observed": got}))
        if ob["missing"] or ob["extra"] or ob["unknown"]:
            ctx.tie_broken("correspondence", "clone names differ", kernel.json_dumps(
                {"flo": flo, "missing": ob["missing"], "extra": ob["extra"], "unknown": ob["unknown"]}))
        # implementation-only statement: the clones behave as ORIGINAL auxiliaries (own copy of the moot's text,
        # private variables) in the same roles
        xp = clones.expand_src(p, lay)
        ob2 = kernel.run_impl(xp, None, ctx.work, "sx%d" % i, maxticks=maxticks)
        diff = None
        if "error" in ob2:
            diff = "originals-alone program failed: %s %s" % (ob2["error"], ob2.get("msg"))
        else:
            diff = clones.first_difference(ob, clones.map_expanded_obs(xp, ob2, lay))
        if diff:
            failures.append({"key": "C12:clone-differs-from-original", "flo": flo, "originals_flo": kernel.render_flo(xp),
                             "observed": diff, "expected": "identical recorder/send traces, final values of the "
                             "(relative) variables and statuses under the renaming clone name -> original copy",
                             "contradicts": "C12 statement: each clone runs like its original alone"})
        nt = kernel.transitions_in(ob)
        nclone_ev = len([e for e in ob["trace"] if e[0] == "rec" and e[2] // clones.K >= lay.n0])
        nested = any(r["parent"] in lay.by_name for r in lay.inst)
        ctx.case({"flo": flo, "instances": len(lay.inst), "events": len(ob["trace"]), "clone_events": nclone_ev},
                 nontrivial=nclone_ev > 4 and len(lay.inst) >= 2,
                 kind=("static" if i < n else "same-tag-markers") +
                 ",inst=%d,nested=%s,rel=%d" % (min(len(lay.inst), 4), nested, min(p.get("nrel", 0), 1)))
        cases.append((clones.coq_run_expr(p, None, maxticks, lay), clones.coq_obs(ob)))
        metas.append((flo, ob))
    bad = ctx.coq_cases(clones.COQ_HEADER, "(obs_eqb FOps)", cases, shard=ctx.n(5, 12), name="c12static")
    for j in bad[:3]:
        flo, ob = metas[j]
        ctx.tie_broken("correspondence", "static clones: kernel model (expanded program) and implementation differ",
                       kernel.json_dumps({"flo": flo, "impl_trace_head": ob["trace"][:60], "vars": ob["vars"]}))
    ctx.extra["static_mismatches"] = len(bad)


def tag_part(ctx, failures):
    """Framer.newMootTag / newAuxTag (real methods on a bare Framer object) vs new_tag_str"""
    from ioflo.base import framing
    from ioflo.aid.odicting import odict
    fr = object.__new__(framing.Framer)
    r = ctx.rng
    cases = []
    for i in range(ctx.n(240, 3000)):
        base = r.choice(["mo", "mo1", "a", "orig", "x_y", "m0"])
        pool = ["%s%d" % (base, k) for k in range(1, 14)] + ["%s%d" % (base + "1", k) for k in range(0, 4)] + \
               ["c1", "mine", base, base + "01", base + "1_1"]
        used = r.sample(pool, r.randint(0, min(len(pool), 12)))
        if r.random() < 0.3:
            used = ["%s%d" % (base, k) for k in range(1, r.randint(1, 12))] + used[:2]
        count = r.choice([0, 0, 0, 1, 2, 5])
        fr.tag = base
        fr.moots, fr.auxes = odict(), odict()
        if i % 2:
            fr.moots = odict((u, None) for u in used)
            got = fr.newMootTag(base=base if r.random() < 0.8 else None, count=count)
        else:
            fr.auxes = odict((u, None) for u in used)
            got = fr.newAuxTag(base=base if r.random() < 0.8 else None, count=count)
        # the property's own statement on the implementation alone: fresh, of the form base<n>, least n > count
        ok = got not in used and got.startswith(base) and got[len(base):].isdigit() and int(got[len(base):]) > count \
            and all("%s%d" % (base, k) in used for k in range(count + 1, int(got[len(base):])))
        if not ok:
            failures.append({"key": "C12:tag-not-fresh", "base": base, "count": count, "used": used,
                             "method": "newMootTag" if i % 2 else "newAuxTag", "observed": got,
                             "expected": "the least tag base<n>, n > count, that is not in use",
                             "contradicts": "C12.Props tag_fresh"})
        ctx.case({"base": base, "count": count, "used": used, "tag": got}, nontrivial=len(set(used)) > 1,
                 kind="tag,skipped=%d" % min(3, int(got[len(base):]) - count - 1))
        cases.append(('(new_tag_str "%s" %d %s)' % (base, count, kernel.clist(['"%s"' % u for u in used], "string")),
                      '(Some "%s")' % got))
    bad = ctx.coq_cases(TAG_HEADER, "ostr_eqb", cases, shard=400, name="c12tags")
    for j in bad[:3]:
        ctx.tie_broken("correspondence", "newMootTag/newAuxTag differs from new_tag_str", repr(cases[j]))
    return bad


def rear_part(ctx, failures):
    n = ctx.n(60, 400)
    g = cgen.CloneGen(ctx.rng, ticks=(0.125,))
    cases, metas = [], []
    ncmp = 0
    for i in range(n):
        mid = (i % 3 == 2)
        p = g.rear_program(mid_raze=mid, nested_named=(i % 4 != 3))
        ob = rearraze.run_rear(p, ctx.work, "rr%d" % i, maxticks=ctx.n(40, 60))
        flo = clones.render_flo_clones(p, rearraze.predicted_inits(p))
        ops = [(o["op"], o.get("who") or o.get("moot"), o["framename"]) for o in ob["ops"]]
        st = rearraze.statements(p, ob)
        if st:
            failures.append({"key": "C12:" + st[0], "flo": flo, "ops": ops, "observed": st[1],
                             "expected": "raze removes exactly the selected razeable insular clones of the named frame; "
                             "pruned framers never run again; their names leave Framer.Names so that rearing again works",
                             "contradicts": "C12.Props raze_only_razeable_insular / razed_never_runs_and_name_free"})
        elif "error" in ob:
            failures.append({"key": "C12:impl-error:%s" % ob["error"], "flo": flo, "ops": ops,
                             "observed": ob.get("msg"), "expected": "run without internal error",
                             "contradicts": "C12 rear/raze correspondence"})
        if not mid and "error" not in ob and not st:
            lo, k = rearraze.like_original(p, ob, ctx.work, "rr%d" % i)
            ncmp += k
            if lo:
                failures.append({"key": "C12:" + lo[0], "flo": flo, "ops": ops, "observed": lo[1],
                                 "expected": "a reared clone's first activation equals the run of original copies alone",
                                 "contradicts": "C12 statement: reared clones run like their originals"})
        nraze = len([o for o in ob["ops"] if o["op"] == "raze"])
        nrear = len([o for o in ob["ops"] if o["op"] == "rear"])
        created = []
        for o in ob["ops"]:
            if o["op"] == "rear" and "after" in o:
                created += sorted(set(o["after"]["names"]) - set(o["before"]["names"]))[:1]
        ctx.case({"flo": flo, "ops": ops[:12], "events": len(ob.get("events", []))},
                 nontrivial=nrear >= 2 and nraze >= 1,
                 kind="rear,mid=%s,name_reused=%s" % (mid, len(created) != len(set(created))))
        try:
            c = rearraze.coq_ops_case(p, ob)
        except ValueError as ex:
            ctx.tie_broken("harness", "rear program outside the registry model", str(ex))
            c = None
        if c:
            cases.append(c)
            metas.append((flo, ops))
    bad = ctx.coq_cases(REG_HEADER, "snaps_eqb", cases, shard=40, name="c12reg")
    for j in bad[:3]:
        ctx.tie_broken("correspondence", "registry model (rear/raze/prune) and implementation snapshots differ",
                       kernel.json_dumps({"flo": metas[j][0], "ops": metas[j][1]}))
    ctx.extra["registry_mismatches"] = len(bad)
    ctx.extra["reared_activations_compared_with_original"] = ncmp


def run(ctx):
    ctx.rule = (
        "(a) random programs with moot framers cloned statically (named tags, insular `mine`, look-alike tags that "
        "newMootTag must skip, via inodes, several clones of one moot per frame/framer, moots cloning moots up to depth 3, "
        "framer-/frame-/main-framer-/main-frame-/inode-relative variables): real Builder+Skedder whole-run traces "
        "(recorder events tagged with the executing clone, every send with outline/elapsed/recurred, final values of "
        "every absolute and relative share, statuses) vs the Coq kernel model run on `expand P specs`; the same run vs "
        "the real run of the source-expanded program in which every clone is an ORIGINAL `be aux` copy with private "
        "variables (implementation-only bisimulation statement). (b) real newMootTag/newAuxTag vs new_tag_str. "
        "(c) rear/raze programs (rear into other frames, run, raze all|first|last, rear again into the same or another "
        "frame; raze while running): snapshots of Framer.Names and every Frame.auxes after each Rearer/Razer action vs "
        "the Coq registry model; implementation-only statements S1-S4 of rearraze.py. (d) directed family "
        "(props/C12/rearstatic.py, implementation only, run first): moot `worker` with k=1..3 static insular clones "
        "(`aux kid as mine`, optionally holding `aux grand as mine` and a raze of their own) in frame W1 and `raze "
        "all|first|last [in frame W1]` in W0 / W1 / W2, instantiated by `rear` and by `aux worker as mine` side by side "
        "(optionally razed by the main framer afterwards): after every raze every clone not put in place by "
        "Rearer.action and not nested in a removed reared clone is still in its frame's .auxes and in Framer.Names; "
        "the reared clone's Frame.enter trace (stamp, relative name, frame) and marker shares equal the build-time "
        "clone's. Non-trivial = >= 2 clone "
        "instances with > 4 clone events (a), >= 2 rears and a raze (c), the build-time clone reaches its last frame (d)")
    ctx.assumptions = [
        "harness doubles in the check process only: Printer.action recorder (reads actor._act.frame.framer), runner "
        "proxies, store.changeStamp wrapper, wrappers around Rearer.action / Razer.action taking registry snapshots; in (d) a Frame.enter wrapper",
        "relative shares are initialised to 0 by house-level `init` lines on their PREDICTED absolute paths "
        "(.framer.<surname_tag>.rv<k>, ...): a wrong prediction shows up as a value mismatch",
        "clone programs stay inside the kernel language (no conditional clone aux -- rejected by the builder --, no "
        "original auxiliary inside a moot, no self-cloning moot: known finding C14 hang:clone-cycle)",
        "reared clones in (c) are closed (they read only their own relative variable and clocks) so that `alone under "
        "the same inputs` is well defined; their first activation is compared",
    ]
    import time
    t0 = time.time()
    ctx.coq_build("C12/Props.v")
    t1 = time.time()
    failures = []
    # directed family, runs first in both tiers (implementation only): a reared moot holding static insular clones
    # and a raze, side by side with a build-time clone of the same moot (props/C12/rearstatic.py)
    f = rearstatic.check_reared_static(ctx)
    if f:
        failures.append(f)
    t1b = time.time()
    static_part(ctx, failures)
    t2 = time.time()
    tag_part(ctx, failures)
    t3 = time.time()
    rear_part(ctx, failures)
    ctx.extra["phase_seconds"] = {"coq_build": round(t1 - t0, 1), "rear_static": round(t1b - t1, 1),
                                  "static": round(t2 - t1b, 1), "tags": round(t3 - t2, 1),
                                  "rear": round(time.time() - t3, 1)}
    seen = set()
    for f in failures:
        if f["key"] in seen:
            continue
        seen.add(f["key"])
        rep = dict(f)
        key = rep.pop("key")
        ctx.violation(rep, True, key)
    ctx.extra["impl_only_failures"] = len(failures)

    def search():
        return dict(failures[0]) if failures else None

    if ctx.violations == 0:
        ctx.settle(search)
