"""
Drive the real Patron through redirect chains served by real Valets over the fakenet double.

A scenario is
  start : (scheme, host, port, path, query)      where the first request goes
  hops  : [(status, location_string), ...]       the k-th request that reaches ANY server is
                                                  answered with hops[k] (3xx + Location);
                                                  the request after the last hop gets 200 + body
Servers listen on every port in PORTS (plain TCP; a client that believes it speaks https uses
ClientTls with wrap/handshake replaced by no-ops, see fakenet.install(tls=True)).
Observed: for every request that reached a server: (dialled host, dialled port, client used
TLS connector, serving port, request target as sent, Host header, method, connection index); the final response (status, body,
[(status, location) of its .redirects]); or the exception that escaped Patron.serviceAll.
"""
import collections.abc  # noqa: F401
import os
import sys

sys.path.insert(0, os.path.join(os.path.dirname(os.path.abspath(__file__)), "..", "C31"))
import fakenet  # noqa: E402

PORTS = [80, 443, 6101, 6102, 8443]
FINAL_BODY = b"final body"


def run_chain(start, hops, max_rounds=80, redirectable=True):
    from ioflo.aid.odicting import odict
    from ioflo.base import storing
    from ioflo.aio.http import clienting, serving
    net = fakenet.install(tls=True)
    store = storing.Store(stamp=0.0)
    seen = []      # requests in arrival order

    def make_app(port):
        def app(environ, start_response):
            k = len(seen)
            target = environ['PATH_INFO']
            if environ.get('QUERY_STRING'):
                target += '?' + environ['QUERY_STRING']
            seen.append({"port": port, "target": target, "host_header": environ.get('HTTP_HOST'),
                         "method": environ['REQUEST_METHOD']})
            if k < len(hops):
                status, loc = hops[k]
                reason = {300: 'Multiple Choices', 301: 'Moved Permanently', 302: 'Found',
                          303: 'See Other', 307: 'Temporary Redirect'}.get(status, 'Other')
                start_response('%d %s' % (status, reason),
                               [('Location', loc), ('Content-Length', '0'), ('X-Hop', str(k))])
                return [b'']
            start_response('200 OK', [('Content-Length', str(len(FINAL_BODY))), ('X-Hop', str(k))])
            return [FINAL_BODY]
        return app

    valets = []
    for port in PORTS:
        v = serving.Valet(port=port, bufsize=131072, store=store, app=make_app(port))
        assert v.servant.reopen()
        valets.append(v)

    scheme, host, port, path, query = start
    url = "%s://%s:%d%s" % (scheme, host, port, path)
    if query:
        url += "?" + query
    error = None
    beta = None
    try:
        beta = clienting.Patron(bufsize=131072, store=store, path=url, reconnectable=True,
                                redirectable=redirectable)
        beta.connector.reopen()
        beta.requests.append(odict([('method', u'GET'), ('path', path + (("?" + query) if query else "")),
                                    ('qargs', odict()), ('fragment', u''),
                                    ('headers', odict([('Accept', '*/*')]))]))
        idle = 0
        for _ in range(max_rounds):
            before = (len(beta.responses), sum(len(s.sent) for s in net.socks), len(net.connections))
            for v in valets:
                v.serviceAll()
            beta.serviceAll()
            after = (len(beta.responses), sum(len(s.sent) for s in net.socks), len(net.connections))
            if beta.responses:
                break
            idle = idle + 1 if before == after else 0
            if idle >= 12:
                break
    except Exception as ex:
        error = type(ex).__name__
        errtext = "%s: %s" % (type(ex).__name__, ex)
    # which connection carried each request: match requests to connections by order of bytes sent
    dial = []
    for ci, (c, sv, ha) in enumerate(net.connections):
        nreq = bytes(c.sent).count(b" HTTP/1.1\r\n")
        dial.extend([(ha[0], ha[1], bool(c.tls), ci)] * nreq)
    out = {"seen": [], "final": None, "error": error, "errtext": None if error is None else errtext,
           "connections": [(ha[0], ha[1], bool(c.tls)) for c, sv, ha in net.connections]}
    for i, s in enumerate(seen):
        d = dial[i] if i < len(dial) else (None, None, None, None)
        out["seen"].append((d[0], d[1], d[2], s["port"], s["target"], s["host_header"], s["method"], d[3]))
    if beta is not None and beta.responses:
        r = beta.responses[0]
        out["final"] = (r["status"], bytes(r["body"]),
                        [(x["status"], x["headers"].get("location")) for x in r.get("redirects", [])],
                        len(beta.responses))
        out["waited"] = beta.waited
        out["redirects_left"] = len(beta.redirects)
    for v in valets:
        try:
            v.servant.closeAll()
        except Exception:
            pass
    try:
        if beta is not None:
            beta.connector.close()
    except Exception:
        pass
    return out


def run_requests(start, plans, max_rounds=80):
    """SEVERAL requests, one after the other, on ONE Patron.  plans = [(path, query, hops), ...]:
    request i asks for path?query (on whatever connection the Patron is on after request i-1) and is
    answered with the 3xx responses of hops_i, then with 200.  Returns per request: the final
    response the Patron delivered (status, body, [(status, location) of its .redirects]) or None,
    the requests the servers saw for it, and the overall error if an exception escaped."""
    from ioflo.aid.odicting import odict
    from ioflo.base import storing
    from ioflo.aio.http import clienting, serving
    net = fakenet.install(tls=True)
    store = storing.Store(stamp=0.0)
    script = []                      # (request index, hop or None) in the order the servers answer
    for i, (path, query, hops) in enumerate(plans):
        script += [(i, h) for h in hops] + [(i, None)]
    seen = []

    def make_app(port):
        def app(environ, start_response):
            k = len(seen)
            target = environ['PATH_INFO']
            if environ.get('QUERY_STRING'):
                target += '?' + environ['QUERY_STRING']
            i, hop = script[k] if k < len(script) else (len(plans), None)
            seen.append({"port": port, "target": target, "host_header": environ.get('HTTP_HOST'), "req": i})
            if hop is not None:
                status, loc = hop
                start_response('%d Redirect' % status, [('Location', loc), ('Content-Length', '0'), ('X-Req', str(i))])
                return [b'']
            body = FINAL_BODY + b" %d" % i
            start_response('200 OK', [('Content-Length', str(len(body))), ('X-Req', str(i))])
            return [body]
        return app

    valets = []
    for port in PORTS:
        v = serving.Valet(port=port, bufsize=131072, store=store, app=make_app(port))
        assert v.servant.reopen()
        valets.append(v)
    scheme, host, port, path0, q0 = start
    error = None
    delivered = []
    beta = None
    try:
        beta = clienting.Patron(bufsize=131072, store=store, path="%s://%s:%d/" % (scheme, host, port),
                                reconnectable=True, redirectable=True)
        beta.connector.reopen()
        for i, (path, query, hops) in enumerate(plans):
            beta.requests.append(odict([('method', u'GET'), ('path', path + (("?" + query) if query else "")),
                                        ('qargs', odict()), ('fragment', u''),
                                        ('headers', odict([('Accept', '*/*')]))]))
            idle = 0
            for _ in range(max_rounds):
                before = (len(beta.responses), sum(len(s.sent) for s in net.socks), len(net.connections))
                for v in valets:
                    v.serviceAll()
                beta.serviceAll()
                after = (len(beta.responses), sum(len(s.sent) for s in net.socks), len(net.connections))
                if beta.responses:
                    break
                idle = idle + 1 if before == after else 0
                if idle >= 12:
                    break
            if not beta.responses:
                delivered.append(None)
                break
            r = beta.responses.popleft()
            delivered.append((r["status"], bytes(r["body"]),
                              [(x["status"], x["headers"].get("location")) for x in r.get("redirects", [])],
                              r["headers"].get("x-req")))
    except Exception as ex:
        error = "%s: %s" % (type(ex).__name__, ex)
    out = {"delivered": delivered, "error": error,
           "seen": [(s["req"], s["port"], s["target"], s["host_header"]) for s in seen],
           "redirects_left": len(beta.redirects) if beta is not None else None,
           "waited": beta.waited if beta is not None else None}
    for v in valets:
        try:
            v.servant.closeAll()
        except Exception:
            pass
    try:
        if beta is not None:
            beta.connector.close()
    except Exception:
        pass
    return out
