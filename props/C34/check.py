"""
C34 -- HTTP redirects are followed safely to the final response.

Tie H: coq/C34/Model.v is a hand model of Patron.redirect (decision logic, FIXED behaviour) and
of the redirect bookkeeping in Patron.serviceResponse, with a URL-reference splitter/resolver
that follows urllib.parse.urlsplit / urljoin on the generated grammar.
  theorems       : coq/C34/Props.v
  correspondence : (a) the splitter and the resolver against CPython's urlsplit / urljoin on the
                       whole generated grammar, inside Coq (vm_compute);
                   (b) redirect chains run on the real Patron against real Valets over the
                       socket double: every reissued request (TLS or not, Host, port, path,
                       query, new connection or not), the refusal, and the final response with
                       its chain, against the model's `follow` / `service_all`.
"""
import itertools
import os
import sys
from urllib.parse import urlsplit, urljoin, parse_qsl, unquote, quote

sys.path.insert(0, os.path.dirname(os.path.abspath(__file__)))

from vlib import cz, clist, cbool, cstr, copt  # noqa: E402

import harness  # noqa: E402

LEVEL = "proof"

REDIRECT_STATUSES = (300, 301, 302, 303, 307)

SCHEMES = ["http", "https", "HTTP", "Https"]
HOSTS = ["127.0.0.1", "localhost", "LocalHost"]
PORTS = [None, 80, 443, 6101, 6102, 8443]
PATHS = ["", "/", "/b", "/d/e.f", "/~u/x-y_z"]
QUERIES = [None, "y=2", "a=1&b=", "k=v&k2=v2"]
RELS = ["/p", "/p?q=1", "/d/e/f?a=1&b=2", "rel", "rel?x=1", "d/rel", "?q=2", "//localhost:6102/b", "//127.0.0.1/c?z=1",
        "/", "x.y/z-w"]
STARTS = [("http", "127.0.0.1", 6101, "/a", "x=1"), ("https", "127.0.0.1", 8443, "/s/t", ""),
          ("http", "localhost", 6102, "/", ""), ("https", "localhost", 443, "/a/b/c", "k=v")]


def abs_locations():
    out = []
    for sch, h, p, pa, q in itertools.product(SCHEMES, HOSTS, PORTS, PATHS, QUERIES):
        loc = "%s://%s" % (sch, h)
        if p is not None:
            loc += ":%d" % p
        loc += pa
        if q is not None:
            loc += "?" + q
        out.append(loc)
    return out


def base_url(cur):
    """the url of the request that was redirected, in encoded form (cur[3] is the DECODED path the
    client was given / was redirected to)"""
    scheme, host, port, path = cur
    return "%s://%s:%d%s" % (scheme, host, port, quote(path, safe="/"))


def expected_hop(cur, loc):
    """the property's statement (RFC 3986 resolution by CPython's urljoin as oracle):
    returns ('ok', (scheme, host, port, path, query)) or ('refused', None)"""
    u = urlsplit(urljoin(base_url(cur), loc))
    scheme = "https" if u.scheme.lower() == "https" else "http"
    port = u.port if u.port is not None else (443 if scheme == "https" else 80)
    if cur[0] == "https" and scheme != "https":
        return "refused", None
    return "ok", (scheme, u.hostname, port, unquote(u.path or "/"), u.query)   # path DECODED = expected PATH_INFO


def expected_chain(start, hops):
    cur = (start[0], start[1], start[2], start[3])
    reqs, statuses = [], []
    for status, loc in hops:
        if status not in REDIRECT_STATUSES:
            return reqs, None, (status, statuses)
        kind, tgt = expected_hop(cur, loc)
        if kind == "refused":
            return reqs, "ValueError", None
        statuses.append(status)
        reqs.append(tgt)
        cur = (tgt[0], tgt[1], tgt[2], tgt[3])
    return reqs, None, (200, statuses)


def py_norm(h):
    h = (h or "").lower()
    return "127.0.0.1" if h == "localhost" else h


def same_query(a, b):
    return parse_qsl(a, keep_blank_values=True) == parse_qsl(b, keep_blank_values=True)


def prop_violation(start, hops, res):
    reqs, err, final = expected_chain(start, hops)
    if err:
        if res["error"] != err:
            return "expected refusal %s, observed error=%r final=%r" % (err, res["errtext"], res["final"])
    elif res["error"]:
        return "exception escaped Patron.serviceAll: %s" % res["errtext"]
    seen = res["seen"][1:]
    if len(seen) != len(reqs):
        return "servers saw %d reissued requests, expected %d" % (len(seen), len(reqs))
    for k, (s, e) in enumerate(zip(seen, reqs)):
        dial_host, dial_port, tls, srv_port, target, host_header, method, conn = s
        path, _, query = target.partition("?")
        if tls != (e[0] == "https"):
            return "hop %d: TLS=%r but resolved scheme is %s" % (k, tls, e[0])
        if dial_port != e[2]:
            return "hop %d: dialled port %r, resolved port %r" % (k, dial_port, e[2])
        # a redirect to another NAME of the same address keeps the connection and the old Host
        # name (pinned by the repository's own testPatronRedirectSimple): compare addresses
        if py_norm((host_header or "").rsplit(":", 1)[0]) != py_norm(e[1]) or py_norm(dial_host) != py_norm(e[1]):
            return "hop %d: Host %r / dialled %r, resolved host %r" % (k, host_header, dial_host, e[1])
        if path != e[3]:      # PATH_INFO (decoded once by the server) against the decoded resolved path
            return "hop %d: request reissued to path %r, urljoin of the original url gives %r" % (k, path, e[3])
        if not same_query(query, e[4]):
            return "hop %d: query %r, resolved query %r" % (k, query, e[4])
        if method != "GET":
            return "hop %d: method %r" % (k, method)
    if final is not None:
        if res["final"] is None:
            return "no final response delivered"
        st, body, chain, nresp = res["final"]
        if nresp != 1:
            return "%d responses delivered, expected one" % nresp
        if st != final[0] or [c[0] for c in chain] != final[1]:
            return "final response %r with chain %r, expected %r with chain %r" % (st, [c[0] for c in chain], final[0], final[1])
        want_locs = [loc for status, loc in hops[:len(final[1])]]
        if [c[1] for c in chain] != want_locs:
            return "chain Locations %r, expected %r" % ([c[1] for c in chain], want_locs)
        if res.get("waited") or res.get("redirects_left"):
            return "after the final response waited=%r, %r redirects left over" % (res.get("waited"), res.get("redirects_left"))
    return None


# ---------------------------------------------------------------- Coq side

HEADER = """From Coq Require Import List ZArith Bool.
Import ListNotations.
Require Import V.C34.Model.
Open Scope Z_scope.
Definition LOCALHOST : str := %s.
Definition LOOPBACK : str := %s.
Definition norm (h : str) : str := if str_eqb h LOCALHOST then LOOPBACK else h.
Definition oz_eqb (a b : option Z) := match a, b with Some x, Some y => Z.eqb x y | None, None => true | _, _ => false end.
Definition os_eqb (a b : option str) := match a, b with Some x, Some y => str_eqb x y | None, None => true | _, _ => false end.
(* (scheme, host, port, path, query) *)
Definition view (p : parts) := (p_scheme p, p_host p, p_port p, p_path p, p_query p).
Definition view_eqb (a b : str * option str * option Z * str * str) : bool :=
  let '(s1, h1, p1, pa1, q1) := a in let '(s2, h2, p2, pa2, q2) := b in
  str_eqb s1 s2 && os_eqb h1 h2 && oz_eqb p1 p2 && str_eqb pa1 pa2 && str_eqb q1 q2.
Definition mkcur (https : bool) (h : str) (p : Z) (pa : str) : origin :=
  {| o_https := https; o_host := h; o_port := p; o_path := pa |}.
(* one redirect chain: hops = (status, Location); result = reissued requests, refusal, final *)
Definition tview (t : target) := (t_https t, t_host t, t_port t, t_path t, t_query t, t_reconnect t).
Fixpoint sim (cur : origin) (hops : list (Z * str)) (k : Z)
  : list (bool * str * Z * str * str * bool) * Z * list (Z * Z) :=
  match hops with
  | [] => ([], 0, [(200, k)])
  | (st, loc) :: hs =>
      if is_redirect_status st then
        match redirect norm cur loc with
        | Err _ => ([], 1, [])
        | Ok t => let '(ts, e, pr) := sim (origin_of t) hs (k + 1) in (tview t :: ts, e, (st, k) :: pr)
        end
      else ([], 0, [(st, k)])
  end.
(* refusal: Patron.redirect raised while the redirect response was already appended *)
Definition outcome (cur : origin) (hops : list (Z * str)) :=
  let '(ts, e, pr) := sim cur hops 0 in
  let p := service_all true {| redirects := []; responses := []; waited := true |} pr in
  (ts, e, map (fun r => (rs_status r, map fst (rs_redirects r))) (responses p)).
Fixpoint lz_eqb (a b : list Z) := match a, b with [], [] => true | x :: a', y :: b' => Z.eqb x y && lz_eqb a' b' | _, _ => false end.
Definition tv_eqb (a b : bool * str * Z * str * str * bool) : bool :=
  let '(s1, h1, p1, pa1, q1, r1) := a in let '(s2, h2, p2, pa2, q2, r2) := b in
  Bool.eqb s1 s2 && str_eqb h1 h2 && Z.eqb p1 p2 && str_eqb pa1 pa2 && str_eqb q1 q2 && Bool.eqb r1 r2.
Fixpoint tvs_eqb (a b : list (bool * str * Z * str * str * bool)) :=
  match a, b with [], [] => true | x :: a', y :: b' => tv_eqb x y && tvs_eqb a' b' | _, _ => false end.
Fixpoint fin_eqb (a b : list (Z * list Z)) :=
  match a, b with [], [] => true | (x, l) :: a', (y, m) :: b' => Z.eqb x y && lz_eqb l m && fin_eqb a' b' | _, _ => false end.
Definition out_eqb (a b : list (bool * str * Z * str * str * bool) * Z * list (Z * list Z)) : bool :=
  let '(t1, e1, f1) := a in let '(t2, e2, f2) := b in tvs_eqb t1 t2 && Z.eqb e1 e2 && fin_eqb f1 f2.
""" % (cstr("localhost"), cstr("127.0.0.1"))


def c_view(scheme, host, port, path, query):
    return "(%s, %s, %s, %s, %s)" % (cstr(scheme), copt(host, cstr), copt(port, cz), cstr(path), cstr(query))


def py_view(u):
    return c_view(u.scheme, u.hostname, u.port, u.path, u.query)


def c_cur(cur):
    return "(mkcur %s %s %s %s)" % (cbool(cur[0] == "https"), cstr(cur[1]), cz(cur[2]), cstr(cur[3]))


def c_hops(hops):
    return clist(["(%s, %s)" % (cz(s), cstr(l)) for s, l in hops], "(Z * str)")


def impl_outcome(res):
    tvs = []
    prev_conn = res["seen"][0][7] if res["seen"] else None
    for s in res["seen"][1:]:
        dial_host, dial_port, tls, srv_port, target, host_header, method, conn = s
        path, _, query = target.partition("?")
        host = (host_header or "").rsplit(":", 1)[0]
        tvs.append("(%s, %s, %s, %s, %s, %s)" % (cbool(tls), cstr(host), cz(dial_port if dial_port is not None else -1),
                                                  cstr(path), cstr(query), cbool(conn != prev_conn)))
        prev_conn = conn
    e = 0 if res["error"] is None else (1 if res["error"] == "ValueError" else 2)
    fin = []
    if res["final"] is not None:
        st, body, chain, nresp = res["final"]
        fin.append("(%s, %s)" % (cz(st), clist([cz(c[0]) for c in chain], "Z")))
    return "(%s, %s, %s)" % (clist(tvs, "(bool * str * Z * str * str * bool)"), cz(e), clist(fin, "(Z * list Z)"))


def run(ctx):
    ctx.rule = ("(a) every Location of the grammar scheme://host[:port][/path][?query] (4 scheme spellings x 3 hosts x 6 "
                "ports x 5 paths x 4 queries) and 11 relative references x 4 bases: Coq urlsplit/resolve vs CPython "
                "urlsplit/urljoin; (b) redirect chains on the real Patron + Valets over the socket double: every "
                "single-hop chain from an http and an https origin over a ninth of the grammar (all of it in the thorough tier) and "
                "all relative references from 4 origins, plus seeded random chains of 1..5 hops with statuses "
                "300/301/302/303/307 and occasionally a non-redirect 3xx; plus 60 (800) sequences of 2-3 requests, each with its own chain of 0-3 hops, on ONE Patron; non-trivial = relative Location, change of "
                "host/port/scheme, or refusal; distinct by origin+hops")
    ctx.assumptions = [
        "transport double fakenet; TLS double: ClientTls.wrap/handshake are no-ops in the harness, servers are plain",
        "aioing.normalizeHost is the OS resolver: localhost -> 127.0.0.1, identity on 127.0.0.1 (model parameter norm)",
        "Locations are drawn from the grammar above: no userinfo, no IPv6 literal, no fragment, no dot segments, query of "
        "unreserved key=value pairs (percent-escapes / unicode are only sampled against urljoin, not modelled)",
    ]
    import time
    t0 = time.time()
    phase = {}
    harness.fakenet.quiet()
    ctx.coq_build("C34/Props.v")
    phase["coq_build"] = round(time.time() - t0, 1)

    # (a) splitter / resolver validation on the grammar
    cases, metas = [], []
    locs = abs_locations()
    for loc in locs + RELS:
        cases.append(("(view (urlsplit %s))" % cstr(loc), py_view(urlsplit(loc))))
        metas.append(("urlsplit", loc))
        ctx.case({"urlsplit": loc}, nontrivial=True, kind="urlsplit")
    for st in STARTS:
        cur = (st[0], st[1], st[2], st[3])
        for rel in RELS:
            u = urlsplit(urljoin(base_url(cur), rel))
            cases.append(("(view (resolve %s (urlsplit %s)))" % (c_cur(cur), cstr(rel)), py_view(u)))
            metas.append(("resolve", (cur, rel)))
            ctx.case({"resolve": [cur, rel]}, nontrivial=True, kind="resolve")
    t1 = time.time()
    bad = ctx.coq_cases(HEADER, "view_eqb", cases, shard=300, name="split")
    phase["split_cases"] = round(time.time() - t1, 1)
    t1 = time.time()
    for i in bad[:5]:
        ctx.tie_broken("correspondence", "C34 urlsplit/resolve model vs urllib.parse", repr(metas[i]))

    # (b) chains on the implementation
    chains = []
    step = ctx.n(9, 1)
    for st in STARTS[:2]:
        for loc in locs[(0 if st[0] == "http" else 1)::step]:
            chains.append((st, [(302, loc)]))
    for st in STARTS:
        for rel in RELS:
            chains.append((st, [(ctx.rng.choice(REDIRECT_STATUSES), rel)]))
    for _ in range(ctx.n(150, 4000)):
        st = ctx.rng.choice(STARTS)
        hops = []
        for _ in range(ctx.rng.randint(1, 5)):
            status = ctx.rng.choice(REDIRECT_STATUSES) if ctx.rng.random() < 0.93 else ctx.rng.choice([304, 305, 308])
            x = ctx.rng.random()
            if x < 0.45:
                loc = ctx.rng.choice(RELS)
            else:
                loc = ctx.rng.choice(locs)
                if st[0] == "https" and ctx.rng.random() < 0.8:   # keep most https chains alive
                    loc = "https" + loc[loc.index(":"):]
            hops.append((status, loc))
        chains.append((st, hops))

    cases2, metas2, failing = [], [], []
    for st, hops in chains:
        res = harness.run_chain(st, hops)
        reqs, err, final = expected_chain(st, hops)
        nontrivial = bool(err) or any(not urlsplit(l).netloc for s, l in hops) or len(set((r[0], r[1], r[2]) for r in reqs)) > 1 \
            or any((r[0], r[1], r[2]) != (st[0], st[1], st[2]) for r in reqs)
        ctx.case({"start": st, "hops": hops, "error": res["error"], "seen": len(res["seen"])},
                 nontrivial=nontrivial, kind="hops=%d" % len(hops))
        why = prop_violation(st, hops, res)
        if why:
            failing.append((st, hops, res, why))
        cur = (st[0], st[1], st[2], st[3])
        cases2.append(("(outcome %s %s)" % (c_cur(cur), c_hops(hops)), impl_outcome(res)))
        metas2.append((st, hops, res))
    phase["chains_python"] = round(time.time() - t1, 1)
    t1 = time.time()
    bad2 = ctx.coq_cases(HEADER, "out_eqb", cases2, shard=150, name="chain")
    phase["chain_cases"] = round(time.time() - t1, 1)
    ctx.extra["phase_s"] = phase
    for i in bad2[:5]:
        st, hops, res = metas2[i]
        ctx.tie_broken("correspondence", "C34 model follow/service_all vs Patron",
                       "start=%r hops=%r seen=%r final=%r error=%r" % (st, hops, res["seen"][1:], res["final"], res["errtext"]))
    for st, hops, res, why in failing[:3]:
        ctx.tie_broken("correspondence", "property statement on the implementation", "%s; start=%r hops=%r" % (why, st, hops))

    # SEVERAL requests on ONE Patron: 2-3 requests, each with its own chain (possibly empty); every
    # delivered response must carry exactly its own request's redirect responses
    seq_cases, seq_meta, req_failing = [], [], []
    http_locs = [l for l in locs if l.startswith("http://")]
    for _ in range(ctx.n(60, 800)):
        st = ctx.rng.choice([STARTS[0], STARTS[2]])
        plans = []
        for i in range(ctx.rng.randint(2, 3)):
            hops = []
            for _ in range(ctx.rng.choice([0, 1, 1, 2, 3])):
                loc = ctx.rng.choice(RELS[:7]) if ctx.rng.random() < 0.5 else ctx.rng.choice(http_locs)
                hops.append((ctx.rng.choice(REDIRECT_STATUSES), loc))
            plans.append((u"/r%d" % i, ctx.rng.choice(["", "x=%d" % i]), hops))
        res = harness.run_requests((st[0], st[1], st[2], "/", ""), plans)
        ctx.case({"start": st, "plans": plans, "delivered": len(res["delivered"])},
                 nontrivial=sum(1 for p in plans if p[2]) >= 1, kind="requests=%d" % len(plans))
        why = None
        if res["error"]:
            why = "exception escaped Patron.serviceAll: %s" % res["error"]
        else:
            for i, (plan, d) in enumerate(zip(plans, res["delivered"] + [None] * len(plans))):
                want = [(s_, l_) for s_, l_ in plan[2]]
                if d is None:
                    why = "request %d: no response delivered" % i
                elif d[0] != 200 or d[3] != str(i):
                    why = "request %d: delivered status %r for request %r" % (i, d[0], d[3])
                elif d[2] != want:
                    why = "request %d (%d of %d on this Patron) delivered chain %r, its own hops were %r" % (
                        i, i + 1, len(plans), d[2], want)
                if why:
                    break
            if not why and (res["redirects_left"] or res["waited"]):
                why = "afterwards waited=%r, %r redirects left" % (res["waited"], res["redirects_left"])
        if why:
            req_failing.append((st, plans, res, why))
        chains = clist(["(%s, (200, %s))" % (clist(["(%s, %s)" % (cz(s_), cz(j)) for j, (s_, l_) in enumerate(p[2])], "(Z * Z)"), cz(i))
                        for i, p in enumerate(plans)], "(list (Z * Z) * (Z * Z))")
        got = clist(["(%s, %s)" % (cz(d[0]), clist([cz(c[0]) for c in d[2]], "Z")) for d in res["delivered"] if d is not None],
                    "(Z * list Z)")
        seq_cases.append(("(map (fun r => (rs_status r, map fst (rs_redirects r))) (responses (service_all true "
                          "{| redirects := []; responses := []; waited := true |} (flatten_chains %s))))" % chains, got))
        seq_meta.append((st, plans, res))
    for st, plans, res, why in req_failing[:3]:
        ctx.tie_broken("correspondence", "property statement on the implementation (several requests on one Patron)",
                       "%s; start=%r plans=%r" % (why, st, plans))
    ctx.extra["request_sequence_failures"] = len(req_failing)
    bad3 = ctx.coq_cases(HEADER + "Require Import V.C34.Proofs.\n", "fin_eqb", seq_cases, shard=100, name="requests")
    for i in bad3[:3]:
        ctx.tie_broken("correspondence", "C34 model service_all over several requests vs Patron",
                       "start=%r plans=%r delivered=%r" % (seq_meta[i][0], seq_meta[i][1], seq_meta[i][2]["delivered"]))

    # sampled only (outside the modelled grammar): escapes, unicode, dot segments -- implementation vs urljoin oracle
    extra = [("/sp%20ace?q=a%20b", None), ("/pl?q=a+b&r=%26", None), ("../up", None), ("./same/./x", None),
             ("/%C3%BC?u=%C3%BC", None), ("http://127.0.0.1:6102/x%2Fy?k=v%3Dw", None)]
    for loc, _ in extra:
        st = ("http", "127.0.0.1", 6101, "/d/e/a", "")
        res = harness.run_chain(st, [(302, loc)])
        why = prop_violation(st, [(302, loc)], res)
        ctx.case({"sampled": loc}, nontrivial=True, kind="sampled")
        if why:
            failing.append((st, [(302, loc)], res, why))
            ctx.tie_broken("correspondence", "sampled Location outside the grammar", "%s; loc=%r" % (why, loc))

    # request paths with characters that get escaped x PATH-RELATIVE Locations, also in multi-hop chains
    esc_starts = [u"/d r/a b", u"/caf\u00e9/men\u00fc", u"/p%41/q r", u"/a+b/c d/e", u"/x y"]
    rel_locs = [u"next", u"../x", u"?q=1", u"sub/y", u"./z?k=v", u"n%20m", u"../../top", u"o p", u"/abs", u"http://127.0.0.1:6102/other/p"]
    esc_chains = []
    for sp in esc_starts:
        for loc in rel_locs[:8]:
            esc_chains.append((("http", "127.0.0.1", 6101, sp, ""), [(302, loc)]))
    for _ in range(ctx.n(40, 400)):
        st = ("http", "127.0.0.1", 6101, ctx.rng.choice(esc_starts), ctx.rng.choice(["", "a=1"]))
        esc_chains.append((st, [(ctx.rng.choice(REDIRECT_STATUSES), ctx.rng.choice(rel_locs)) for _ in range(ctx.rng.randint(2, 3))]))
    for st, hops in esc_chains:
        res = harness.run_chain(st, hops)
        why = prop_violation(st, hops, res)
        ctx.case({"escaped_start": st, "hops": hops}, nontrivial=True, kind="escaped-path x relative")
        if why:
            failing.append((st, hops, res, why))
            ctx.tie_broken("correspondence", "escaped request path with path-relative Location",
                           "%s; start=%r hops=%r" % (why, st, hops))

    ctx.extra["mismatches"] = len(bad) + len(bad2)
    ctx.extra["property_failures"] = len(failing)
    ctx.exhaustive = False

    def search():
        if req_failing and not failing:
            st, plans, res, why = min(req_failing, key=lambda c: (len(c[1]), sum(len(p[2]) for p in c[1])))
            return {"key": "redirect-chain-leaks-into-next-request", "start": st,
                    "requests": [{"path": p[0], "query": p[1], "hops": p[2]} for p in plans], "why": why,
                    "delivered": repr(res["delivered"]), "requests_seen_by_servers": res["seen"],
                    "contradicts": "C34.Props.each_response_carries_its_own_chain"}
        best = None
        for st, hops, res, why in failing:
            size = (len(hops), sum(len(l) for s, l in hops))
            if best is None or size < best[0]:
                best = (size, st, hops, res, why)
        if best is None:
            return None
        _, st, hops, res, why = best
        # shrink to the first failing hop alone when that still fails
        for k in range(len(hops)):
            r2 = harness.run_chain(st, hops[k:k + 1])
            w2 = prop_violation(st, hops[k:k + 1], r2)
            if w2:
                hops, res, why = hops[k:k + 1], r2, w2
                break
        loc = hops[-1][1]
        if "urljoin of the original url" in why and any(c in st[3] for c in u" %+\u00e9\u00fc"):
            key = "redirect-relative-against-encoded-path"
        elif res["error"] == "AttributeError" and "context" in (res["errtext"] or ""):
            key = "redirect-https-upgrade"
        elif not urlsplit(loc).netloc or not urlsplit(loc).scheme:
            key = "redirect-relative-location"
        else:
            key = "redirect-other"
        return {"key": key, "start": st, "hops": hops, "why": why, "observed_error": res["errtext"],
                "requests_seen_by_servers": res["seen"], "final": repr(res["final"]),
                "expected": repr(expected_chain(st, hops)),
                "contradicts": "C34.Props.relative_location_same_origin / redirect_target / chain_in_order"}

    ctx.settle(search)
