"""
C28 -- idle timeouts drop only idle connections (plain and TLS alike); activity restarts the idle
period; HTTP-persistent connections are not dropped by the idle timer.

Tie T: props/C28/translate.py extracts on every run which receive/send methods of Incomer and
       IncomerTls refresh the timer (and checks the shapes of the timer / idle-test / persistence code
       the hand model relies on) into coq/gen/C28_Refresh.v.
Tie H: coq/C28/Model.v models one accepted connection under Valet / Porter.
  theorems       : coq/C28/Props.v (all schedules; plain + TLS, Valet + Porter; about the generated table)
  correspondence : (a) event schedules (tick, rx n, tx n, eof, persist, done, check) run on the real
                   Valet/Porter + Server/ServerTls + Incomer(.Tls) + StoreTimer with socket doubles and a
                   Store clock, compared with the model in Coq;
                   (b) HTTP scenarios through the real request parser and WSGI responder (slow upload,
                   long streamed response, keep-alive idling, silent client): the event trace observed at
                   the socket double is replayed on the model and the property's statement is checked on
                   the implementation's close time.
"""
import errno
import os
import socket
import ssl
import sys

sys.path.insert(0, os.path.dirname(os.path.abspath(__file__)))
import translate  # noqa: E402

from vlib import cz, clist, cbool  # noqa: E402

LEVEL = "proof"
HA = ('127.0.0.1', 6000)
CA = ('10.0.0.9', 5009)
TICK = 8.0   # ticks per second: every stamp k / 8.0 is an exact binary64


def gen(ctx):
    text, table = translate.generate(ctx.repo)
    ctx.write_gen("C28_Refresh.v", text)
    return table


# ------------------------------------------------------------------ doubles
class Sock(object):
    def __init__(self, world, tls):
        self.world = world
        self.tls = tls
        self.rres = []          # next recv results: bytes (b'' = EOF) ; empty list = would block
        self.sres = None        # next send count (None = accept everything)
        self.closed_at = None
        self.shut = False
        self.last_io = world.tick   # tick of the accept, then of the last non-empty rx / tx
        self.sent = 0
        self.rcvd = 0

    def _block(self):
        if self.tls:
            return ssl.SSLWantReadError(ssl.SSL_ERROR_WANT_READ, "want read")
        return socket.error(errno.EAGAIN, "would block")

    def recv(self, bs):
        if not self.rres:
            raise self._block()
        d = self.rres.pop(0)
        if d:
            self.last_io = self.world.tick
            self.rcvd += len(d)
        return d

    def send(self, data):
        n = len(data) if self.sres is None else min(self.sres, len(data))
        if self.sres is not None:
            self.sres = 0
        if n <= 0:
            raise self._block()
        self.last_io = self.world.tick
        self.sent += n
        return n

    def do_handshake(self):
        pass

    def getpeername(self):
        return CA

    def getsockname(self):
        return HA

    def setblocking(self, b):
        pass

    def shutdown(self, how):
        self.shut = True

    def close(self):
        self.closed_at = self.world.tick


class Listen(object):
    def __init__(self):
        self.pending = []

    def accept(self):
        if not self.pending:
            raise socket.error(errno.EAGAIN, "nothing")
        return self.pending.pop(0), CA


class Ctx(object):
    verify_mode = ssl.CERT_NONE

    def wrap_socket(self, sock, **kwa):
        return sock


class World(object):
    """T = configured timeout in ticks, or None (= let the front end use its class default).  The Valet /
    Porter is constructed WITHOUT a servant, so that it builds its own Server (scheme http) or
    ServerTls (scheme https) and the configured timeout has to travel Valet/Porter -> Server(Tls) ->
    Incomer(Tls); only the listening socket is replaced by a double afterwards."""
    def __init__(self, tls, valet, T, t0, app=None):
        from ioflo.base import storing
        from ioflo.aio.http import serving as https
        self.tick = t0
        self.store = storing.Store(stamp=t0 / TICK)
        kw = dict(store=self.store, ha=HA, scheme=u'https' if tls else u'http',
                  timeout=None if T is None else T / TICK)
        if tls:
            kw["context"] = Ctx()     # forwarded through **kwa to ServerTls: no certificate files
        self.v = https.Valet(app=app, **kw) if valet else https.Porter(**kw)
        self.servant = self.v.servant
        self.configured = to_ticks(self.v.timeout)
        self.servant.ss = Listen()
        self.valet = valet
        self.sock = Sock(self, tls)
        self.servant.ss.pending = [self.sock]
        self.servant.serviceConnects()          # accept (TLS: handshake completes at once)
        self.ix = self.servant.ixes[CA]
        self.v.serviceConnects()                # Valet/Porter adopt the connection; first idle check
        self.init_closed = None if self.opened() else (t0, t0)

    def advance(self, dt):
        self.tick += dt
        self.store.changeStamp(self.tick / TICK)

    def opened(self):
        return CA in self.servant.ixes

    def requestant(self):
        return self.v.reqs[CA] if self.valet else self.v.stewards[CA].requestant


def to_ticks(x):
    v = x * TICK
    if v != int(v):
        raise ValueError("stamp %r is not a whole number of ticks" % (x,))
    return int(v)


def observe(w, closed_idle, closed_other, persisted=False, timer_at_close=None):
    ix = w.ix
    # on an idle close the Valet flushes the responder's terminating bytes while closing (which restarts the
    # timer of the connection being closed); what counts is the timer as the idle check saw it
    tstart, tstop = timer_at_close if (closed_idle and timer_at_close) else (ix.timer.start, ix.timer.stop)
    return {"configured": w.configured, "persisted_when_idle_closed": bool(persisted and closed_idle), "opened": w.opened(), "cutoff": bool(ix.cutoff), "timeout": to_ticks(ix.timeout),
            "tstart": to_ticks(tstart), "tstop": to_ticks(tstop),
            # on an idle close the Valet flushes the responder's terminating bytes while closing; the
            # activity stamp that counts is the one before the check
            "last_act": closed_idle[1] if closed_idle else w.sock.last_io,
            "closed_idle": closed_idle, "closed_other": closed_other}


# ------------------------------------------------------------------ (a) event schedules
def run_events(tls, valet, T, t0, evs):
    w = World(tls, valet, T, t0)
    closed_idle, closed_other = w.init_closed, False
    persisted, timer_at_close = False, None
    for e in evs:
        k = e[0]
        if k == "tick":
            w.advance(e[1])
            continue
        if not w.opened():
            continue
        if k == "rx":
            w.sock.rres = [b"r" * e[1]] if e[1] > 0 else []
            w.servant.serviceReceivesAllIx()
            w.sock.rres = []
        elif k == "tx":
            w.ix.txes.clear()
            w.ix.tx(b"t" * max(e[1], 1))
            w.sock.sres = max(e[1], 0)
            w.servant.serviceTxesAllIx()
            w.sock.sres = None
        elif k == "eof":
            w.sock.rres = [b""]
            w.servant.serviceReceivesAllIx()
            w.sock.rres = []
        elif k == "persist":
            from ioflo.aid.odicting import lodict
            r = w.requestant()
            if len(e) > 1 and e[1] == "1.0ka":     # HTTP/1.0 request with Connection: keep-alive
                hd = lodict()
                hd["connection"] = "Keep-Alive"
                r.version, r.headers, r.chunked, r.length = (1, 0), hd, False, 0
            else:                                  # HTTP/1.1 default persistence
                r.version, r.headers, r.chunked, r.length = (1, 1), lodict(), False, 0
            r.checkPersisted()
            persisted = bool(r.persisted)
        elif k == "parse_np":                      # a parsed request WITHOUT persistence: no model event
            from ioflo.aid.odicting import lodict
            r = w.requestant()
            hd = lodict()
            if e[1] == "1.1close":
                hd["connection"] = "close"
                r.version = (1, 1)
            else:
                r.version = (1, 0)
            r.headers, r.chunked, r.length = hd, False, 0
            r.checkPersisted()
            if r.persisted:
                raise RuntimeError("harness: %s request was marked persisted" % e[1])
        elif k == "done":
            w.v.closeConnection(CA)
            closed_other = True
        elif k == "check":
            was_cut, la = bool(w.ix.cutoff), w.sock.last_io
            snap = (w.ix.timer.start, w.ix.timer.stop)
            w.v.serviceConnects()
            if not w.opened():
                if was_cut and valet:
                    closed_other = True
                else:
                    closed_idle, timer_at_close = (w.tick, la), snap
    return observe(w, closed_idle, closed_other, persisted, timer_at_close)


def c_evs(evs):
    out = []
    for e in evs:
        k = e[0]
        if k == "parse_np":
            continue
        out.append({"tick": lambda: "Tick %s" % cz(e[1]), "rx": lambda: "Rx %s" % cz(e[1]),
                    "tx": lambda: "Tx %s" % cz(e[1]), "eof": lambda: "Eof", "persist": lambda: "Persist",
                    "done": lambda: "Done", "check": lambda: "Check"}[k]())
    return clist(out, "ev")


HEADER = """From Coq Require Import List ZArith Bool.
Import ListNotations.
Require Import V.C28.Model V.gen.C28_Refresh V.C28.Spec.
Open Scope Z_scope.
Fixpoint lz_eqb (a b : list Z) := match a, b with [], [] => true | x :: a', y :: b' => Z.eqb x y && lz_eqb a' b' | _, _ => false end.
Definition b2z (b : bool) : Z := if b then 1 else 0.
Definition obs (s : st) : list Z :=
  [b2z (opened s); b2z (cutoff s); timeout s; tstart s; tstop s; last_act s;
   match closed_idle s with Some (t, la) => 1 | None => 0 end;
   match closed_idle s with Some (t, la) => t | None => 0 end;
   match closed_idle s with Some (t, la) => la | None => 0 end; b2z (closed_other s)].
"""


def c_obs(r):
    ci = r["closed_idle"]
    return clist([cz(int(r["opened"])), cz(int(r["cutoff"])), cz(r["timeout"]), cz(r["tstart"]), cz(r["tstop"]),
                  cz(r["last_act"]), cz(1 if ci else 0), cz(ci[0] if ci else 0), cz(ci[1] if ci else 0),
                  cz(int(r["closed_other"]))], "Z")


def prop_holds(T, r):
    """the property's statement on the implementation's observable result (times in ticks);
    T = the timeout configured on the Valet / Porter"""
    T = r["configured"]
    ci = r["closed_idle"]
    if ci is None:
        return None
    if r["timeout"] == 0 or r.get("persisted_when_idle_closed"):
        return "a connection kept alive by HTTP persistence was dropped by the idle timer at tick %d" % ci[0]
    if ci[0] - ci[1] < T:
        return ("closed for idleness at tick %d although bytes were sent/received at tick %d "
                "(%d < timeout %d ticks)" % (ci[0], ci[1], ci[0] - ci[1], T))
    return None


def random_events(rng, T):
    evs = []
    for _ in range(rng.randint(3, 24)):
        x = rng.random()
        if x < 0.34:
            evs.append(("tick", rng.choice([0, 1, 1, 2, 3, T - 1, T, T + 1, T // 2])))
        elif x < 0.5:
            evs.append(("rx", rng.choice([0, 1, 3, 7])))
        elif x < 0.66:
            evs.append(("tx", rng.choice([0, 1, 2, 5])))
        elif x < 0.69:
            evs.append(("eof",))
        elif x < 0.73:
            evs.append(rng.choice([("persist",), ("persist", "1.0ka"), ("parse_np", "1.1close"), ("parse_np", "1.0")]))
        elif x < 0.75:
            evs.append(("done",))
        else:
            evs.append(("check",))
    evs.append(("check",))
    return evs


def busy_schedule(T, gap, n, kind):
    """activity every gap < T ticks for n rounds, checks in between: must survive; then idle"""
    evs = []
    for _ in range(n):
        evs += [("tick", gap), (kind, 3), ("check",)]
    evs += [("tick", T - 1), ("check",), ("tick", 1), ("check",)]
    return evs


# ------------------------------------------------------------------ (b) HTTP scenarios
def run_http(tls, T, scenario):
    """returns (derived model events, observation, description).  Valet only."""
    name, inbox, plan, cycles = scenario

    def app(environ, start_response):
        hdrs = [('Content-Type', 'text/plain')]
        if len(plan) == 1:
            hdrs.append(('Content-Length', str(len(plan[0]))))   # delimited body, also for HTTP/1.0
        start_response('200 OK', hdrs)
        for c in plan:
            yield c
    w = World(tls, True, T, 0, app=app)
    v, sv, sock = w.v, w.servant, w.sock
    evs, closed_idle, closed_other = [], w.init_closed, False
    persisted, timer_at_close = False, None
    for cyc in range(cycles):
        if cyc:
            w.advance(1)
            evs.append(("tick", 1))
        if not w.opened():
            continue
        was_cut, la = bool(w.ix.cutoff), sock.last_io
        snap = (w.ix.timer.start, w.ix.timer.stop)
        v.serviceConnects()                      # --- the five calls of Valet.serviceAll, in its order
        evs.append(("check",))
        if not w.opened():
            if was_cut:
                closed_other = True
            else:
                closed_idle, timer_at_close = (w.tick, la), snap
            continue
        sock.rres = [inbox[cyc]] if inbox.get(cyc) else []
        r0 = sock.rcvd
        sv.serviceReceivesAllIx()
        sock.rres = []
        evs.append(("rx", sock.rcvd - r0))
        t_before = w.ix.timeout
        v.serviceReqs()
        req = v.reqs.get(CA)
        persisted = bool(req is not None and getattr(req, "persisted", False))
        if w.opened() and w.ix.timeout == 0.0 and t_before != 0.0:
            evs.append(("persist",))
        s0 = sock.sent
        v.serviceReps()
        if sock.sent != s0:
            evs.append(("tx", sock.sent - s0))
        if not w.opened():
            evs.append(("done",))
            closed_other = True
            continue
        s0 = sock.sent
        sv.serviceTxesAllIx()
        evs.append(("tx", sock.sent - s0))
    return evs, observe(w, closed_idle, closed_other, persisted, timer_at_close)


def scenarios(T):
    close_req = b"GET /s HTTP/1.1\r\nHost: x\r\nConnection: close\r\n\r\n"
    keep_req = b"GET /k HTTP/1.1\r\nHost: x\r\nContent-Length: 0\r\n\r\n"
    out = []
    for gap in sorted(set([1, T // 2, T - 1])):
        if gap < 1:
            continue
        k = (3 * T) // gap + 2
        plan = []
        for _ in range(k):
            plan += [b"chunk-of-data"] + [b""] * (gap - 1)
        out.append(("stream gap=%d" % gap, {0: close_req}, plan, len(plan) + 3 * T))
        # slow upload: one byte of the request every gap ticks
        inbox = dict((i * gap, close_req[i:i + 1]) for i in range(len(close_req)))
        out.append(("slow-upload gap=%d" % gap, inbox, [b"ok"], len(close_req) * gap + 3 * T))
    keep10_req = b"GET /k HTTP/1.0\r\nHost: x\r\nConnection: keep-alive\r\nContent-Length: 0\r\n\r\n"
    plain10_req = b"GET /p HTTP/1.0\r\nHost: x\r\nContent-Length: 0\r\n\r\n"
    out.append(("HTTP/1.0 keep-alive idle", {0: keep10_req}, [b"ok"], 4 * T))
    out.append(("HTTP/1.0 keep-alive two requests", {0: keep10_req, 3 * T: keep10_req}, [b"ok"], 6 * T))
    out.append(("HTTP/1.0 no keep-alive", {0: plain10_req}, [b"ok"], 3 * T))
    out.append(("HTTP/1.1 close", {0: close_req}, [b"ok"], 3 * T))
    out.append(("keep-alive idle", {0: keep_req}, [b"ok"], 4 * T))
    out.append(("keep-alive two requests", {0: keep_req, 3 * T: keep_req}, [b"ok"], 6 * T))
    out.append(("silent client", {}, [b"ok"], 3 * T))
    out.append(("half a request", {2: close_req[:10]}, [b"ok"], 3 * T))
    return out


def run(ctx):
    from ioflo.aid.consoling import getConsole
    getConsole().reinit(verbosity=0)   # keep ioflo's console output out of the check's stdout
    ctx.rule = ("front ends are the real Valet / Porter constructed WITHOUT a servant (scheme http -> Server, https -> "
                "ServerTls) with timeouts of 0, 3, 4, 8, 16, 20, 32, 40, 56 ticks of 1/8 s and None (class default), so the "
                "configured value has to travel front end -> server -> connection; (a) schedules of tick / rx n / tx n / eof / persist / done / check events, run on the real "
                "Valet|Porter + Server|ServerTls + Incomer|IncomerTls + StoreTimer (socket doubles, Store clock in "
                "1/8 s ticks) and on the Coq model: directed busy schedules (activity every gap < T) for every class "
                "+ seeded random schedules; (b) HTTP scenarios through the real parser and WSGI responder (streamed "
                "response, slow upload, HTTP/1.1 keep-alive, HTTP/1.0 Connection: keep-alive, HTTP/1.0 plain, HTTP/1.1 "
                "close, silent client): the trace seen at the socket double is replayed on "
                "the model; non-trivial = the schedule contains activity later than the accept; distinct by "
                "(class, server, T, schedule)")
    ctx.assumptions = [
        "time: Store.stamp driven by the harness in exact 1/8 s ticks; the model's Z arithmetic then equals the "
        "binary64 arithmetic of StoreTimer; rounding of arbitrary float stamps is not modelled",
        "clock monotone (premise of closed_for_idle_only_if_idle)",
        "socket doubles: recv returns the scheduled chunk or raises EAGAIN / SSLWantReadError; send accepts the "
        "oracle's count; TLS handshake completes at once (context double)",
        "persist event of (a) = the real Requestant.checkPersisted called on a requestant whose parsed-head "
        "attributes are set by the harness; in (b) it is reached through the real parser",
        "Porter is exercised in (a) only (its Steward.pour has an undefined-name refresh of its own, outside this property)",
    ]
    try:
        table = gen(ctx)
    except translate.TranslationError as ex:
        ctx.tie_broken("translator", "C28 translate.py", repr(ex))
        table = None
    if table is not None:
        ctx.coq_build("C28/Props.v")

    cases, metas = [], []
    http_inputs = {}

    def add(tls, valet, T, t0, evs, r, label):
        busy = any(e[0] in ("rx", "tx") and e[1] > 0 for e in evs)
        ctx.case({"tls": tls, "valet": valet, "T": T, "t0": t0, "evs": evs}, nontrivial=busy,
                 kind="%s/%s/%s" % ("tls" if tls else "plain", "valet" if valet else "porter", label))
        cfgd = "None" if T is None else "(Some %s)" % cz(T)
        cases.append(("obs (run (served_cfg %s %s %s) %s %s)" % (cbool(tls), cbool(valet), cfgd, cz(t0),
                                                                c_evs([("check",)] + list(evs))),
                      c_obs(r)))
        metas.append((tls, valet, T, t0, evs, r, label))

    for tls in (False, True):
        for valet in (True, False):
            for T in (4, 8, 32, 40):
                for gap in sorted(set([1, T // 2, T - 1])):
                    for kind in ("rx", "tx"):
                        evs = busy_schedule(T, gap, (2 * T) // gap + 2, kind)
                        add(tls, valet, T, 0, evs, run_events(tls, valet, T, 0, evs), "busy")
            for _ in range(ctx.n(600, 4000)):
                T = ctx.rng.choice([0, 3, 4, 8, 16, 20, 32, 40, 56, None])   # None = class default (5.0 s)
                t0 = ctx.rng.choice([0, 0, 5, 64])
                evs = random_events(ctx.rng, max(T if T is not None else 40, 2))
                add(tls, valet, T, t0, evs, run_events(tls, valet, T, t0, evs), "random")
        for T in (4, 8, 20):
            for sc in scenarios(T):
                evs, r = run_http(tls, T, sc)
                add(tls, True, T, 0, evs, r, "http:" + sc[0])
                http_inputs["http:" + sc[0]] = dict((cyc, data.decode("latin1")) for cyc, data in sc[1].items())
        # directed persistence schedules: every kind of parsed request, then idle for longer than the timeout
        for valet in (True, False):
            for T in (4, 20):
                for pe in (("persist",), ("persist", "1.0ka"), ("parse_np", "1.1close"), ("parse_np", "1.0")):
                    evs = [("rx", 5), pe, ("tick", T - 1), ("check",), ("tick", 2), ("check",), ("tick", 3 * T), ("check",)]
                    add(tls, valet, T, 0, evs, run_events(tls, valet, T, 0, evs), "persistence:" + "/".join(pe))

    if table is not None:
        try:
            bad = ctx.coq_cases(HEADER, "lz_eqb", cases)
        except RuntimeError as ex:
            ctx.tie_broken("harness", "coq_cases", str(ex)[-1500:])
            bad = []
        for i in bad[:5]:
            tls, valet, T, t0, evs, r, label = metas[i]
            ctx.tie_broken("correspondence", "C28 model vs %s/%s" % ("IncomerTls" if tls else "Incomer",
                                                                      "Valet" if valet else "Porter"),
                           "%s T=%r t0=%d evs=%r impl=%r" % (label, T, t0, evs, r))
        ctx.extra["mismatches"] = len(bad)
    ctx.exhaustive = False

    def search():
        def witness(m, why):
            tls, valet, T, t0, evs, r, label = m
            persisted = "persistence" in why
            w = {"connection_class": "IncomerTls" if tls else "Incomer",
                 "server": "Valet" if valet else "Porter", "scheme": "https" if tls else "http",
                 "configured_timeout_ticks": r["configured"], "accept_tick": t0,
                 "tick_seconds": 1 / TICK, "schedule": label, "events": evs, "observed": r, "why": why,
                 "expected": "closed for idleness only if now - last rx/tx >= timeout; never once persisted",
                 "contradicts": ("C28.Props.persisted_not_dropped" if persisted else
                                 "C28.Props.closed_for_idle_only_if_idle / refresh_called_everywhere"),
                 "key": "persisted-connection-dropped-by-idle-timer" if persisted else "connection-dropped-while-busy"}
            if label in http_inputs:
                w["http_requests_by_cycle"] = http_inputs[label]
            return w
        best, best_http = None, None
        for m in metas:
            r, evs, label = m[5], m[4], m[6]
            if r["configured"] <= 0:
                continue
            why = prop_holds(m[2], r)
            if not why:
                continue
            if best is None or len(evs) < len(best["events"]):
                best = witness(m, why)
            if label.startswith("http:") and (best_http is None or len(evs) < len(best_http["events"])):
                best_http = witness(m, why)
        if best is not None and best_http is not None and best_http is not best:
            best["http_level_witness"] = dict((k, v) for k, v in best_http.items() if k != "key")
        return best

    ctx.settle(search)
