"""
C28 translator (tie T, fail-closed): extracts from the source, on every run,

  * for Incomer and IncomerTls (ioflo/aio/tcp/serving.py): whether receive() / send() call
    self.refresh() -- and only in the expected position: inside `if data:` / `if result:` (non-empty
    rx / non-zero tx), guarded by `if self.refreshable:`.  A refresh call anywhere else, or an
    unguarded one, is outside the whitelist -> TranslationError.  A class that does not define the
    method inherits the base class' table entry.
  * that Incomer.refresh restarts the timer, that Incomer.__init__ builds the timer from the timeout,
  * the idle test of Valet.serviceConnects / Porter.serviceConnects and the persistence override of
    Requestant.checkPersisted (ioflo/aio/http/serving.py), and StoreTimer.expired / restart
    (ioflo/aid/timing.py), compared with the exact shapes the hand model assumes.

  * the CONFIGURATION PATH of the idle timeout and of the clock: which keyword arguments
    Valet.__init__ / Porter.__init__ forward to the Server / ServerTls they construct (scheme http /
    https), and Server.serviceAxes / ServerTls.serviceAxes to each Incomer / IncomerTls
    (`timeout=self.timeout`, `store=self.store`: present -> true, absent -> false, any other value ->
    TranslationError), the `X if X is not None else self.Timeout` defaulting at every level, and the
    class defaults `Timeout` (in 1/8 s, must be a whole number of eighths).

Output: coq/gen/C28_Refresh.v
"""
import ast
import os


class TranslationError(Exception):
    pass


def classes(path):
    tree = ast.parse(open(path).read(), filename=path)
    return dict((n.name, n) for n in tree.body if isinstance(n, ast.ClassDef))


def method(cls, name):
    for n in cls.body:
        if isinstance(n, ast.FunctionDef) and n.name == name:
            return n
    return None


def is_call(node, text):
    return isinstance(node, ast.Expr) and isinstance(node.value, ast.Call) and ast.unparse(node.value) == text


def refresh_position(fn, var):
    """True iff fn refreshes on non-empty `var` (guarded by self.refreshable); False iff it never
    refreshes; anything else -> TranslationError"""
    calls = [n for n in ast.walk(fn) if isinstance(n, ast.Call) and ast.unparse(n.func) in
             ("self.refresh", "self.timer.restart")]
    good = []
    for top in fn.body:
        if isinstance(top, ast.If) and ast.unparse(top.test) == var:
            for st in top.body:           # only the truthy branch
                if (isinstance(st, ast.If) and ast.unparse(st.test) == "self.refreshable"
                        and not st.orelse and len(st.body) == 1 and is_call(st.body[0], "self.refresh()")):
                    good.append(st.body[0].value)
    if len(calls) != len(good) or any(c not in calls for c in good):
        raise TranslationError("%s: refresh()/timer.restart() call outside `if %s: if self.refreshable:`"
                               % (fn.name, var))
    if len(good) > 1:
        raise TranslationError("%s: more than one refresh" % fn.name)
    return bool(good)


def expect(cond, what):
    if not cond:
        raise TranslationError("unexpected shape: " + what)


def class_const(cls, name):
    """value of a class-level `name = <float/int constant>` or None if the class does not define it"""
    for n in cls.body:
        if isinstance(n, ast.Assign) and len(n.targets) == 1 and ast.unparse(n.targets[0]) == name:
            if isinstance(n.value, ast.Constant) and isinstance(n.value.value, (int, float)) \
                    and not isinstance(n.value.value, bool):
                return float(n.value.value)
            raise TranslationError("%s.%s is not a numeric constant" % (cls.name, name))
    return None


def eighths(x, what):
    v = x * 8.0
    if v != int(v):
        raise TranslationError("%s = %r s is not a whole number of 1/8 s" % (what, x))
    return int(v)


def ctor_calls(fn, name):
    return [n for n in ast.walk(fn) if isinstance(n, ast.Call) and ast.unparse(n.func) == name]


def forwards(call, kw, value, where):
    """True iff the call passes kw=value, False iff it does not pass kw at all; else fail"""
    hits = [k for k in call.keywords if k.arg == kw]
    if not hits:
        return False
    if len(hits) == 1 and ast.unparse(hits[0].value) == value:
        return True
    raise TranslationError("%s: %s is passed as %s, expected %s" % (where, kw, ast.unparse(hits[0].value), value))


def defaulting(fn, where):
    src = ast.unparse(fn)
    expect("self.timeout = timeout if timeout is not None else self.Timeout" in src, "%s: timeout defaulting" % where)
    expect("self.store = store or storing.Store(stamp=0.0)" in src, "%s: store defaulting" % where)
    n = [a for a in ast.walk(fn) if isinstance(a, ast.Assign) and any(ast.unparse(t) == "self.timeout" for t in a.targets)]
    expect(len(n) == 1, "%s: exactly one assignment to self.timeout" % where)


def config_path(srv, http):
    out = {}
    # front ends
    for cname in ("Valet", "Porter"):
        init = method(http[cname], "__init__")
        defaulting(init, "%s.__init__" % cname)
        d = class_const(http[cname], "Timeout")
        expect(d is not None, "%s.Timeout" % cname)
        out["%s_default_x8" % cname] = eighths(d, "%s.Timeout" % cname)
        for scheme, ctor in (("http", "Server"), ("https", "ServerTls")):
            calls = ctor_calls(init, ctor)
            expect(len(calls) == 1, "%s.__init__ constructs exactly one %s" % (cname, ctor))
            w = "%s.__init__ -> %s(...)" % (cname, ctor)
            out["%s_%s_forwards_timeout" % (cname, scheme)] = forwards(calls[0], "timeout", "self.timeout", w)
            out["%s_%s_forwards_store" % (cname, scheme)] = forwards(calls[0], "store", "self.store", w)
    # servers
    defaulting(method(srv["Server"], "__init__"), "Server.__init__")
    expect([ast.unparse(b) for b in srv["ServerTls"].bases] == ["Server"], "ServerTls bases")
    tinit = method(srv["ServerTls"], "__init__")
    expect("super(ServerTls, self).__init__(**kwa)" in ast.unparse(tinit), "ServerTls.__init__ delegates **kwa")
    expect(not [a for a in ast.walk(tinit) if isinstance(a, ast.Assign)
                and any(ast.unparse(t) in ("self.timeout", "self.store") for t in a.targets)],
           "ServerTls.__init__ must not reassign timeout/store")
    d = class_const(srv["Server"], "Timeout")
    expect(d is not None, "Server.Timeout")
    out["Server_default_x8"] = eighths(d, "Server.Timeout")
    dt = class_const(srv["ServerTls"], "Timeout")
    out["ServerTls_default_x8"] = eighths(dt if dt is not None else d, "ServerTls.Timeout")
    for cname, ctor in (("Server", "Incomer"), ("ServerTls", "IncomerTls")):
        fn = method(srv[cname], "serviceAxes")
        expect(fn is not None, "%s.serviceAxes" % cname)
        calls = ctor_calls(fn, ctor)
        expect(len(calls) == 1, "%s.serviceAxes constructs exactly one %s" % (cname, ctor))
        w = "%s.serviceAxes -> %s(...)" % (cname, ctor)
        out["%s_forwards_timeout" % cname] = forwards(calls[0], "timeout", "self.timeout", w)
        out["%s_forwards_store" % cname] = forwards(calls[0], "store", "self.store", w)
    # the handshake loop moves the SAME incomer object into .ixes
    cx = ast.unparse(method(srv["ServerTls"], "serviceCxes"))
    expect("self.ixes[ca] = cx" in cx and "IncomerTls(" not in cx, "ServerTls.serviceCxes moves cx")
    # connections
    d = class_const(srv["Incomer"], "Timeout")
    expect(d is not None, "Incomer.Timeout")
    out["Incomer_default_x8"] = eighths(d, "Incomer.Timeout")
    dt = class_const(srv["IncomerTls"], "Timeout")
    out["IncomerTls_default_x8"] = eighths(dt if dt is not None else d, "IncomerTls.Timeout")
    iinit = method(srv["IncomerTls"], "__init__")
    expect("super(IncomerTls, self).__init__(**kwa)" in ast.unparse(iinit), "IncomerTls.__init__ delegates **kwa")
    expect(not [a for a in ast.walk(iinit) if isinstance(a, ast.Assign)
                and any(ast.unparse(t) in ("self.timeout", "self.timer", "self.store") for t in a.targets)],
           "IncomerTls.__init__ must not reassign timeout/timer/store")
    return out


def generate(repo):
    srv = classes(os.path.join(repo, "ioflo/aio/tcp/serving.py"))
    http = classes(os.path.join(repo, "ioflo/aio/http/serving.py"))
    timing = classes(os.path.join(repo, "ioflo/aid/timing.py"))
    for c in ("Incomer", "IncomerTls"):
        expect(c in srv, "class %s missing" % c)
    expect([ast.unparse(b) for b in srv["IncomerTls"].bases] == ["Incomer"], "IncomerTls bases")
    table = {}
    for cname in ("Incomer", "IncomerTls"):
        for mname, var in (("receive", "data"), ("send", "result")):
            fn = method(srv[cname], mname) or method(srv["Incomer"], mname)
            expect(fn is not None, "%s.%s missing" % (cname, mname))
            table["%s_%s" % (cname, mname)] = refresh_position(fn, var)
    # Incomer.refresh / __init__ / IncomerTls does not override refresh
    fn = method(srv["Incomer"], "refresh")
    body = [s for s in fn.body if not (isinstance(s, ast.Expr) and isinstance(s.value, ast.Constant))]
    expect(len(body) == 1 and is_call(body[0], "self.timer.restart()"), "Incomer.refresh body")
    expect(method(srv["IncomerTls"], "refresh") is None, "IncomerTls overrides refresh")
    init = ast.unparse(method(srv["Incomer"], "__init__"))
    expect("self.timeout = timeout if timeout is not None else self.Timeout" in init, "Incomer.timeout init")
    expect("self.timer = StoreTimer(self.store, duration=self.timeout)" in init, "Incomer.timer init")
    expect("self.refreshable = refreshable" in init, "Incomer.refreshable init")
    # StoreTimer
    st = timing["StoreTimer"]
    exp = ast.unparse(method(st, "getExpired"))
    expect("self.store.stamp is not None and self.store.stamp >= self.stop" in exp, "StoreTimer.getExpired")
    rs = ast.unparse(method(st, "restart"))
    expect("self.start = self.store.stamp" in rs and "self.stop = self.start + self.duration" in rs,
           "StoreTimer.restart")
    # Valet / Porter idle test
    shapes = {}
    for cname in ("Valet", "Porter"):
        fn = method(http[cname], "serviceConnects")
        ifs = [n for n in ast.walk(fn) if isinstance(n, ast.If) and "timeout" in ast.unparse(n.test)]
        expect(len(ifs) == 1, "%s.serviceConnects: one timeout test" % cname)
        expect(ast.unparse(ifs[0].test) == "ix.timeout > 0.0 and ix.timer.expired", "%s idle test" % cname)
        expect(len(ifs[0].body) == 1 and is_call(ifs[0].body[0], "self.closeConnection(ca)") and not ifs[0].orelse,
               "%s idle action" % cname)
        cut = [n for n in ast.walk(fn) if isinstance(n, ast.If) and ast.unparse(n.test) == "ix.cutoff"]
        shapes[cname] = bool(cut)
        if cut:
            expect(is_call(cut[0].body[0], "self.closeConnection(ca)") and isinstance(cut[0].body[-1], ast.Continue),
                   "%s cutoff action" % cname)
    cp = method(http["Requestant"], "checkPersisted")
    last = cp.body[-1]
    expect(isinstance(last, ast.If) and ast.unparse(last.test) == "self.persisted" and len(last.body) == 1
           and ast.unparse(last.body[0]) == "self.incomer.timeout = 0.0", "Requestant.checkPersisted override")
    others = [n for n in ast.walk(ast.parse(open(os.path.join(repo, "ioflo/aio/http/serving.py")).read()))
              if isinstance(n, ast.Assign) and any(ast.unparse(t).endswith(".timeout") and "incomer" in ast.unparse(t)
                                                    for t in n.targets)]
    expect(len(others) == 1, "exactly one assignment to incomer.timeout in http/serving.py")

    def b(x):
        return "true" if x else "false"
    lines = ["(* GENERATED by props/C28/translate.py from ioflo/aio/tcp/serving.py, ioflo/aio/http/serving.py,",
             "   ioflo/aid/timing.py -- do not edit *)", "From Coq Require Import Bool.", ""]
    for k in ("Incomer_receive", "Incomer_send", "IncomerTls_receive", "IncomerTls_send"):
        lines.append("Definition %s_refreshes : bool := %s." % (k, b(table[k])))
    lines.append("Definition Valet_checks_cutoff : bool := %s." % b(shapes["Valet"]))
    lines.append("Definition Porter_checks_cutoff : bool := %s." % b(shapes["Porter"]))
    path = config_path(srv, http)
    lines.append("")
    lines.append("(* configuration path of the idle timeout (defaults in 1/8 s) and of the clock *)")
    lines.append("From Coq Require Import ZArith.")
    for k in sorted(path):
        if k.endswith("_x8"):
            lines.append("Definition %s : Z := %d%%Z." % (k, path[k]))
        else:
            lines.append("Definition %s : bool := %s." % (k, b(path[k])))
    table = dict(table)
    table.update(path)
    lines.append("(* shapes verified by the translator: Incomer.refresh = timer.restart(); timer = StoreTimer(store,")
    lines.append("   duration=timeout); expired = stamp >= stop; restart: start = stamp, stop = start + duration;")
    lines.append("   idle test = ix.timeout > 0.0 and ix.timer.expired -> closeConnection(ca);")
    lines.append("   checkPersisted: if self.persisted: self.incomer.timeout = 0.0 (the only assignment) *)")
    return "\n".join(lines) + "\n", table


if __name__ == "__main__":
    import sys
    print(generate(sys.argv[1] if len(sys.argv) > 1 else "/repo")[0])
