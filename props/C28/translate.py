"""
C28 translator (tie T, fail-closed): extracts from the source, on every run,

  * for Incomer and IncomerTls (ioflo/aio/tcp/serving.py): whether receive() / send() call
    self.refresh() -- and only in the expected position: inside `if data:` / `if result:` (non-empty
    rx / non-zero tx), guarded by `if self.refreshable:`.  A refresh call anywhere else, or an
    unguarded one, is outside the whitelist -> TranslationError.  A class that does not define the
    method inherits the base class' table entry.
  * that Incomer.refresh restarts the timer, that Incomer.__init__ builds the timer from the timeout,
  * the idle test of Valet.serviceConnects / Porter.serviceConnects and the persistence override of
    Requestant.checkPersisted (ioflo/aio/http/serving.py), and StoreTimer.expired / restart
    (ioflo/aid/timing.py), compared with the exact shapes the hand model assumes.

Output: coq/gen/C28_Refresh.v
"""
import ast
import os


class TranslationError(Exception):
    pass


def classes(path):
    tree = ast.parse(open(path).read(), filename=path)
    return dict((n.name, n) for n in tree.body if isinstance(n, ast.ClassDef))


def method(cls, name):
    for n in cls.body:
        if isinstance(n, ast.FunctionDef) and n.name == name:
            return n
    return None


def is_call(node, text):
    return isinstance(node, ast.Expr) and isinstance(node.value, ast.Call) and ast.unparse(node.value) == text


def refresh_position(fn, var):
    """True iff fn refreshes on non-empty `var` (guarded by self.refreshable); False iff it never
    refreshes; anything else -> TranslationError"""
    calls = [n for n in ast.walk(fn) if isinstance(n, ast.Call) and ast.unparse(n.func) in
             ("self.refresh", "self.timer.restart")]
    good = []
    for top in fn.body:
        if isinstance(top, ast.If) and ast.unparse(top.test) == var:
            for st in top.body:           # only the truthy branch
                if (isinstance(st, ast.If) and ast.unparse(st.test) == "self.refreshable"
                        and not st.orelse and len(st.body) == 1 and is_call(st.body[0], "self.refresh()")):
                    good.append(st.body[0].value)
    if len(calls) != len(good) or any(c not in calls for c in good):
        raise TranslationError("%s: refresh()/timer.restart() call outside `if %s: if self.refreshable:`"
                               % (fn.name, var))
    if len(good) > 1:
        raise TranslationError("%s: more than one refresh" % fn.name)
    return bool(good)


def expect(cond, what):
    if not cond:
        raise TranslationError("unexpected shape: " + what)


def generate(repo):
    srv = classes(os.path.join(repo, "ioflo/aio/tcp/serving.py"))
    http = classes(os.path.join(repo, "ioflo/aio/http/serving.py"))
    timing = classes(os.path.join(repo, "ioflo/aid/timing.py"))
    for c in ("Incomer", "IncomerTls"):
        expect(c in srv, "class %s missing" % c)
    expect([ast.unparse(b) for b in srv["IncomerTls"].bases] == ["Incomer"], "IncomerTls bases")
    table = {}
    for cname in ("Incomer", "IncomerTls"):
        for mname, var in (("receive", "data"), ("send", "result")):
            fn = method(srv[cname], mname) or method(srv["Incomer"], mname)
            expect(fn is not None, "%s.%s missing" % (cname, mname))
            table["%s_%s" % (cname, mname)] = refresh_position(fn, var)
    # Incomer.refresh / __init__ / IncomerTls does not override refresh
    fn = method(srv["Incomer"], "refresh")
    body = [s for s in fn.body if not (isinstance(s, ast.Expr) and isinstance(s.value, ast.Constant))]
    expect(len(body) == 1 and is_call(body[0], "self.timer.restart()"), "Incomer.refresh body")
    expect(method(srv["IncomerTls"], "refresh") is None, "IncomerTls overrides refresh")
    init = ast.unparse(method(srv["Incomer"], "__init__"))
    expect("self.timeout = timeout if timeout is not None else self.Timeout" in init, "Incomer.timeout init")
    expect("self.timer = StoreTimer(self.store, duration=self.timeout)" in init, "Incomer.timer init")
    expect("self.refreshable = refreshable" in init, "Incomer.refreshable init")
    # StoreTimer
    st = timing["StoreTimer"]
    exp = ast.unparse(method(st, "getExpired"))
    expect("self.store.stamp is not None and self.store.stamp >= self.stop" in exp, "StoreTimer.getExpired")
    rs = ast.unparse(method(st, "restart"))
    expect("self.start = self.store.stamp" in rs and "self.stop = self.start + self.duration" in rs,
           "StoreTimer.restart")
    # Valet / Porter idle test
    shapes = {}
    for cname in ("Valet", "Porter"):
        fn = method(http[cname], "serviceConnects")
        ifs = [n for n in ast.walk(fn) if isinstance(n, ast.If) and "timeout" in ast.unparse(n.test)]
        expect(len(ifs) == 1, "%s.serviceConnects: one timeout test" % cname)
        expect(ast.unparse(ifs[0].test) == "ix.timeout > 0.0 and ix.timer.expired", "%s idle test" % cname)
        expect(len(ifs[0].body) == 1 and is_call(ifs[0].body[0], "self.closeConnection(ca)") and not ifs[0].orelse,
               "%s idle action" % cname)
        cut = [n for n in ast.walk(fn) if isinstance(n, ast.If) and ast.unparse(n.test) == "ix.cutoff"]
        shapes[cname] = bool(cut)
        if cut:
            expect(is_call(cut[0].body[0], "self.closeConnection(ca)") and isinstance(cut[0].body[-1], ast.Continue),
                   "%s cutoff action" % cname)
    cp = method(http["Requestant"], "checkPersisted")
    last = cp.body[-1]
    expect(isinstance(last, ast.If) and ast.unparse(last.test) == "self.persisted" and len(last.body) == 1
           and ast.unparse(last.body[0]) == "self.incomer.timeout = 0.0", "Requestant.checkPersisted override")
    others = [n for n in ast.walk(ast.parse(open(os.path.join(repo, "ioflo/aio/http/serving.py")).read()))
              if isinstance(n, ast.Assign) and any(ast.unparse(t).endswith(".timeout") and "incomer" in ast.unparse(t)
                                                    for t in n.targets)]
    expect(len(others) == 1, "exactly one assignment to incomer.timeout in http/serving.py")

    def b(x):
        return "true" if x else "false"
    lines = ["(* GENERATED by props/C28/translate.py from ioflo/aio/tcp/serving.py, ioflo/aio/http/serving.py,",
             "   ioflo/aid/timing.py -- do not edit *)", "From Coq Require Import Bool.", ""]
    for k in ("Incomer_receive", "Incomer_send", "IncomerTls_receive", "IncomerTls_send"):
        lines.append("Definition %s_refreshes : bool := %s." % (k, b(table[k])))
    lines.append("Definition Valet_checks_cutoff : bool := %s." % b(shapes["Valet"]))
    lines.append("Definition Porter_checks_cutoff : bool := %s." % b(shapes["Porter"]))
    lines.append("(* shapes verified by the translator: Incomer.refresh = timer.restart(); timer = StoreTimer(store,")
    lines.append("   duration=timeout); expired = stamp >= stop; restart: start = stamp, stop = start + duration;")
    lines.append("   idle test = ix.timeout > 0.0 and ix.timer.expired -> closeConnection(ca);")
    lines.append("   checkPersisted: if self.persisted: self.incomer.timeout = 0.0 (the only assignment) *)")
    return "\n".join(lines) + "\n", table


if __name__ == "__main__":
    import sys
    print(generate(sys.argv[1] if len(sys.argv) > 1 else "/repo")[0])
