"""
C23 -- log rotation and flushing never lose or duplicate retained records.

Tie H: coq/C23/Model.v is a hand model of Log.reopen/close/flush/cycle, the header write of Log.prepare,
Logger.log's flush and cycle timers, the runner's START/RUN/STOP (incl. the STOP-path cycle when keep and
reuse) and ocfn, over a disk of per-path durable contents + the Python-level buffer of the open handle, with a
crash (fuel) at every primitive file operation.
  theorems       : coq/C23/Props.v  (all configurations, histories, crash points)
  correspondence : the real Logger with one streak Log or several Logs of different rules (each log's record
                   ids 0,1,2,... as its stream; coq: run / mrun) in a temp dir
                   under ctx.work; retained files compared with the model's disk after the run (vm_compute
                   in Coq); crash = os._exit in a child process before the k-th op (every k, thorough tier; a
                   sample in the quick tier) -- survivors must be the model's disk with main extended by a
                   prefix of the model's buffer; crashes inside the rename chain (os.rename double) and runs
                   with spilling buffers are checked against the property's statement directly.
"""
import json
import os
import sys

sys.path.insert(0, os.path.dirname(os.path.abspath(__file__)))
import harness  # noqa: E402

from vlib import cz, clist, cnat, cbool, copt  # noqa: E402

LEVEL = "proof"


# ---------------------------------------------------------------- Coq rendering
def c_item(it):
    if it == "H":
        return "H"
    if it[0] == "R":
        return "(R %s %s)" % (cnat(it[1]), cz(it[2]))
    raise ValueError("partial line %r" % (it,))


def c_files(files):
    return clist([copt(f, lambda c: clist([c_item(i) for i in c], "item")) for f in files], "(option content)")


def c_cfg(case, hsz):
    return "{| keep := %s; cycleP := %s; fsize := %s; flushP := %s; reuse := %s; hsz := %s |}" % (
        cnat(case["keep"]), cz(case["cycleP"]), cz(case["fsize"]), cz(case["flushP"]), cbool(case["reuse"]), cz(hsz))


def c_ops(ops, sizes, multi):
    """sizes: per control op: per log: [size...]"""
    out, k = [], 0
    for op in ops:
        if op[0] == "tick":
            out.append("(%sTick %s)" % ("M" if multi else "", cz(op[1])))
        else:
            per = [clist([cz(z) for z in szs], "Z") for szs in sizes[k]]
            arg = clist(per, "(list Z)") if multi else per[0]
            out.append("(%s%s %s)" % ("M" if multi else "", op[0].capitalize(), arg))
            k += 1
    return clist(out, "mop" if multi else "op")


def c_model(case, sizes, hsz, upto=None):
    """state after all processes; the last one only up to op `upto` (crash before that op).
    one log: the single-log model (run); several logs: the multi-log model (mrun)"""
    cfg = c_cfg(case, hsz)
    nl = len(harness.rules_of(case))
    multi = nl > 1
    expr = None
    procs = case["procs"]
    for i, ops in enumerate(procs):
        szs = sizes[i]
        if i == len(procs) - 1 and upto is not None:
            nctl = sum(1 for o in ops[:upto] if o[0] != "tick")
            ops, szs = ops[:upto], szs[:nctl]
        o = c_ops(ops, szs, multi)
        if multi:
            if expr is None:
                expr = "(mrun %s %s 0 None %s)" % (cfg, cnat(nl), o)
            else:
                expr = "(let p := %s in mrunfrom %s (mnext %s p) %s)" % (expr, cfg, cfg, o)
        elif expr is None and case.get("fail_open") is not None:
            expr = "(runfo %s 0 None None (Some %s) %s)" % (cfg, cnat(case["fail_open"] - 1), o)
        elif expr is None and case.get("fail_rename") is not None:
            expr = "(runf %s 0 None (Some %s) %s)" % (cfg, cnat(case["fail_rename"] - 1), o)
        elif expr is None:
            expr = "(run %s 0 None %s)" % (cfg, o)
        else:
            expr = "(let p := %s in runfrom %s (init %s (now p) (files p) (next p) (dropped p) None) %s)" % (
                expr, cfg, cfg, o)
    if upto is None:       # the harness closes the logger at the end of a clean run
        expr = "(mphase (fun _ => log_close) %s)" % expr if multi else "(log_close %s)" % expr
    return "(lgs %s)" % expr if multi else "[%s]" % expr


def c_allfiles(allfiles):
    return clist([c_files(f) for f in allfiles], "(list (option content))")


HEADER = """From Coq Require Import List ZArith Bool.
Import ListNotations.
Require Import V.C23.Model.
Open Scope Z_scope.
Definition it_eqb (a b : item) := match a, b with H, H => true | R i x, R j y => Nat.eqb i j && Z.eqb x y | _, _ => false end.
Fixpoint l_eqb {A} (e : A -> A -> bool) (a b : list A) := match a, b with [], [] => true | x::a', y::b' => e x y && l_eqb e a' b' | _, _ => false end.
Definition oc_eqb (a b : option content) := match a, b with Some x, Some y => l_eqb it_eqb x y | None, None => true | _, _ => false end.
Fixpoint pre_eqb (p b : content) := match p, b with [], _ => true | x :: p', y :: b' => it_eqb x y && pre_eqb p' b' | _, _ => false end.
(* survivors of a process death: the model's disk, main possibly extended by a prefix of the buffer *)
Definition adm (s : st) (impl : list (option content)) : bool :=
  match hbuf s with
  | None => l_eqb oc_eqb (files s) impl
  | Some b => l_eqb oc_eqb (removelast (files s)) (removelast impl) &&
              match last impl None with
              | Some m => let d := ocontent (mainf s) in
                          l_eqb it_eqb (firstn (length d) m) d && pre_eqb (skipn (length d) m) b
              | None => false
              end
  end.
Definition clean (s : st) (impl : list (option content)) : bool :=
  l_eqb oc_eqb (files s) impl && match hbuf s with None => true | Some _ => false end && negb (fault s).
Fixpoint all2 {A B} (f : A -> B -> bool) (a : list A) (b : list B) : bool :=
  match a, b with [], [] => true | x :: a', y :: b' => f x y && all2 f a' b' | _, _ => false end.
Definition madm (ss : list st) (impl : list (list (option content))) : bool := all2 adm ss impl.
Definition mclean (ss : list st) (impl : list (list (option content))) : bool := all2 clean ss impl.
(* runs with an injected rename failure: [fault] is expected to be set *)
Definition cleanf (s : st) (impl : list (option content)) : bool :=
  l_eqb oc_eqb (files s) impl && match hbuf s with None => true | Some _ => false end.
Definition mcleanf (ss : list st) (impl : list (list (option content))) : bool := all2 cleanf ss impl.
(* runs with an injected failure of the new main file's creation: also compare "the failure surfaced" *)
Definition cleano (ss : list st) (p : list (list (option content)) * bool) : bool :=
  match ss with [s] => all2 cleanf ss (fst p) && Bool.eqb (aborted s) (snd p) | _ => false end.
"""


# ---------------------------------------------------------------- the property, executable
def due_flushed(case):
    """for a process killed before its k-th op: per log, the number of records written at a stamp
    <= T - flushPeriod, T = stamp of the last logger run before the kill.  Whatever the flush schedule, a logger
    that flushes every flushPeriod has flushed at some F > T - flushPeriod at a logger run (records of a run are
    written before its flush), so all those records were written before the most recent DUE flush.
    Computed from the plan alone (no ioflo).  returns (due per log, T, crash tick, logger period)"""
    nl = len(harness.rules_of(case))
    if case.get("crash") is None:
        return None
    pl = harness.plan(case)
    t = 0
    events = []          # (tick, per-log count) of every control that ran
    base = [0] * nl
    last_t, gaps = None, []
    for i, ops in enumerate(case["procs"]):
        lastproc = i == len(case["procs"]) - 1
        this = []
        for k, op in enumerate(ops):
            if lastproc and k >= case["crash"]:
                break
            if op[0] == "tick":
                t += op[1]
                continue
            this.append((t, [len(x) for x in pl[i][k]["ids"]]))
            if lastproc:
                if last_t is not None and t > last_t:
                    gaps.append(t - last_t)
                last_t = t
        if lastproc:
            events = this
        else:
            for _, cnt in this:
                base = [a + b for a, b in zip(base, cnt)]
    if not events:
        return None
    T = events[-1][0]
    due = list(base)
    for tk, cnt in events:
        if tk <= T - case["flushP"]:
            due = [a + b for a, b in zip(due, cnt)]
    return due, T, t, (min(gaps) if gaps else None)


def spec_fail(case, res):
    """clean run with one injected os.rename failure: a failed rename loses no retained record (a rotation only
    ever discards the OLDEST copy), the retained files stay one contiguous suffix of the stream up to the last
    record, every non-empty file (the newest in particular) starts with the header"""
    ow = res["spy"]["overwrites"]
    if ow:
        return "a rename overwrote copy %s which still held the retained records %r" % (ow[0][1], ow[0][2])
    files = res["files"][0]
    ids = []
    for f in files:
        if f:
            if f[0] != "H":
                return "a retained file does not start with the header: %r" % (f[:2],)
            if any(i == "H" for i in f[1:]):
                return "second header inside a file"
            if any(i != "H" and i[0] == "P" for i in f):
                return "garbled line"
            ids += [it[1] for it in f if it != "H"]
    n = res["nwritten"][0]
    a = res["spy"]["legit_dropped"][0] + 1
    if ids != list(range(a, n)):
        return ("retained ids %r, expected exactly %d..%d (everything not discarded with the oldest copy), rename "
                "#%d failed" % (ids, a, n - 1, case["fail_rename"]))
    return None


def spec_open(case, res):
    """one injected failure of ocfn(path,'w+') in a rotation: no record is lost silently -- every record handed to
    the log is retained, was discarded with the oldest copy, or belongs to the run in which the failure surfaced
    (an exception left the runner)"""
    ow = res["spy"]["overwrites"]
    if ow:
        return "a rename overwrote copy %s which still held the retained records %r" % (ow[0][1], ow[0][2])
    ids = []
    names = ["copy %02d" % k for k in range(case["keep"], 0, -1)] + ["main"]
    for name, f in zip(names, res["files"][0]):
        if f:
            # the logger may die loudly after the fault, but what it leaves behind must be well formed: every
            # non-empty retained file starts with the header (exactly one), its records are whole lines
            if f[0] != "H":
                return ("retained file %s holds %d records but does not start with the header: %r; the %d-th "
                        "creation of the new main file failed once%s" % (
                            name, len(f), f[:2], case["fail_open"],
                            " (os.open of the main path right after os.rename(main, copy 01))"
                            if case.get("create_level") else ""))
            if any(i == "H" for i in f[1:]):
                return "second header inside retained file %s" % name
            if any(i != "H" and i[0] == "P" for i in f):
                return "garbled line"
            ids += [it[1] for it in f if it != "H"]
    sf = res.get("surfaced")
    n = sf["nw_before"][0] if sf else res["nwritten"][0]
    a = res["spy"]["legit_dropped"][0] + 1
    if ids != list(range(a, n)):
        return ("retained ids %r..%r, but records %d..%d were handed to the log and none of them was discarded with "
                "the oldest copy; the %d-th creation of the new main file failed; %s" % (
                    ids[:1], ids[-1:], a, n - 1, case["fail_open"],
                    "exception %s surfaced at op %d" % (sf["exc"], sf["op"]) if sf else
                    "NO exception surfaced and the logger kept running: records lost silently"))
    return None


def spec_check(case, res, crashed):
    """the statement on the surviving files alone, for every log of the logger.  returns None | why"""
    if case.get("fail_open") is not None and not crashed:
        return spec_open(case, res)
    if case.get("fail_rename") is not None and not crashed:
        return spec_fail(case, res)
    rules = harness.rules_of(case)
    due = due_flushed(case) if crashed else None
    for j, rule in enumerate(rules):
        fb, how = res["spy"]["flushed"][j], "this log's most recent completed flush"
        if due is not None and due[0][j] > fb:
            fb = due[0][j]
            how = ("the most recent DUE flush (stamp <= %d - flushPeriod %d ticks; logger period %s, cyclePeriod %d, "
                   "keep %d, killed at tick %d)" % (due[1], case["flushP"], due[3], case["cycleP"], case["keep"], due[2]))
        why = spec_log(case, res["files"][j], crashed,
                       None if res["nwritten"] is None else res["nwritten"][j],
                       fb, res["spy"]["rot_at"][j], how)
        if why:
            return "log %d (rule %s): %s" % (j, rule, why)
    for j, size, before, renamed in res["spy"]["cycles"]:
        if renamed and size and before is not None and before < size:
            return "rotated at size %d < threshold %d" % (before, size)
    return None


def spec_log(case, files, crashed, n, flushed_before, rot, how="this log's most recent completed flush"):
    ids = []
    for f in files:
        if f is None:
            continue
        body = f
        if body:
            if body[0] != "H":
                return "a retained file does not start with the header: %r" % (body[:2],)
            if any(i == "H" for i in body[1:]):
                return "second header inside a file"
        for k, it in enumerate(body):
            if it != "H" and it[0] == "P" and not (crashed and f is files[-1] and k == len(body) - 1):
                return "garbled line %r" % (it,)
        ids += [it[1] for it in body if it != "H" and it[0] == "R"]
    if ids and ids != list(range(ids[0], ids[0] + len(ids))):
        return "retained records are not a contiguous in-order stretch of the stream: %r" % ids
    kp = case["keep"]
    if not crashed:
        # exactly the records since the (keep+1)-th most recent rotation are retained, up to the last one
        a = rot[-(kp + 1)] if len(rot) > kp else 0
        if ids != list(range(a, n)):
            return "retained ids %r..%r, expected %d..%d (all records since the rotation that many files ago)" % (
                ids[:1], ids[-1:], a, n - 1)
        since = rot[-1] if rot else 0
        newest = [it[1] for it in (files[-1] or []) if it != "H" and it[0] == "R"]
        if newest != list(range(since, n)):
            return "newest file holds %r, records since the last rotation are %d..%d" % (newest, since, n - 1)
    else:
        # rotations seen by the dying process (main renames of ITS rotations only): records may be missing
        # only because they were rotated out beyond keep (a rotation in progress may already have overwritten
        # the oldest copy)
        a_max = (rot[-kp] if len(rot) >= kp else 0) if kp else 0
        if len(case["procs"]) == 1:
            if ids and ids[0] > a_max:
                return "records before %d are gone although not rotated out (rotations at %r)" % (ids[0], rot)
            if flushed_before and flushed_before - 1 >= a_max and (not ids or ids[-1] < flushed_before - 1):
                return ("record %d was written before %s but is not in its files (ids end %r)" % (
                    flushed_before - 1, how, ids[-3:]))
        elif ids and flushed_before and ids[-1] < flushed_before - 1:
            return ("record %d was written before %s but is not in its files (ids end %r)" % (
                flushed_before - 1, how, ids[-3:]))
    return None


# ---------------------------------------------------------------- generators
def gen_ops(rng, n, restarts=True):
    ops = [["start", rng.randint(0, 3)]]
    active = True
    for _ in range(n):
        r = rng.random()
        if r < 0.4:
            ops.append(["tick", rng.choice([1, 1, 1, 2, 3, 8])])
        elif r < 0.92 or not restarts:
            if active:
                ops.append(["run", rng.choice([0, 1, 1, 1, 2, 4])])
        else:
            if active:
                ops.append(["stop", rng.randint(0, 2)])
                active = False
            else:
                ops.append(["start", rng.randint(0, 2)])
                active = True
    return ops, active


def gen_case(rng, size=30):
    keep = rng.choice([0, 1, 1, 2, 2, 3])
    case = {"keep": keep, "cycleP": rng.choice([1, 2, 4, 4, 8]), "fsize": rng.choice([0, 0, 10, 40, 60, 120]),
            "flushP": rng.choice([8, 8, 12, 24]), "reuse": rng.random() < 0.5, "procs": []}
    nproc = rng.choice([1, 1, 2, 3]) if case["reuse"] else 1
    for i in range(nproc):
        ops, active = gen_ops(rng, rng.randint(3, size))
        if active and (i < nproc - 1 or rng.random() < 0.7):
            ops.append(["stop", rng.randint(0, 2)])
        elif active:
            pass
        case["procs"].append(ops)
    return case


MULTI = [["once", "always"], ["always", "once"], ["once", "update", "always"], ["change", "always", "once"],
         ["update", "streak"], ["once", "streak", "change"], ["always", "update", "change", "once"]]


def gen_multi(rng, size=24, sparse=True):
    """several logs of different rules on one logger; the sparse logs (once/update/change) write at stamp 0
    and rarely afterwards while always/streak logs keep the flush timer advancing; small flushPeriod"""
    rules = rng.choice(MULTI)
    case = gen_case(rng, size)
    case["logs"] = rules
    case["flushP"] = rng.choice([8, 8, 8, 12])
    if rng.random() < 0.5:
        case["keep"] = 0          # no rotation: only the flush timer (and close) ever flushes
    for ops in case["procs"]:
        for op in ops:
            if op[0] != "tick":
                op.append([rng.random() < (0.12 if sparse else 0.5) for _ in rules])
    return case


def gen_fail(rng):
    """rotation with keep >= 2 on every cycle period; the i-th rename of the j-th rotation raises OSError"""
    keep = rng.choice([2, 2, 3])
    ops, active = gen_ops(rng, rng.randint(14, 30))
    # make sure time passes so that several rotations happen
    ops = [o if o[0] != "tick" else ["tick", max(o[1], 2)] for o in ops]
    if active and rng.random() < 0.8:
        ops.append(["stop", rng.randint(0, 2)])
    nrot = max(1, sum(o[1] for o in ops if o[0] == "tick") // 4)
    j = rng.randint(1, min(nrot, 4))
    i = rng.randint(1, keep)
    return {"keep": keep, "cycleP": 2, "fsize": rng.choice([0, 0, 10]), "flushP": rng.choice([8, 24]),
            "reuse": rng.random() < 0.5, "procs": [ops], "fail_rename": (j - 1) * keep + i}


def gen_openfail(rng):
    """rotation on every cycle period; the j-th creation of the new main file (ocfn 'w+') raises IOError;
    every control queues at least one record"""
    keep = rng.choice([1, 2, 2, 3])
    ops, active = gen_ops(rng, rng.randint(12, 26))
    ops = [o if o[0] == "tick" else [o[0], max(o[1], 1)] for o in ops]
    ops = [o if o[0] != "tick" else ["tick", max(o[1], 2)] for o in ops]
    if active and rng.random() < 0.7:
        ops.append(["stop", 1])
    return {"keep": keep, "cycleP": 2, "fsize": rng.choice([0, 0, 10]), "flushP": rng.choice([8, 24]),
            "reuse": rng.random() < 0.5, "procs": [ops], "fail_open": rng.randint(1, 3)}


def long_single(rng):
    """one streak log; the logger runs every tick (period 1/8 s << flushPeriod >= 1 s); no rotation or
    cyclePeriod > flushPeriod; run long enough that several flushes fall due; killed late"""
    fp = rng.choice([8, 8, 12])
    keep = rng.choice([0, 0, 1, 2])
    ops = [["start", 1]]
    for _ in range(rng.randint(2 * fp + 2, 3 * fp + 6)):
        ops.append(["tick", 1])
        ops.append(["run", rng.choice([0, 1, 1, 2])])
    return {"keep": keep, "cycleP": rng.choice([2 * fp + 4, 4 * fp]), "fsize": 0, "flushP": fp,
            "reuse": rng.random() < 0.5, "procs": [ops]}


def long_multi(rng):
    """the shape of the seeded demo: START at stamp 0, then many ticks with a RUN each"""
    rules = rng.choice(MULTI)
    ops = [["start", 1, [True] * len(rules)]]
    for _ in range(rng.randint(10, 26)):
        ops.append(["tick", rng.choice([1, 2])])
        ops.append(["run", rng.choice([0, 1, 2]), [rng.random() < 0.08 for _ in rules]])
    return {"keep": rng.choice([0, 0, 2]), "cycleP": rng.choice([16, 32]), "fsize": 0, "flushP": 8,
            "reuse": rng.random() < 0.5, "logs": rules, "procs": [ops]}


def directed_createfail():
    out = []
    for keep in (1, 2, 3):
        for reuse in (False, True):
            for j in (1, 2):
                for after in range(keep + 1):
                    ops = [["start", 1]] + sum([[["tick", 1], ["run", 1]] for _ in range(2 * (j + after) + 1)], [])
                    if after == 0:
                        ops += [["tick", 1], ["stop", 1]]
                    out.append({"keep": keep, "cycleP": 2, "fsize": 0 if j == 1 else 10, "flushP": 24,
                                "reuse": reuse, "procs": [ops], "fail_open": j, "create_level": "os.open"})
    # the known finding (key restart-after-failed-create-headerless), deterministic: the create fails in the rotation
    # of a STOP, the same logger is started again
    out.append({"keep": 1, "cycleP": 2, "fsize": 0, "flushP": 24, "reuse": False, "fail_open": 1,
                "create_level": "os.open",
                "procs": [[["start", 1], ["tick", 2], ["stop", 1], ["tick", 1], ["start", 1], ["tick", 1], ["run", 1]]]})
    return out


def run(ctx):
    ctx.rule = ("configurations (keep 0-3, cyclePeriod, fileSize threshold, flushPeriod, reuse) x histories of ticks "
                "and logger controls; one streak log with 0-4 records per run, or 2-4 logs of different rules "
                "(once/update/change writing at stamp 0 and rarely afterwards, always/streak every run) on one "
                "logger; 1-3 successive Logger processes on the same directory when reuse; every log's retained "
                "files after the run compared with the model's disk; crash cases: child process killed (os._exit) "
                "before op k (every k for the multi-log cases), every log's survivors compared with the model's "
                "admissible set and with the statement (records written to a log before its most recent completed "
                "Log.flush/Logger.flush are in its files); non-trivial = a rotation happened or a crash")
    ctx.assumptions = [
        "process death only (os._exit): what was handed to the OS by flush()/close() survives; no power loss",
        "every log's records carry its own ids 0,1,2,...; which records a rule writes is planned by the harness "
        "(C22 covers the rules) and verified by parsing the files; store.stamp = tick/8 s",
        "no OSError from the file system other than the missing-source rename modelled as `fault`",
    ]
    ctx.coq_build("C23/Props.v")
    work = ctx.work

    pairs, metas = [], []
    # 1. clean runs, in process
    cases = []
    # 0. directed family, first in both tiers: ONE transient failure of the creation of the new main file, located
    #    on the disk -- the os.open of the main path that follows the j-th successful os.rename(main, copy 01)
    #    inside Log.cycle raises EMFILE once, every later open works; the history goes on with a record per run
    #    and a rotation every 2 ticks for `after` = 0..keep further rotations (so a main file made after the fault
    #    is looked at as main and as every copy 01..keep, BEFORE it is discarded as the oldest copy), then one
    #    more run (+ STOP when after = 0: with reuse the STOP path rotates once more); compared with the model's
    #    runfo and with the statement (spec_open: header first in every non-empty retained file, no record lost
    #    silently / duplicated; a logger that died loudly is allowed)
    cases += directed_createfail()
    base = [["start", 1]] + sum([[["tick", 1], ["run", 1]] for _ in range(16)], []) + [["tick", 1], ["stop", 1]]
    for reuse in (False, True):
        cases.append({"keep": 2, "cycleP": 4, "fsize": 10, "flushP": 24, "reuse": reuse, "procs": [base]})
    for _ in range(ctx.n(350, 4000)):
        cases.append(gen_case(ctx.rng))
    for _ in range(ctx.n(120, 1500)):
        cases.append(gen_multi(ctx.rng, sparse=ctx.rng.random() < 0.6))
    # 1b. fault injection: one os.rename of one rotation raises OSError (all i for keep 2..3, sampled rotation j)
    for keep in (2, 3):
        for i in range(1, keep + 1):
            for j in (1, 2, 3):
                ops = [["start", 1]] + sum([[["tick", 1], ["run", 1]] for _ in range(12)], []) + [["tick", 1], ["stop", 1]]
                cases.append({"keep": keep, "cycleP": 2, "fsize": 0, "flushP": 24, "reuse": False, "procs": [ops],
                              "fail_rename": (j - 1) * keep + i})
    for _ in range(ctx.n(40, 600)):
        cases.append(gen_fail(ctx.rng))
    # 1c. fault injection: the creation of the new main file fails once (ocfn 'w+' raises IOError)
    for keep in (1, 2):
        for j in (1, 2, 3):
            for reuse in (False, True):
                ops = [["start", 1]] + sum([[["tick", 1], ["run", 1]] for _ in range(10)], []) + [["tick", 1], ["stop", 1]]
                cases.append({"keep": keep, "cycleP": 2, "fsize": 0, "flushP": 24, "reuse": reuse, "procs": [ops],
                              "fail_open": j})
    for _ in range(ctx.n(30, 400)):
        cases.append(gen_openfail(ctx.rng))
    for case in cases:
        res = harness.run_case(case, work)
        nrot = sum(1 for c in res["spy"]["cycles"] if c[3])
        ctx.case({"case": case, "files": res["files"]}, nontrivial=nrot > 0,
                 kind=("createfail(os.open after rename):keep=%d:reuse=%s:hit=%s:surfaced=%s" % (
                           case["keep"], case["reuse"], bool(res.get("fired")), bool(res.get("surfaced")))
                       if case.get("create_level") else
                       "openfail:keep=%d:hit=%s:surfaced=%s" % (case["keep"], res["opens"] >= case["fail_open"],
                                                                 bool(res.get("surfaced")))
                       if case.get("fail_open") is not None else
                       "renamefail:keep=%d:hit=%s" % (case["keep"], res["spy"]["renames"] >= case["fail_rename"])
                       if case.get("fail_rename") is not None else
                       "clean:logs=%d:keep=%d" % (len(harness.rules_of(case)), case["keep"])))
        metas.append((case, res, None))
        try:
            if case.get("fail_open") is not None:
                pairs.append((c_model(case, res["sizes"], res["hsz"]),
                              "(%s, %s)" % (c_allfiles(res["files"]), cbool(bool(res.get("surfaced")))), "cleano"))
            else:
                pairs.append((c_model(case, res["sizes"], res["hsz"]), c_allfiles(res["files"]),
                              "cleanf" if case.get("fail_rename") is not None else "clean"))
        except ValueError as ex:
            pairs.append(None)
            ctx.tie_broken("correspondence", "C23 garbled file", "%s %s" % (json.dumps(case), ex))

    # 2. crashes at op granularity, in child processes
    crash_cases = []
    for _ in range(ctx.n(4, 30)):
        case = gen_case(ctx.rng, size=14)
        last = case["procs"][-1]
        ks = list(range(1, len(last) + 1))
        if not ctx.thorough:
            ks = ctx.rng.sample(ks, min(3, len(ks)))
        for k in ks:
            crash_cases.append(dict(case, crash=k))
    # 2b. several logs per logger, sparse writers, small flush period: killed at EVERY tick (demo shape), and
    #     random multi-log histories killed at sampled (quick) / all (thorough) ops
    # deterministic demo shapes (independent of the seed): a sparse log (one record at stamp 0) next to a busy one,
    # no rotation, flushPeriod 1 s, logger period 1/8 s, killed after the first / second due flush and at the end
    for rules in (["once", "always"], ["update", "streak"], ["always", "change"]):
        ops = [["start", 1, [True] * len(rules)]]
        for _ in range(20):
            ops += [["tick", 1], ["run", 1, [False] * len(rules)]]
        for k in (19, 35, len(ops)):
            crash_cases.append({"keep": 0, "cycleP": 16, "fsize": 0, "flushP": 8, "reuse": False, "logs": rules,
                                "procs": [ops], "crash": k})
    for _ in range(ctx.n(1, 6)):
        case = long_multi(ctx.rng)
        last = case["procs"][-1]
        ks = [k for k in range(1, len(last) + 1) if k == len(last) or last[k][0] == "tick"]
        if not ctx.thorough:
            ks = ks[-1:] + ctx.rng.sample(ks[:-1], min(7, len(ks) - 1))
        for k in ks:
            crash_cases.append(dict(case, crash=k))
    # 2c. logger period < flushPeriod, keep = 0 or cyclePeriod > flushPeriod, killed later than flushPeriod after
    #     start: only the flush timer can have put the early records on disk
    for _ in range(ctx.n(2, 8)):
        case = long_single(ctx.rng)
        last = case["procs"][-1]
        late = [k for k in range(1, len(last) + 1)
                if (k == len(last) or last[k][0] == "tick") and sum(o[1] for o in last[:k] if o[0] == "tick") > case["flushP"]]
        ks = late if ctx.thorough else late[-1:] + ctx.rng.sample(late[:-1], min(3, len(late) - 1))
        for k in ks:
            crash_cases.append(dict(case, crash=k))
    for _ in range(ctx.n(3, 25)):
        case = gen_multi(ctx.rng, size=14)
        last = case["procs"][-1]
        ks = list(range(1, len(last) + 1))
        if not ctx.thorough:
            ks = ctx.rng.sample(ks, min(3, len(ks)))
        for k in ks:
            crash_cases.append(dict(case, crash=k))
    # 3. crashes inside the rename chain / with spilling buffers: property statement only
    for _ in range(ctx.n(4, 40)):
        case = gen_case(ctx.rng, size=20) if ctx.rng.random() < 0.6 else gen_multi(ctx.rng, size=20)
        case["keep"] = max(case["keep"], 2)
        case["fsize"] = 0
        case["cycleP"] = 2
        crash_cases.append(dict(case, crash_rename=ctx.rng.randint(1, 6), when=ctx.rng.choice(["before", "after"])))
    for _ in range(ctx.n(2, 20)):
        case = gen_case(ctx.rng, size=14)
        case["big"] = True
        case["fsize"] = ctx.rng.choice([0, 4000])
        last = case["procs"][-1]
        crash_cases.append(dict(case, crash=ctx.rng.randint(2, len(last))))

    from concurrent.futures import ThreadPoolExecutor
    from vlib import sh, PY, impl_env
    script = os.path.join(os.path.dirname(os.path.abspath(__file__)), "harness.py")

    def child(i):
        wd = os.path.join(work, "cr%d" % i)
        os.makedirs(wd, exist_ok=True)
        return sh([PY, script], timeout=120, env=impl_env(ctx.repo), cwd=wd, input=json.dumps(crash_cases[i]))

    with ThreadPoolExecutor(max_workers=8) as ex:
        outs = list(ex.map(child, range(len(crash_cases))))

    for i, case in enumerate(crash_cases):
        wd = os.path.join(work, "cr%d" % i)
        rc, out = outs[i]
        nl = len(harness.rules_of(case))
        files = harness.read_files(case, os.path.join(wd, "lg"))
        side = os.path.join(wd, "side.txt")
        flushed, rot = [0] * nl, [[] for _ in range(nl)]
        if os.path.exists(side):
            for ln in open(side).read().splitlines():
                parts = ln.split()
                if len(parts) != 3:
                    continue
                if parts[0] == "L":
                    flushed[int(parts[1])] = int(parts[2])
                elif parts[0] == "R":
                    rot[int(parts[1])].append(int(parts[2]))
        sizes = harness.sizes_of(harness.plan(case))
        survived = "survived" in out
        res = {"files": files, "sizes": sizes, "hsz": harness.HSZ, "nwritten": None,
               "spy": {"flushed": flushed, "cycles": [], "rot_at": rot}, "survived": survived}
        spill = case.get("big") or case.get("crash_rename") is not None
        ctx.case({"case": case, "files": files}, nontrivial=True,
                 kind="crash:%s:logs=%d" % ("rename" if case.get("crash_rename") else "big" if case.get("big") else "op", nl))
        metas.append((case, res, True))
        if rc != 0 and not survived and "Traceback" in out:
            ctx.tie_broken("harness", "C23 crash child failed", "%s\n%s" % (json.dumps(case), out[-1500:]))
        if spill or survived:
            pairs.append(None)
            continue
        try:
            pairs.append((c_model(case, sizes, res["hsz"], upto=case["crash"]), c_allfiles(files), "adm"))
        except ValueError as ex:
            pairs.append(None)
            ctx.tie_broken("correspondence", "C23 garbled surviving file", "%s %s" % (json.dumps(case), ex))

    idx_clean = [i for i, p in enumerate(pairs) if p and p[2] == "clean"]
    idx_adm = [i for i, p in enumerate(pairs) if p and p[2] == "adm"]
    idx_cleanf = [i for i, p in enumerate(pairs) if p and p[2] == "cleanf"]
    idx_cleano = [i for i, p in enumerate(pairs) if p and p[2] == "cleano"]
    bad = []
    if idx_cleano:
        b = ctx.coq_cases(HEADER, "cleano", [(pairs[i][0], pairs[i][1]) for i in idx_cleano], name="cleano")
        bad += [idx_cleano[j] for j in b]
    if idx_cleanf:
        b = ctx.coq_cases(HEADER, "mcleanf", [(pairs[i][0], pairs[i][1]) for i in idx_cleanf], name="cleanf")
        bad += [idx_cleanf[j] for j in b]
    if idx_clean:
        b = ctx.coq_cases(HEADER, "mclean", [(pairs[i][0], pairs[i][1]) for i in idx_clean], name="clean")
        bad += [idx_clean[j] for j in b]
    if idx_adm:
        b = ctx.coq_cases(HEADER, "madm", [(pairs[i][0], pairs[i][1]) for i in idx_adm], name="adm")
        bad += [idx_adm[j] for j in b]
    for i in bad[:5]:
        case, res, crashed = metas[i]
        ctx.tie_broken("correspondence", "C23 model vs Logger/Log files",
                       "case=%s impl_files=%s" % (json.dumps(case), json.dumps(res["files"])))
    ctx.extra["mismatches"] = len(bad)
    ctx.extra["crash_children"] = len(crash_cases)
    ctx.exhaustive = False

    # the implementation alone against the statement -- always evaluated (a failure here is a broken tie too)
    fails = []
    for case, res, crashed in metas:
        if crashed and res.get("survived"):
            continue
        why = spec_check(case, res, bool(crashed))
        if why:
            fails.append((case, res, why))

    RESTART_KEY = "restart-after-failed-create-headerless"

    def restart_class(f):
        """the finding on the unchanged code: the creation of the new main file fails in a rotation of a run that
        writes nothing afterwards (e.g. at STOP), the SAME logger is START-ed again: the runner's reopen() makes a
        main file without the header.  Recognised by: header statement fails, open-failure case, a START follows
        the op of the fault"""
        case, res, why = f
        fo = res.get("fault_op")
        return (case.get("fail_open") is not None and fo is not None and "does not start with the header" in why
                and any(op[0] == "start" for op in case["procs"][0][fo + 1:]))

    def weight(f):
        # failures outside the known class first (a known finding never masks another violation)
        return (restart_class(f), len(harness.rules_of(f[0])), sum(len(p) for p in f[0]["procs"]))
    if fails:
        case, res, why = min(fails, key=weight)
        ctx.tie_broken("statement", "C23 property statement fails on the implementation",
                       "case=%s files=%s: %s" % (json.dumps(case), json.dumps(res["files"]), why))

    def search():
        if not fails:
            return None
        case, res, why = min(fails, key=weight)
        due = due_flushed(case)
        return {"key": RESTART_KEY if restart_class((case, res, why)) else None,
                "case": case, "impl_files": res["files"], "flushed_per_log": res["spy"]["flushed"], "why": why,
                "config": {"logger_period_ticks": None if not due else due[3], "flushPeriod_ticks": case["flushP"],
                           "cyclePeriod_ticks": case["cycleP"], "keep": case["keep"],
                           "crash_tick": None if not due else due[2], "tick_seconds": 0.125,
                           "due_flushed_per_log": None if not due else due[0]},
                "contradicts": ("C23.Props.no_record_lost_silently" if case.get("fail_open") is not None else
                                "C23.Props.failed_rename_loses_nothing / failed_rename_stops_the_chain"
                                if case.get("fail_rename") is not None else
                                "C23.Props.crash_keeps_flushed_every_log / logger_flush_flushes_every_log / "
                                "retained_contiguous")}

    ctx.settle(search)
