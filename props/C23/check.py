"""
C23 -- log rotation and flushing never lose or duplicate retained records.

Tie H: coq/C23/Model.v is a hand model of Log.reopen/close/flush/cycle, the header write of Log.prepare,
Logger.log's flush and cycle timers, the runner's START/RUN/STOP (incl. the STOP-path cycle when keep and
reuse) and ocfn, over a disk of per-path durable contents + the Python-level buffer of the open handle, with a
crash (fuel) at every primitive file operation.
  theorems       : coq/C23/Props.v  (all configurations, histories, crash points)
  correspondence : the real Logger with one streak Log (record ids 0,1,2,... as the stream) in a temp dir
                   under ctx.work; retained files compared with the model's disk after the run (vm_compute
                   in Coq); crash = os._exit in a child process before the k-th op (every k, thorough tier; a
                   sample in the quick tier) -- survivors must be the model's disk with main extended by a
                   prefix of the model's buffer; crashes inside the rename chain (os.rename double) and runs
                   with spilling buffers are checked against the property's statement directly.
"""
import json
import os
import sys

sys.path.insert(0, os.path.dirname(os.path.abspath(__file__)))
import harness  # noqa: E402

from vlib import cz, clist, cnat, cbool, copt  # noqa: E402

LEVEL = "proof"


# ---------------------------------------------------------------- Coq rendering
def c_item(it):
    if it == "H":
        return "H"
    if it[0] == "R":
        return "(R %s %s)" % (cnat(it[1]), cz(it[2]))
    raise ValueError("partial line %r" % (it,))


def c_files(files):
    return clist([copt(f, lambda c: clist([c_item(i) for i in c], "item")) for f in files], "(option content)")


def c_cfg(case, hsz):
    return "{| keep := %s; cycleP := %s; fsize := %s; flushP := %s; reuse := %s; hsz := %s |}" % (
        cnat(case["keep"]), cz(case["cycleP"]), cz(case["fsize"]), cz(case["flushP"]), cbool(case["reuse"]), cz(hsz))


def c_ops(ops, sizes):
    out, k = [], 0
    for op in ops:
        if op[0] == "tick":
            out.append("(Tick %s)" % cz(op[1]))
        else:
            out.append("(%s %s)" % (op[0].capitalize(), clist([cz(z) for z in sizes[k]], "Z")))
            k += 1
    return clist(out, "op")


def c_model(case, sizes, hsz, upto=None):
    """state after all processes; the last one only up to op `upto` (crash before that op)"""
    cfg = c_cfg(case, hsz)
    expr = None
    procs = case["procs"]
    for i, ops in enumerate(procs):
        szs = sizes[i]
        if i == len(procs) - 1 and upto is not None:
            nctl = sum(1 for o in ops[:upto] if o[0] != "tick")
            ops, szs = ops[:upto], szs[:nctl]
        o = c_ops(ops, szs)
        if expr is None:
            expr = "(run %s 0 None %s)" % (cfg, o)
        else:
            expr = "(let p := %s in runfrom %s (init %s (now p) (files p) (next p) (dropped p) None) %s)" % (
                expr, cfg, cfg, o)
    if upto is None:
        expr = "(log_close %s)" % expr      # the harness closes the logger at the end of a clean run
    return expr


HEADER = """From Coq Require Import List ZArith Bool.
Import ListNotations.
Require Import V.C23.Model.
Open Scope Z_scope.
Definition it_eqb (a b : item) := match a, b with H, H => true | R i x, R j y => Nat.eqb i j && Z.eqb x y | _, _ => false end.
Fixpoint l_eqb {A} (e : A -> A -> bool) (a b : list A) := match a, b with [], [] => true | x::a', y::b' => e x y && l_eqb e a' b' | _, _ => false end.
Definition oc_eqb (a b : option content) := match a, b with Some x, Some y => l_eqb it_eqb x y | None, None => true | _, _ => false end.
Fixpoint pre_eqb (p b : content) := match p, b with [], _ => true | x :: p', y :: b' => it_eqb x y && pre_eqb p' b' | _, _ => false end.
(* survivors of a process death: the model's disk, main possibly extended by a prefix of the buffer *)
Definition adm (s : st) (impl : list (option content)) : bool :=
  match hbuf s with
  | None => l_eqb oc_eqb (files s) impl
  | Some b => l_eqb oc_eqb (removelast (files s)) (removelast impl) &&
              match last impl None with
              | Some m => let d := ocontent (mainf s) in
                          l_eqb it_eqb (firstn (length d) m) d && pre_eqb (skipn (length d) m) b
              | None => false
              end
  end.
Definition clean (s : st) (impl : list (option content)) : bool :=
  l_eqb oc_eqb (files s) impl && match hbuf s with None => true | Some _ => false end && negb (fault s).
"""


# ---------------------------------------------------------------- the property, executable
def spec_check(case, res, crashed, flushed_before=None):
    """the statement on the surviving files alone.  returns None | why"""
    files = res["files"]
    ids = []
    for f in files:
        if f is None:
            continue
        body = f
        if body:
            if body[0] != "H":
                return "a retained file does not start with the header: %r" % (body[:2],)
            if any(i == "H" for i in body[1:]):
                return "second header inside a file"
        for j, it in enumerate(body):
            if it != "H" and it[0] == "P" and not (crashed and f is files[-1] and j == len(body) - 1):
                return "garbled line %r" % (it,)
        ids += [it[1] for it in body if it != "H" and it[0] == "R"]
    if ids != list(range(ids[0], ids[0] + len(ids))) if ids else False:
        return "retained records are not a contiguous in-order stretch of the stream: %r" % ids
    n = res["nwritten"]
    if not crashed:
        # exactly the records since the (keep+1)-th most recent rotation are retained, up to the last one
        rot = res["spy"]["rot_at"]
        a = rot[-(case["keep"] + 1)] if len(rot) > case["keep"] else 0
        if ids != list(range(a, n)):
            return "retained ids %r..%r, expected %d..%d (all records since the rotation that many files ago)" % (
                ids[:1], ids[-1:], a, n - 1)
        since = rot[-1] if rot else 0
        newest = [it[1] for it in (files[-1] or []) if it != "H" and it[0] == "R"]
        if newest != list(range(since, n)):
            return "newest file holds %r, records since the last rotation are %d..%d" % (newest, since, n - 1)
    else:
        # rotations seen by the dying process (main renames of ITS rotations only): records may be missing
        # only because they were rotated out beyond keep (a rotation in progress may already have overwritten
        # the oldest copy)
        rot, kp = res["spy"]["rot_at"], case["keep"]
        a_max = (rot[-kp] if len(rot) >= kp else 0) if kp else 0
        if len(case["procs"]) == 1:
            if ids and ids[0] > a_max:
                return "records before %d are gone although not rotated out (rotations at %r)" % (ids[0], rot)
            if flushed_before and flushed_before - 1 >= a_max and (not ids or ids[-1] < flushed_before - 1):
                return "record %d was written before the most recent flush but is not in the files (ids end %r)" % (
                    flushed_before - 1, ids[-3:])
        elif ids and flushed_before and ids[-1] < flushed_before - 1:
            return "record %d was written before the most recent flush but is not in the files (ids end %r)" % (
                flushed_before - 1, ids[-3:])
    for size, before, renamed in res["spy"]["cycles"]:
        if renamed and size and before is not None and before < size:
            return "rotated at size %d < threshold %d" % (before, size)
    # the newest file holds every record since the last rotation
    return None


# ---------------------------------------------------------------- generators
def gen_ops(rng, n, restarts=True):
    ops = [["start", rng.randint(0, 3)]]
    active = True
    for _ in range(n):
        r = rng.random()
        if r < 0.4:
            ops.append(["tick", rng.choice([1, 1, 1, 2, 3, 8])])
        elif r < 0.92 or not restarts:
            if active:
                ops.append(["run", rng.choice([0, 1, 1, 1, 2, 4])])
        else:
            if active:
                ops.append(["stop", rng.randint(0, 2)])
                active = False
            else:
                ops.append(["start", rng.randint(0, 2)])
                active = True
    return ops, active


def gen_case(rng, size=30):
    keep = rng.choice([0, 1, 1, 2, 2, 3])
    case = {"keep": keep, "cycleP": rng.choice([1, 2, 4, 4, 8]), "fsize": rng.choice([0, 0, 10, 40, 60, 120]),
            "flushP": rng.choice([8, 8, 12, 24]), "reuse": rng.random() < 0.5, "procs": []}
    nproc = rng.choice([1, 1, 2, 3]) if case["reuse"] else 1
    for i in range(nproc):
        ops, active = gen_ops(rng, rng.randint(3, size))
        if active and (i < nproc - 1 or rng.random() < 0.7):
            ops.append(["stop", rng.randint(0, 2)])
        elif active:
            pass
        case["procs"].append(ops)
    return case


def run(ctx):
    ctx.rule = ("configurations (keep 0-3, cyclePeriod, fileSize threshold, flushPeriod, reuse) x histories of ticks "
                "and logger controls with 0-4 records per run, 1-3 successive Logger processes on the same "
                "directory when reuse; retained files after the run compared with the model's disk; crash cases: "
                "child process killed (os._exit) before op k, survivors compared with the model's admissible set; "
                "non-trivial = at least one rotation happened or a crash with unflushed records")
    ctx.assumptions = [
        "process death only (os._exit): what was handed to the OS by flush()/close() survives; no power loss",
        "one streak Log per Logger, record ids 0,1,2,... are the stream; store.stamp = tick/8 s",
        "no OSError from the file system other than the missing-source rename modelled as `fault`",
    ]
    ctx.coq_build("C23/Props.v")
    work = ctx.work

    pairs, metas = [], []
    # 1. clean runs, in process
    cases = []
    base = [["start", 1]] + sum([[["tick", 1], ["run", 1]] for _ in range(16)], []) + [["tick", 1], ["stop", 1]]
    for reuse in (False, True):
        cases.append({"keep": 2, "cycleP": 4, "fsize": 10, "flushP": 24, "reuse": reuse, "procs": [base]})
    for _ in range(ctx.n(500, 6000)):
        cases.append(gen_case(ctx.rng))
    for case in cases:
        res = harness.run_case(case, work)
        nrot = sum(1 for c in res["spy"]["cycles"] if c[2])
        ctx.case({"case": case, "files": res["files"]}, nontrivial=nrot > 0, kind="clean:keep=%d" % case["keep"])
        metas.append((case, res, None, None))
        try:
            pairs.append((c_model(case, res["sizes"], res["hsz"]) , c_files(res["files"]), "clean"))
        except ValueError as ex:
            pairs.append(None)
            ctx.tie_broken("correspondence", "C23 garbled file", "%s %s" % (json.dumps(case), ex))

    # 2. crashes at op granularity, in child processes
    ncr = 0
    crash_cases = []
    for _ in range(ctx.n(6, 40)):
        case = gen_case(ctx.rng, size=14)
        last = case["procs"][-1]
        ks = list(range(1, len(last) + 1))
        if not ctx.thorough:
            ks = ctx.rng.sample(ks, min(4, len(ks)))
        for k in ks:
            crash_cases.append(dict(case, crash=k))
    # 3. crashes inside the rename chain / with spilling buffers: property statement only
    for _ in range(ctx.n(4, 40)):
        case = gen_case(ctx.rng, size=20)
        case["keep"] = max(case["keep"], 2)
        case["fsize"] = 0
        case["cycleP"] = 2
        crash_cases.append(dict(case, crash_rename=ctx.rng.randint(1, 6), when=ctx.rng.choice(["before", "after"])))
    for _ in range(ctx.n(2, 20)):
        case = gen_case(ctx.rng, size=14)
        case["big"] = True
        case["fsize"] = ctx.rng.choice([0, 4000])
        last = case["procs"][-1]
        crash_cases.append(dict(case, crash=ctx.rng.randint(2, len(last))))

    for i, case in enumerate(crash_cases):
        wd = os.path.join(work, "cr%d" % i)
        os.makedirs(wd, exist_ok=True)
        script = os.path.join(os.path.dirname(os.path.abspath(__file__)), "harness.py")
        from vlib import sh, PY, impl_env
        rc, out = sh([PY, script], timeout=120, env=impl_env(ctx.repo), cwd=wd, input=json.dumps(case))
        prefix = os.path.join(wd, "lg")
        files = harness.read_files(case, prefix)
        side = os.path.join(wd, "side.txt")
        flushed, rot = 0, []
        if os.path.exists(side):
            for ln in open(side).read().splitlines():
                k, v = ln.split()
                if k == "F":
                    flushed = int(v)
                else:
                    rot.append(int(v))
        sizes = harness.predicted_sizes(case)
        res = {"files": files, "sizes": sizes, "hsz": len(harness.HDR), "nwritten": None,
               "spy": {"fsync": [], "cycles": [], "rot_at": rot}, "survived": "survived" in out, "flushed": flushed}
        spill = case.get("big") or case.get("crash_rename") is not None
        nbuf = sum(len(z) for z in sizes[-1]) if sizes else 0
        ctx.case({"case": case, "files": files}, nontrivial=True,
                 kind="crash:%s" % ("rename" if case.get("crash_rename") else "big" if case.get("big") else "op"))
        metas.append((case, res, True, flushed))
        if spill or "survived" in out:
            pairs.append(None)
            continue
        try:
            pairs.append((c_model(case, sizes, res["hsz"], upto=case["crash"]), c_files(files), "adm"))
        except ValueError as ex:
            pairs.append(None)
            ctx.tie_broken("correspondence", "C23 garbled surviving file", "%s %s" % (json.dumps(case), ex))
        ncr += 1

    idx_clean = [i for i, p in enumerate(pairs) if p and p[2] == "clean"]
    idx_adm = [i for i, p in enumerate(pairs) if p and p[2] == "adm"]
    bad = []
    if idx_clean:
        b = ctx.coq_cases(HEADER, "(fun (s : st) (f : list (option content)) => clean s f)",
                          [(pairs[i][0], pairs[i][1]) for i in idx_clean], name="clean")
        bad += [idx_clean[j] for j in b]
    if idx_adm:
        b = ctx.coq_cases(HEADER, "(fun (s : st) (f : list (option content)) => adm s f)",
                          [(pairs[i][0], pairs[i][1]) for i in idx_adm], name="adm")
        bad += [idx_adm[j] for j in b]
    for i in bad[:5]:
        case, res, crashed, _ = metas[i]
        ctx.tie_broken("correspondence", "C23 model vs Logger/Log files",
                       "case=%s impl_files=%s" % (json.dumps(case), json.dumps(res["files"])))
    ctx.extra["mismatches"] = len(bad)
    ctx.extra["crash_children"] = len(crash_cases)
    ctx.exhaustive = False

    # the implementation alone against the statement -- always evaluated (a failure here is a broken tie too)
    fails = []
    for case, res, crashed, flushed in metas:
        if crashed and res.get("survived"):
            continue
        why = spec_check(case, res, bool(crashed), flushed)
        if why:
            fails.append((case, res, why))
    if fails:
        case, res, why = min(fails, key=lambda f: sum(len(p) for p in f[0]["procs"]))
        ctx.tie_broken("statement", "C23 property statement fails on the implementation",
                       "case=%s files=%s: %s" % (json.dumps(case), json.dumps(res["files"]), why))

    def search():
        if not fails:
            return None
        case, res, why = min(fails, key=lambda f: sum(len(p) for p in f[0]["procs"]))
        return {"case": case, "impl_files": res["files"], "why": why,
                "contradicts": "C23.Props.retained_contiguous / crash_keeps_flushed"}

    ctx.settle(search)
