"""
C23 harness: drive the real ioflo Logger (rotation: keep / cyclePeriod / fileSize, flushPeriod, reuse) with
one or several Logs of different rules; every log's records carry that log's own ids 0,1,2,... ; read the
retained files of every log back.

case = {"keep": int, "cycleP": ticks, "fsize": bytes, "flushP": ticks (>= 8), "reuse": bool,
        "logs": ["streak"] | e.g. ["once", "always", "update"]   (distinct rules; default ["streak"])
        "procs": [ [op...], ... ]      one op list per Logger "process" (fresh House/Logger/Log objects on the
                                       same prefix; only the last one may crash)
        "crash": None | k              the last process dies (os._exit) just before its k-th op
        "crash_rename": None | n       ... or inside its n-th os.rename call (before / after it: "when")
        "big": bool                    long record payloads (forces Python's buffer to spill)
        "fail_rename": None | N        fault injection: the N-th os.rename call of the run raises OSError
        "fail_open": None | J          fault injection: the J-th ocfn(path, 'w+') (creation of the new main file
                                       in Log.cycle) raises IOError; an exception leaving logger.runner.send is
                                       recorded in result["surfaced"] and ends the run
        "create_level": None | "os.open"  with fail_open J: the fault is injected one level lower and located by
                                       what happened on the disk, not by counting ocfn calls: once the J-th
                                       os.rename(main, copy01) has SUCCEEDED, the next os.open of the main path
                                       raises OSError(EMFILE) -- exactly once (transient: every later open works)}
op   = ["tick", d] | [ctl, n, wants]   ctl = start|run|stop; n = elements queued on a streak log before the
                                       control; wants[j] = update the share of update/change log j first
time unit = 1/8 s.
What each log writes per control is PLANNED here without ioflo (plan()): streak n records; always 1; once 1 at
the first control of a process; update/change 1 at the first control of a process and whenever their share is
updated (update: only if a tick passed since the previous control -- C22's known finding is avoided; change:
not at a restart START, where prepare() re-bases lasts).  The files are parsed, so a wrong plan shows up.
result = {"files": [per log: [f_keep, ..., f_1, f_main]]  (oldest first; None = missing; else [item...],
                    item = "H" | ["R", id, size] | ["P", text] (partial / foreign line)),
          "sizes": [per proc: [per control: [per log: [size...]]]], "hsz": int, "nwritten": [per log],
          "spy": {"flushed": [per log], "rot_at": [per log: [...]], "cycles": [[log, size_arg, size_before, renamed]]}}
"""
import collections.abc  # noqa: F401
import glob
import json
import os
import shutil
import sys

DT = 0.125
NAMES = {"streak": ("Streak", "ls"), "always": ("Always", "la"), "update": ("Update", "lu"),
         "change": ("Change", "lc"), "once": ("Once", "lo00")}


def hdr(rule):
    return "text\t%s\t%s\n_time\tq\n" % NAMES[rule]


HSZ = len(hdr("streak"))
assert all(len(hdr(r)) == HSZ for r in NAMES)


def payload(rid, big):
    return ("%d" % rid) if not big else ("%d" % rid).rjust(1500, "0")


def rec_line(stamp, rid, big):
    return "%s\t%s\n" % (stamp, payload(rid, big))


def rules_of(case):
    return case.get("logs") or ["streak"]


def plan(case):
    """per proc, per op: None (tick) | {"ctl", "acts": [per log], "ids": [per log], "sizes": [per log]}"""
    rules = rules_of(case)
    big = case.get("big", False)
    cur = [0] * len(rules)
    t = 0
    out = []
    for ops in case["procs"]:
        po = []
        firstctl = True
        ticked = True
        for op in ops:
            if op[0] == "tick":
                t += op[1]
                ticked = True
                po.append(None)
                continue
            wants = op[2] if len(op) > 2 else [True] * len(rules)
            acts, ids = [], []
            for j, r in enumerate(rules):
                w = wants[j] if j < len(wants) else True
                if r == "streak":
                    n = list(range(cur[j], cur[j] + op[1]))
                    acts.append(("append", n))
                elif r == "always":
                    n = [cur[j]]
                    acts.append(("set", cur[j]))
                elif r == "once":
                    n = [cur[j]] if firstctl else []
                    acts.append(("set", cur[j]) if firstctl else None)
                elif r == "update":
                    if firstctl:
                        n = [cur[j]]
                        acts.append(("set", cur[j]))
                    elif w and ticked:
                        n = [cur[j]]
                        acts.append(("update", cur[j]))
                    else:
                        n = []
                        acts.append(None)
                elif r == "change":
                    if firstctl or (w and op[0] != "start"):
                        n = [cur[j]]
                        acts.append(("set", cur[j]))
                    else:
                        n = []
                        acts.append(None)
                else:
                    raise ValueError(r)
                ids.append(n)
                cur[j] += len(n)
            po.append({"ctl": op[0], "acts": acts, "ids": ids,
                       "sizes": [[len(rec_line(t * DT, i, big)) for i in n] for n in ids]})
            firstctl = False
            ticked = False
        out.append(po)
    return out


def sizes_of(pl):
    return [[o["sizes"] for o in po if o is not None] for po in pl]


def _mk():
    from ioflo.base import housing
    from ioflo.aid.consoling import getConsole
    getConsole().reinit(verbosity=0)
    housing.House.Clear()
    housing.ClearRegistries()
    house = housing.House(name="HouseC23")
    house.assignRegistries()
    return house


class Spy(object):
    def __init__(self, nlogs):
        self.nw = [0] * nlogs          # records written per log
        self.flushed = [0] * nlogs     # ... at that log's most recent COMPLETED flush (Log.flush / Logger.flush)
        self.rot_at = [[] for _ in range(nlogs)]   # stream position at every rename of that log's main file
        self.cycles = []
        self.renames = 0
        self.fail_rename = None        # the N-th os.rename call raises OSError (injected fault)
        self.fail_open = None          # the J-th ocfn(.., 'w+') raises IOError (injected fault)
        self.opens = 0
        self.fail_create = None        # after the J-th successful rename of a main file: its next os.open raises once
        self.main_renames = 0
        self.armed = None              # abspath of the main file whose next os.open fails
        self.fired = 0                 # injected os.open failures (0 or 1)
        self.cur_op = None             # index of the op being executed
        self.fault_op = None           # ... when the creation of the new main file was made to fail
        self.surfaced = None           # {"op": k, "exc": name, "nw_before": [...]} when an exception left the runner
        self.overwrites = []           # renames that overwrote a NON-oldest copy holding records: [log, name, ids]
        self.legit_dropped = None      # per log: highest record id discarded by overwriting the OLDEST copy
        self.rules = []
        self.keep = 0
        self.crash_rename = None
        self.when = "before"
        self.side = None
        self.index = {}                # Log.name -> index


def run_proc(case, ops, po, prefix, t0, spy, crash_at=None):
    from ioflo.base import logging, globaling
    rules = rules_of(case)
    house = _mk()
    store = house.store
    store.changeStamp(t0 * DT)
    logger = logging.Logger(name="L", store=store, schedule=globaling.ACTIVE, prefix=prefix,
                            flushPeriod=case["flushP"] * DT, keep=case["keep"],
                            cyclePeriod=case["cycleP"] * DT, fileSize=case["fsize"], reuse=case["reuse"])
    big = case.get("big", False)
    shares = []
    for j, r in enumerate(rules):
        sh = store.create("c23.v%d" % j)
        sh.change(value=[] if r == "streak" else "-")
        shares.append(sh)
        log = logging.Log(name=NAMES[r][1], store=store, kind="text", baseFilename="",
                          rule=globaling.LogRuleValues[NAMES[r][0]])
        log.addLoggee(tag="q", loggee="c23.v%d" % j)
        logger.addLog(log)
        spy.index[log.name] = j
    logger.resolve()
    for k, op in enumerate(ops):
        if crash_at is not None and k == crash_at:
            os._exit(0)
        if op[0] == "tick":
            store.advanceStamp(op[1] * DT)
            continue
        p = po[k]
        spy.cur_op = k
        nw_before = list(spy.nw)
        for j, act in enumerate(p["acts"]):
            if act is None:
                continue
            if act[0] == "append":
                for i in act[1]:
                    shares[j].value.append(payload(i, big))
            elif act[0] == "set":
                shares[j].change(value=payload(act[1], big))
            else:
                shares[j].update(value=payload(act[1], big))
            spy.nw[j] += len(p["ids"][j])
        try:
            logger.runner.send({"start": globaling.START, "run": globaling.RUN, "stop": globaling.STOP}[op[0]])
        except Exception as ex:      # the failure surfaces: the runner is dead, the logger ABORTED
            spy.surfaced = {"op": k, "exc": type(ex).__name__, "nw_before": nw_before}
            break
    if crash_at is not None and crash_at >= len(ops):
        os._exit(0)
    logger.close()
    return int(round(store.stamp / DT))


def install_spies(spy):
    from ioflo.base import logging
    real_rename, real_cycle, real_osopen = os.rename, logging.Log.cycle, os.open
    real_lflush, real_gflush = logging.Log.flush, logging.Logger.flush

    def note(line):
        if spy.side:
            os.write(spy.side, line.encode() + b"\n")

    def lflush(self):
        opened = bool(self.file and not self.file.closed)
        real_lflush(self)
        j = spy.index.get(self.name)
        if opened and j is not None:
            spy.flushed[j] = spy.nw[j]
            note("L %d %d" % (j, spy.nw[j]))

    def gflush(self):
        real_gflush(self)
        # a completed Logger.flush(): the statement promises every log's records so far are in its files
        for log in self.logs:
            j = spy.index.get(log.name)
            if j is not None and log.file and not log.file.closed:
                spy.flushed[j] = spy.nw[j]
                note("L %d %d" % (j, spy.nw[j]))

    def which(path):
        base = os.path.basename(path)
        for nm, j in spy.index.items():
            if base == nm + ".txt":
                return j, True
            if base.startswith(nm) and base[len(nm):len(nm) + 2].isdigit() and base.endswith(".txt") \
                    and len(base) == len(nm) + 6:
                return j, False
        return None, False

    def rename(a, b):
        spy.renames += 1
        if spy.crash_rename is not None and spy.renames == spy.crash_rename and spy.when == "before":
            os._exit(0)
        if spy.fail_rename is not None and spy.renames == spy.fail_rename:
            raise OSError(13, "injected rename failure", a)
        jb, _ = which(b)
        if jb is not None and os.path.exists(a) and os.path.exists(b):
            try:
                with open(b) as f:
                    lost = [it[1] for it in parse(f.read(), spy.rules[jb]) if it != "H" and it[0] == "R"]
            except Exception:
                lost = []
            nm = NAMES[spy.rules[jb]][1]
            if os.path.basename(b) == "%s%02d.txt" % (nm, spy.keep):
                if lost:
                    spy.legit_dropped[jb] = max(spy.legit_dropped[jb], max(lost))
            elif lost:
                spy.overwrites.append([jb, os.path.basename(b), lost])
        real_rename(a, b)
        j, ismain = which(a)
        if ismain:
            for c in reversed(spy.cycles):
                if c[0] == j:
                    c[3] = True
                    break
            spy.rot_at[j].append(spy.nw[j])
            note("R %d %d" % (j, spy.nw[j]))
            spy.main_renames += 1
            if spy.fail_create is not None and spy.main_renames == spy.fail_create and not spy.fired:
                spy.armed = os.path.abspath(a)
        if spy.crash_rename is not None and spy.renames == spy.crash_rename and spy.when == "after":
            os._exit(0)

    def cycle(self, size=0):
        try:
            self.flush()
            before = os.path.getsize(self.path) if self.paths else None
        except Exception:
            before = None
        spy.cycles.append([spy.index.get(self.name), size, before, False])
        return real_cycle(self, size=size)

    real_ocfn = logging.ocfn

    def ocfn(filename, openMode='r+', binary=False):
        if openMode == 'w+':
            spy.opens += 1
            if spy.fail_open is not None and spy.opens == spy.fail_open:
                spy.fault_op = spy.cur_op
                raise IOError(24, "injected open failure", filename)
        return real_ocfn(filename, openMode, binary)

    def osopen(path, flags, *pa, **kwa):
        if spy.armed is not None and isinstance(path, str) and os.path.abspath(path) == spy.armed:
            spy.armed = None
            spy.fired += 1
            spy.fault_op = spy.cur_op
            raise OSError(24, "injected: too many open files", path)
        return real_osopen(path, flags, *pa, **kwa)

    os.rename, logging.Log.cycle = rename, cycle
    os.open = osopen
    logging.ocfn = ocfn
    logging.Log.flush, logging.Logger.flush = lflush, gflush

    def undo():
        os.rename, logging.Log.cycle = real_rename, real_cycle
        os.open = real_osopen
        logging.ocfn = real_ocfn
        logging.Log.flush, logging.Logger.flush = real_lflush, real_gflush
    return undo


def parse(text, rule):
    items = []
    pos = 0
    h = hdr(rule)
    while pos < len(text):
        if text.startswith(h, pos):
            items.append("H")
            pos += len(h)
            continue
        nl = text.find("\n", pos)
        if nl < 0:
            items.append(["P", text[pos:pos + 40]])
            break
        ln = text[pos:nl + 1]
        parts = ln[:-1].split("\t")
        try:
            float(parts[0])
            rid = int(parts[1])
            if len(parts) != 2:
                raise ValueError
            items.append(["R", rid, len(ln)])
        except (ValueError, IndexError):
            items.append(["P", ln[:40]])
        pos = nl + 1
    return items


def read_files(case, prefix):
    rules = rules_of(case)
    dirs = sorted(glob.glob(os.path.join(prefix, "HouseC23", "*")))
    out = []
    for r in rules:
        nm = NAMES[r][1]
        fl = []
        for name in ["%s%02d.txt" % (nm, k) for k in range(case["keep"], 0, -1)] + [nm + ".txt"]:
            p = os.path.join(dirs[-1], name) if dirs else None
            if p is None or not os.path.exists(p):
                fl.append(None)
            else:
                with open(p) as f:
                    fl.append(parse(f.read(), r))
        out.append(fl)
    return out


def run_case(case, workdir, child=False):
    """in-process (no crash) or, in a child, with crash"""
    prefix = os.path.join(workdir, "lg")
    if not child:
        shutil.rmtree(prefix, ignore_errors=True)
    rules = rules_of(case)
    spy = Spy(len(rules))
    spy.rules = rules
    spy.keep = case["keep"]
    spy.legit_dropped = [-1] * len(rules)
    spy.fail_rename = case.get("fail_rename")
    if case.get("create_level") == "os.open":
        spy.fail_create = case.get("fail_open")
    else:
        spy.fail_open = case.get("fail_open")
    undo = install_spies(spy)
    pl = plan(case)
    try:
        t = 0
        procs = case["procs"]
        for i, ops in enumerate(procs):
            last = i == len(procs) - 1
            if last and child:
                spy.crash_rename = case.get("crash_rename")
                spy.when = case.get("when", "before")
                spy.side = os.open(os.path.join(workdir, "side.txt"), os.O_WRONLY | os.O_CREAT | os.O_TRUNC)
                for j in range(len(rules)):
                    os.write(spy.side, b"L %d %d\n" % (j, spy.nw[j]))
            t = run_proc(case, ops, pl[i], prefix, t, spy, crash_at=case.get("crash") if (last and child) else None)
            if spy.surfaced:
                break
    finally:
        undo()
    return {"files": read_files(case, prefix), "sizes": sizes_of(pl), "hsz": HSZ, "nwritten": list(spy.nw),
            "surfaced": spy.surfaced, "opens": spy.opens, "fired": spy.fired, "fault_op": spy.fault_op,
            "spy": {"flushed": spy.flushed, "cycles": spy.cycles, "rot_at": spy.rot_at,
                    "overwrites": spy.overwrites, "legit_dropped": spy.legit_dropped, "renames": spy.renames}}


if __name__ == "__main__":
    case = json.load(sys.stdin)
    run_case(case, os.getcwd(), child=True)
    print("survived")
