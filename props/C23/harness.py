"""
C23 harness: drive the real ioflo Logger (rotation: keep / cyclePeriod / fileSize, flushPeriod, reuse) with
one `streak` Log whose queue receives the record ids 0,1,2,... ; read the retained files back.

case = {"keep": int, "cycleP": ticks, "fsize": bytes, "flushP": ticks (>= 8), "reuse": bool,
        "procs": [ [op...], ... ]      one op list per Logger "process" (fresh House/Logger/Log objects on the
                                       same prefix; only the last one may crash)
        "crash": None | k              the last process dies (os._exit) just before its k-th op
        "crash_rename": None | n       ... or inside its n-th os.rename call (before / after it: "when")
        "big": bool                    long record payloads (forces Python's buffer to spill)}
op   = ["tick", d] | ["start", n] | ["run", n] | ["stop", n]      n = records queued before the control
time unit = 1/8 s.
result = {"files": [f_keep, ..., f_1, f_main]  (oldest first; None = missing;
                    else [item...], item = "H" | ["R", id, size] | ["P", text] (partial trailing line)),
          "sizes": [[size per record] per control op of the last proc...], "hsz": int,
          "spy": {"fsync": [nwritten...], "cycles": [[size_arg, main_size_before, renamed?], ...]}}
"""
import collections.abc  # noqa: F401
import glob
import json
import os
import shutil
import sys

DT = 0.125
HDR = "text\tStreak\tlg\n_time\tq\n"


def rec_line(stamp, rid, big):
    pay = ("%d" % rid) if not big else ("%d" % rid).rjust(1500, "0")
    return "%s\t%s\n" % (stamp, pay)


def _mk():
    from ioflo.base import housing
    from ioflo.aid.consoling import getConsole
    getConsole().reinit(verbosity=0)
    housing.House.Clear()
    housing.ClearRegistries()
    house = housing.House(name="HouseC23")
    house.assignRegistries()
    return house


class Spy(object):
    def __init__(self):
        self.nwritten = 0
        self.fsync = []
        self.cycles = []
        self.rot_at = []      # stream position (records written) at every rename of the main file
        self.renames = 0
        self.crash_rename = None
        self.when = "before"
        self.side = None


def run_proc(case, ops, prefix, t0, next_id, spy, crash_at=None):
    """one Logger 'process'.  returns (tick, next_id, sizes)"""
    from ioflo.base import logging, globaling
    house = _mk()
    store = house.store
    store.changeStamp(t0 * DT)
    logger = logging.Logger(name="L", store=store, schedule=globaling.ACTIVE, prefix=prefix,
                            flushPeriod=case["flushP"] * DT, keep=case["keep"],
                            cyclePeriod=case["cycleP"] * DT, fileSize=case["fsize"], reuse=case["reuse"])
    q = store.create("c23.q").update(value=[])
    log = logging.Log(name="lg", store=store, kind="text", baseFilename="", rule=globaling.STREAK)
    log.addLoggee(tag="q", loggee="c23.q")
    logger.addLog(log)
    logger.resolve()
    big = case.get("big", False)
    sizes = []
    for k, op in enumerate(ops):
        if crash_at is not None and k == crash_at:
            os._exit(0)
        if op[0] == "tick":
            store.advanceStamp(op[1] * DT)
            continue
        szs = []
        for _ in range(op[1]):
            q.value.append(("%d" % next_id) if not big else ("%d" % next_id).rjust(1500, "0"))
            szs.append(len(rec_line(store.stamp, next_id, big)))
            next_id += 1
        spy.nwritten = next_id
        sizes.append(szs)
        logger.runner.send({"start": globaling.START, "run": globaling.RUN, "stop": globaling.STOP}[op[0]])
    if crash_at is not None and crash_at >= len(ops):
        os._exit(0)
    logger.close()
    return int(round(store.stamp / DT)), next_id, sizes, logger.path


def install_spies(spy):
    from ioflo.base import logging
    real_fsync, real_rename, real_cycle = os.fsync, os.rename, logging.Log.cycle

    def fsync(fd):
        real_fsync(fd)
        spy.fsync.append(spy.nwritten)
        if spy.side:
            os.write(spy.side, b"F %d\n" % spy.nwritten)

    def rename(a, b):
        spy.renames += 1
        if spy.crash_rename is not None and spy.renames == spy.crash_rename and spy.when == "before":
            os._exit(0)
        real_rename(a, b)
        if not a[-6:-4].isdigit():
            if spy.cycles:
                spy.cycles[-1][2] = True
            spy.rot_at.append(spy.nwritten)
            if spy.side:
                os.write(spy.side, b"R %d\n" % spy.nwritten)
        if spy.crash_rename is not None and spy.renames == spy.crash_rename and spy.when == "after":
            os._exit(0)

    def cycle(self, size=0):
        try:
            self.flush()
            before = os.path.getsize(self.path) if self.paths else None
        except Exception:
            before = None
        spy.cycles.append([size, before, False])
        return real_cycle(self, size=size)

    os.fsync, os.rename, logging.Log.cycle = fsync, rename, cycle
    return lambda: (setattr(os, "fsync", real_fsync), setattr(os, "rename", real_rename),
                    setattr(logging.Log, "cycle", real_cycle))


def parse(text, big):
    items = []
    pos = 0
    while pos < len(text):
        if text.startswith(HDR, pos):
            items.append("H")
            pos += len(HDR)
            continue
        nl = text.find("\n", pos)
        if nl < 0:
            items.append(["P", text[pos:pos + 40]])
            break
        ln = text[pos:nl + 1]
        parts = ln[:-1].split("\t")
        try:
            float(parts[0])
            rid = int(parts[1])
            if len(parts) != 2:
                raise ValueError
            items.append(["R", rid, len(ln)])
        except (ValueError, IndexError):
            items.append(["P", ln[:40]])
        pos = nl + 1
    return items


def read_files(case, prefix):
    dirs = sorted(glob.glob(os.path.join(prefix, "HouseC23", "*")))
    files = [None] * (case["keep"] + 1)
    if not dirs:
        return files
    d = dirs[-1]
    names = ["lg%02d.txt" % k for k in range(case["keep"], 0, -1)] + ["lg.txt"]
    out = []
    for nm in names:
        p = os.path.join(d, nm)
        if not os.path.exists(p):
            out.append(None)
        else:
            with open(p) as f:
                out.append(parse(f.read(), case.get("big", False)))
    return out


def run_case(case, workdir, child=False):
    """in-process (no crash) or, in a child, with crash"""
    prefix = os.path.join(workdir, "lg")
    if not child:
        shutil.rmtree(prefix, ignore_errors=True)
    spy = Spy()
    undo = install_spies(spy)
    try:
        t, nid = 0, 0
        allsizes = []
        procs = case["procs"]
        for i, ops in enumerate(procs):
            last = i == len(procs) - 1
            if last and child:
                spy.crash_rename = case.get("crash_rename")
                spy.when = case.get("when", "before")
                spy.side = os.open(os.path.join(workdir, "side.txt"), os.O_WRONLY | os.O_CREAT | os.O_TRUNC)
                os.write(spy.side, b"F %d\n" % nid)
            t, nid, sizes, _ = run_proc(case, ops, prefix, t, nid, spy,
                                        crash_at=case.get("crash") if (last and child) else None)
            allsizes.append(sizes)
    finally:
        undo()
    res = {"files": read_files(case, prefix), "sizes": allsizes, "hsz": len(HDR), "nwritten": nid,
           "spy": {"fsync": spy.fsync, "cycles": spy.cycles, "rot_at": spy.rot_at}}
    return res


def predicted_sizes(case):
    """record sizes per control op, computed without running ioflo (for crashed children)"""
    t, nid, out = 0, 0, []
    for ops in case["procs"]:
        po = []
        for op in ops:
            if op[0] == "tick":
                t += op[1]
                continue
            szs = []
            for _ in range(op[1]):
                szs.append(len(rec_line(t * DT, nid, case.get("big", False))))
                nid += 1
            po.append(szs)
        out.append(po)
    return out


if __name__ == "__main__":
    case = json.load(sys.stdin)
    run_case(case, os.getcwd(), child=True)
    print("survived")
