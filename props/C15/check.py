"""
C15 -- optional clauses of a command may appear in any order.

Tie T : props/C15/translate.py extracts from the AST of building.py, on every run, the clause
        table of every option loop named in the property (connectives, clause kinds recognised
        from the shape of each branch, name-part terminator lists, Reserved)
        -> coq/gen/C15_Tables.v
Tie H : coq/C15/Model.v -- one generic clause-loop interpreter + the token-consumption rules of
        the helper parsers; theorems in coq/C15/Props.v (clause_perm_invariant, no_absorb for all
        tables; tables_wf by vm_compute over the generated tables).
Correspondence: generated commands of every verb, ALL permutations of their clauses, built by the
        real Builder (script text in temp files under ctx.work / an in-memory file double).
        For every command the vector "permutation i builds the same thing as the written order"
        of the implementation must equal the vector "permutation i has the same clause map" of the
        model: the builder's outcome is a function of the model's clause map.
"""
import itertools
import json
import os
import sys

HERE = os.path.dirname(os.path.abspath(__file__))
sys.path.insert(0, HERE)
import translate  # noqa: E402   (props/C15/translate.py)
sys.path.append(os.path.join(HERE, "..", "C16"))    # flolib (shared Builder harness)

LEVEL = "proof"

HEADER = """From Coq Require Import String.
From Coq Require Import List ZArith Bool.
Import ListNotations.
Require Import V.Lib.C16_Str V.C15.Kinds V.C15.Model V.gen.C15_Tables.
Open Scope Z_scope.
Fixpoint leqb {A} (e : A -> A -> bool) (a b : list A) : bool :=
  match a, b with [], [] => true | x :: a', y :: b' => e x y && leqb e a' b' | _, _ => false end.
Definition oeqb {A} (e : A -> A -> bool) (a b : option A) : bool :=
  match a, b with Some x, Some y => e x y | None, None => true | _, _ => false end.
Definition w_eqb := leqb Z.eqb.
Definition res_eqb := oeqb (fun a b : list str * list (option (list str)) * list str =>
  leqb w_eqb (fst (fst a)) (fst (fst b)) && leqb (oeqb (leqb w_eqb)) (snd (fst a)) (snd (fst b))
  && leqb w_eqb (snd a) (snd b)).
Definition T (l : list string) : list str := map zs l.
Definition R (V : verb) (l : list string) := result V (parse_cmd gen_reserved V (T l)).
Definition same (V : verb) (ps : list (list string)) : list bool :=
  match ps with [] => [] | p0 :: _ => map (fun p => res_eqb (R V p) (R V p0)) ps end.
Definition bl_eqb := leqb Bool.eqb.
"""

# ---------------------------------------------------------------------------------------------
# scripts: {CMD} is the command under test
# ---------------------------------------------------------------------------------------------
S_FRAMER = "house h\nframer main be active first m0\nframe m0\n{CMD}\nframe s\nframe s2\n"
S_FRAME = "house h\nframer t be active first over\nframe over\n{CMD}\n"
S_DO = "house h\nframer t be active first f0\nframe f0\n{CMD}\n"
S_LOGGER = "house h\n{CMD}\n"
S_LOG = "house h\nlogger lg to /tmp/ioflo_c15/\n{CMD}\nloggee .a.b\n"
S_SERVER = ("house h\ninit .x.y to value 5\ninit .cfg.srv with period 0.5\n"
            "init .cfg.two with period 0.25 prefix \"/tmp/ioflo_c15/for\"\n{CMD}\n")
S_AUX = ("house h\nframer helper be aux first h0\nframe h0\nframer helper2 be moot first g0\nframe g0\n"
         "framer t be active first f0\nframe f0\n{CMD}\n")
S_REAR = ("house h\nframer orig be moot first o0\nframe o0\nframer t be active first f0\nframe f1\nframe f0\n{CMD}\n")
S_NEED = "house h\nframer t be active first f0\nframe f0\n{CMD}\nframe f1\n"

# verb -> (table name, script, command prefix tokens, {connective: [bodies]}, tails)
VERBS = {
    "framer": ("verb_framer", S_FRAMER, ["framer", "t"], {
        "at": [["0.5"], ["4.0"], ["0.0"]], "be": [["inactive"], ["active"], ["slave"]], "in": [["front"], ["back"]],
        "first": [["s"], ["s2"]],
        "via": [[".n.a"], ["n", "of", "framer"], ["n", "of", "me"], ["n", "of", "frame"]]}, [[]]),
    "frame": ("verb_frame", S_FRAME, ["frame", "x"], {
        "in": [["over"]], "via": [[".n"], ["n", "of", "framer"], ["n", "of", "frame"], ["n", "of", "frame", "over"]]}, [[]]),
    "do": ("verb_do", S_DO, ["do", "doer", "param"], {
        "as": [["my", "name"], ["n"]], "at": [["enter"]],
        "via": [[".p"], ["p", "of", "framer"], ["p", "of", "me"], ["p", "of", "frame", "f0"]],
        "with": [["a", "1"], ["5"], ["a", "1", "b", "2"]],
        "from": [["v", "in", ".s"], [".s"], ["v", "w", "in", "s", "of", "me"]],
        "per": [["c", "c3"], ["color", "red"], ["c", "3"]], "for": [["u", "in", ".q"], [".q"]],
        "cum": [["d", "4"]], "qua": [["z", "in", ".r"]]}, [[]]),
    "logger": ("verb_logger", S_LOGGER, ["logger", "lg"], {
        # numeric values chosen so that clauses COULD interact: period above and below flush / cycle,
        # flush below and above its 1.0 floor, zero and non-zero keep / size
        "at": [["4.0"], ["0.5"]], "to": [["/tmp/ioflo_c15/"]], "be": [["inactive"]], "in": [["back"]],
        "flush": [["2.5"], ["0.5"]], "keep": [["2"], ["0"]], "cycle": [["3.0"], ["0.25"]],
        "size": [["100"], ["0"]], "reuse": [[]]}, [[]]),
    "log": ("verb_log", S_LOG, ["log", "st"], {
        "as": [["text"], ["binary"]], "to": [["fname"]], "on": [["update"], ["never"]]}, [[]]),
    "server": ("verb_server", S_SERVER, ["server", "sv"], {
        "at": [["1.0"], ["0.125"]], "to": [["/tmp/ioflo_c15/"]], "be": [["inactive"]], "in": [["back"]],
        "rx": [[":55551"], ["localhost:55553"]], "tx": [[":55552"]],
        # per and for carry DISTINCT keys (same key twice is last-wins by design)
        "per": [["prefix", "\"/tmp/ioflo_c15/per\""], ["stuff", "5"]],
        "for": [["period", "in", ".cfg.srv"], ["value", "in", ".x.y"], [".x.y"]]}, [[]]),
    "aux": ("verb_aux", S_AUX, ["aux", "helper2"], {
        "as": [["mine"], ["cl1"]], "via": [[".p"], ["p", "of", "me"], ["p", "of", "framer"]]},
        [[], ["if", "elapsed", ">=", "1.0"]]),
    "rear": ("verb_rear", S_REAR, ["rear", "orig"], {
        "as": [["mine"]], "be": [["aux"]], "in": [["frame", "f1"]]}, [[]]),
    "raze": ("verb_raze", S_REAR, ["raze", "all"], {"in": [["frame", "f1"], ["frame"]]}, [[]]),
    "need-marker": ("verb_need_marker", S_NEED, ["go", "next", "if", ".x.y", "is", "updated"], {
        "in": [["frame", "f0"], ["frame"]], "by": [["mark"]]}, [[], ["and", "elapsed", ">=", "1.0"]]),
}

# relative addresses ending in an UNNAMED relation: the optional-name look-ahead of parseRelation
# is what stands between such a clause and the connective of the clause that follows it
REL_ENDS = [["of", "me"], ["of", "root"], ["of", "framer"], ["of", "frame"], ["of", "actor"],
            ["of", "actor", "of", "frame"], ["of", "frame", "of", "framer"], ["of", "actor", "of", "frame", "of", "framer"],
            ["of", "actor", "doer"], ["of", "frame", "f0", "of", "framer"]]
# verb -> {indirect-kind connective: [address stems]}
REL_CLAUSES = {
    "do": {"via": [["p"]], "from": [["value", "in", "reference"], ["reference"]],
           "for": [["u", "in", "src"]], "qua": [["z", "in", "ini"]]},
    "framer": {"via": [["n"]]}, "frame": {"via": [["n"]]}, "aux": {"via": [["p"]]},
}


def relation_commands(ctx, verb, spec):
    """every indirect clause ending in every relation form, directly followed by every other
    clause of the verb (both orders are built: all permutations of the pair)"""
    _, _, _, pool, tails = spec
    out = []
    for c, stems in REL_CLAUSES.get(verb, {}).items():
        for stem in stems:
            for end in REL_ENDS:
                others = [o for o in pool if o != c]
                if not ctx.thorough and len(others) > 4:
                    keep = [o for o in others if o in ("via", "with", "per", "as", "at")]
                    rest = [o for o in others if o not in keep]
                    ctx.rng.shuffle(rest)
                    others = keep + rest[:1]
                for o in others:
                    out.append(([(c, stem + end), (o, list(pool[o][0]))], list(tails[-1]) if verb == "aux" and
                                ctx.rng.random() < 0.3 else []))
    return out


# how a failing permutation is attributed to a finding: (verb, clause, next connective) -> key
FINDING_KEYS = [
    ("do", "as", ("via", "from", "per"), "do-as-terminators"),
    ("server", "per", ("rx", "tx"), "server-per-absorbs-rx-tx"),
    ("server", "for", ("in",), "server-for-absorbs-in"),
    ("framer", "via", ("first",), "framer-via-absorbs-first"),
]

_FAILS = {}     # key -> smallest failing input found on the implementation alone


def gen(ctx):
    tables = translate.extract(ctx.repo)
    ctx.write_gen("C15_Tables.v", translate.render(tables))
    return tables


def cstrs(toks):
    return "[" + "; ".join('"%s"' % t.replace('"', '""') for t in toks) + "]%string" if toks else "(@nil string)"


_TABLE_FACTS = {"as_terms": None, "reserved": None}     # filled from the extracted tables in run()


def attribute(verb, perm):
    """finding key for a failing permutation (list of (connective, body)): the specific input
    shape of each known finding, nothing wider"""
    for v, c, nexts, key in FINDING_KEYS:
        if v != verb:
            continue
        for (a, body), (b, _) in zip(perm, perm[1:]):
            if a != c or b not in nexts:
                continue
            if key == "framer-via-absorbs-first" and not (body and body[-1] in ("framer", "frame", "actor")):
                continue        # only a relation without its optional name can take 'first' for the name
            if key == "server-for-absorbs-in" and "in" in body:
                continue        # only a source without a field list reads the next 'in' as its own
            if key == "do-as-terminators" and (_TABLE_FACTS["as_terms"] is None or b in _TABLE_FACTS["as_terms"]):
                continue        # the extracted 'as' list does end at this connective: some other cause
            if key == "server-per-absorbs-rx-tx" and (_TABLE_FACTS["reserved"] is None or b in _TABLE_FACTS["reserved"]):
                continue
            return key
    return None


def commands_for(ctx, verb, spec):
    """clause lists (written order) to test for one verb"""
    _, _, _, pool, tails = spec
    conns = list(pool)
    out = []
    maxk = min(len(conns), ctx.n(3, 4))
    for k in range(1, maxk + 1):
        combos = list(itertools.combinations(conns, k))
        if k >= 3 and len(combos) > ctx.n(30, 200):
            keep = [c for c in combos if verb == "do" and "as" in c][:ctx.n(16, 80)]
            rest = [c for c in combos if c not in keep]
            ctx.rng.shuffle(rest)
            combos = keep + rest[:ctx.n(14, 120)]
        for combo in combos:
            # one command per combo with random bodies, plus every body variant once for pairs
            variants = [tuple(ctx.rng.choice(pool[c]) for c in combo)]
            if k <= 2:
                variants = list(itertools.product(*[pool[c] for c in combo]))
                if len(variants) > 6:
                    ctx.rng.shuffle(variants)
                    variants = variants[:6]
            for bodies in variants:
                for tail in tails:
                    out.append(([(c, list(b)) for c, b in zip(combo, bodies)], list(tail)))
    return out


def run(ctx):
    import flolib
    flolib.DROP = {"count", "human"}       # line number and source text of the declaration
    ctx.rule = ("for every verb of the property: clause sets (all singles and pairs with every body variant, "
                "triples/quads sampled, all triples with 'as' for do) x ALL permutations x tails, each built by "
                "the real Builder inside a minimal house; outcome = canonical built house (frames, acts with "
                "actor/parms/inits/ioinits/prerefs/context, taskers, store) or error class; compared with the "
                "model's clause map through the vector 'same as written order'. non-trivial = >= 2 clauses")
    ctx.assumptions = [
        "the builder's outcome for a command is a function of the clause map (connective -> tokens of its "
        "clause), the head and the builder state: checked by the correspondence, not proved",
        "content validity of a clause (path / identifier formats, option values, registry look-ups) is not "
        "modelled; all errors are one class",
        "Act.human (the command's source text) and count (line number) are excluded from the comparison",
    ]
    tables = None
    try:
        tables = gen(ctx)
    except translate.Untranslatable as ex:
        # the model cannot be regenerated: the implementation-only permutation test below still runs
        ctx.tie_broken("translator", "props/C15/translate.py", str(ex))
        ctx.obligations += 1
    if tables is not None:
        ctx.extra["tables"] = {v["verb"]: [[c, k[0]] + ([k[1]] if len(k) > 1 else []) for c, k in v["clauses"]]
                               for v in tables["verbs"]}
        ctx.coq_build("C15/Props.v")
        _TABLE_FACTS["reserved"] = set(tables["reserved"])
        for v in tables["verbs"]:
            if v["verb"] == "do":
                for c, k in v["clauses"]:
                    if c == "as" and k[0] == "KNameParts":
                        _TABLE_FACTS["as_terms"] = set(k[1])

    cases, metas = [], []
    nbuild = 0
    for verb, spec in VERBS.items():
        vname, script, prefix, pool, tails = spec
        skip = 1 if verb != "need-marker" else len(prefix)     # the verb (for a need: the need itself)
        for clauses, tail in commands_for(ctx, verb, spec) + relation_commands(ctx, verb, spec):
            perms = list(itertools.permutations(clauses))
            outcomes, toklists = [], []
            for i, perm in enumerate(perms):
                toks = list(prefix)
                for c, b in perm:
                    toks += [c] + b
                toks += tail
                txt = script.replace("{CMD}", " ".join(toks))
                nbuild += 1
                out = flolib.build_text(ctx.work, txt, mem=(nbuild % 4 != 0))
                outcomes.append(json.dumps(out, sort_keys=True))
                toklists.append(toks[skip:])
            same = [o == outcomes[0] for o in outcomes]
            kind = json.loads(outcomes[0])[0]
            ctx.case({"verb": verb, "command": " ".join(toklists[0]), "perms": len(perms), "outcome": kind,
                      "same": same}, nontrivial=len(clauses) >= 2, kind="%s:%d:%s" % (verb, len(clauses), kind))
            cases.append(("same %s %s" % (vname, "[" + "; ".join(cstrs(t) for t in toklists) + "]"),
                          "[" + "; ".join("true" if s else "false" for s in same) + "]"))
            metas.append((verb, [" ".join(prefix + sum([[c] + b for c, b in p], []) + tail) for p in perms], same))
            for perm, s, o in zip(perms, same, outcomes):
                if not s:
                    key = attribute(verb, perm) or attribute(verb, perms[0])
                    cmd = " ".join(prefix + sum([[c] + b for c, b in perm], []) + tail)
                    f = {"verb": verb, "script": script.replace("{CMD}", cmd), "command": cmd,
                         "written_order": " ".join(prefix + sum([[c] + b for c, b in perms[0]], []) + tail),
                         "observed": json.loads(o)[0] if json.loads(o)[0] != "ok" else "ok (different house)",
                         "expected": "same outcome as the written order: " + kind,
                         "contradicts": "C15.Props.generated_verbs_any_order / tables_wf"}
                    old = _FAILS.get(key)
                    if old is None or len(f["command"]) < len(old["command"]):
                        _FAILS[key] = f
    # ---- content validity of one-token clauses: model (extracted option tables) vs ParseError ----
    VAL = {
        "framer": ("verb_framer", "valid_framer", S_FRAMER, ["framer", "t"], {
            "be": ["active", "inactive", "aux", "slave", "moot", "bogus", "Active"],
            "in": ["front", "mid", "back", "top"], "first": ["s", "s2", "9x", "to", "a-b", "_p"], "at": ["0.5"]}),
        "logger": ("verb_logger", "valid_logger", S_LOGGER, ["logger", "lg"], {
            "be": ["active", "inactive", "slave", "aux", "moot"], "in": ["front", "mid", "back", "Front"],
            "keep": ["2"], "reuse": [None], "to": ["/tmp/ioflo_c15/"]}),
        "log": ("verb_log", "valid_log", S_LOG, ["log", "st"], {
            "as": ["text", "binary", "ascii", "Text"], "to": ["fname"],
            "on": ["update", "UPDATE", "Update", "uPdAtE", "deck", "never", "sometimes", "on"]}),
    }
    vcases, vmetas = [], []
    for verb, (vname, vtab, script, prefix, pool) in VAL.items():
        singles = [(c, v) for c in pool for v in pool[c]]
        combos = [[x] for x in singles]
        pairs = [(a, b) for a in singles for b in singles if a[0] != b[0]]
        ctx.rng.shuffle(pairs)
        combos += [list(p) for p in pairs[:ctx.n(40, 400)]]
        for combo in combos:
            toks = list(prefix)
            for c, v in combo:
                toks += [c] + ([v] if v is not None else [])
            nbuild += 1
            out = flolib.build_text(ctx.work, script.replace("{CMD}", " ".join(toks)), mem=(nbuild % 4 != 0))
            ok = out[0] != "ParseError"
            ctx.case({"verb": verb, "command": " ".join(toks), "outcome": out[0]}, nontrivial=True,
                     kind="valid:%s:%s" % (verb, out[0]))
            vcases.append(("match checked (valid_clause gen_reserved %s) (parse_cmd gen_reserved %s (T %s)) with "
                           "Some _ => true | None => false end" % (vtab, vname, cstrs(toks[1:])),
                           "true" if ok else "false"))
            vmetas.append((" ".join(toks), out[0]))
    ctx.extra["builds"] = nbuild
    if tables is not None:
        vbad = ctx.coq_cases(HEADER, "Bool.eqb", vcases, shard=100, name="valid")
        for i in vbad[:5]:
            ctx.tie_broken("correspondence", "C15 extracted content checks vs Builder",
                           "command=%r implementation=%r" % vmetas[i])
        ctx.extra["validity_mismatches"] = len(vbad)

    bad = ctx.coq_cases(HEADER, "bl_eqb", cases, shard=150) if tables is not None else []
    for i in bad[:5]:
        verb, cmds, same = metas[i]
        ctx.tie_broken("correspondence", "C15 model vs Builder (%s)" % verb,
                       "permutations=%r implementation same-as-first=%r" % (cmds, same))
    ctx.extra["mismatches"] = len(bad)
    ctx.extra["impl_order_dependent_inputs"] = {str(k): v["command"] for k, v in _FAILS.items()}
    ctx.exhaustive = False

    # every concrete order dependence of the implementation is a violation of the property
    # statement (open findings listed in known_findings.json print KNOWN-FINDING instead)
    reported = 0
    for key in sorted(_FAILS, key=lambda k: str(k)):
        before = ctx.violations
        ctx.violation({"failing_input": _FAILS[key],
                       "broken_ties": [{"kind": k, "name": n, "detail": d[-800:]} for k, n, d in ctx.broken]},
                      True, key or "clause-order-unattributed")
        reported += ctx.violations - before
    if ctx.broken and reported == 0:
        ctx.settle(lambda: search(ctx))


def search(ctx):
    """implementation alone: smallest clause permutation that builds something else"""
    for key in sorted(_FAILS, key=lambda k: str(k)):
        if not ctx.known_finding(key or ""):
            f = dict(_FAILS[key])
            f["key"] = key or "clause-order-unattributed"
            return f
    return None
