"""
C15 translator (tie T, fail-closed).

From the AST of ioflo/base/building.py extract, for every build method named in the property,
the CLAUSE TABLE of its option loop:

   verb, head (positional tokens | name parts with their terminator list), strict?,
   [(connective, clause kind)]

A clause kind is recognised from the SHAPE of the branch that handles the connective, i.e. the
sequence of token consumers in it:

   []                      KFix 0          (e.g. logger ... reuse)
   [T]                     KFix 1          x = tokens[index]; index += 1     (T = one token)
   [T, O]                  KInFrame        'frame' keyword + one more token when there is one
   [T, R]                  KInFrameOpt     'frame' keyword + a name unless the next token is Reserved
   [I]                     KIndirect       self.parseIndirect
   [D]                     KDirect         self.parseDirect
   [F, I] / [F, P]         KSourceInd / KSourcePath   self.parseFields + parseIndirect / parsePath
   [N(list)]               KNameParts list   while ...: if tokens[index] in [list]: break ...
   [W]                     KTrailing       nested while over makeNeed (aux ... if needs)

Anything else raises Untranslatable.  Also extracted: Reserved, and the keyword constants the hand
model of parseRelation / parseFields / the 'in frame' clauses was written for.
"""
import ast
import os


class Untranslatable(Exception):
    pass


def _need(cond, what):
    if not cond:
        raise Untranslatable(what)


VERBS = [("framer", "buildFramer"), ("frame", "buildFrame"), ("do", "buildDo"), ("logger", "buildLogger"),
         ("log", "buildLog"), ("server", "buildServer"), ("aux", "buildAux"), ("rear", "buildRear"),
         ("raze", "buildRaze"), ("need-marker", "makeMarkerNeed")]


def _const_list(node, env):
    if isinstance(node, (ast.List, ast.Tuple)):
        out = []
        for e in node.elts:
            _need(isinstance(e, ast.Constant) and isinstance(e.value, str), "non-constant list element")
            out.append(e.value)
        return out
    if isinstance(node, ast.Name):
        _need(node.id in env, "unknown name %s" % node.id)
        return list(env[node.id])
    if isinstance(node, ast.BinOp) and isinstance(node.op, ast.Add):
        return _const_list(node.left, env) + _const_list(node.right, env)
    raise Untranslatable("unsupported table expression")


def _is_index_inc(s):
    return (isinstance(s, ast.AugAssign) and isinstance(s.op, ast.Add) and isinstance(s.target, ast.Name)
            and s.target.id == "index" and isinstance(s.value, ast.Constant) and s.value.value == 1)


def _parse_call(s):
    """x, index = self.parseY(tokens, index ...)  ->  'parseY'"""
    if isinstance(s, ast.Assign) and len(s.targets) == 1 and isinstance(s.targets[0], ast.Tuple) \
            and len(s.targets[0].elts) == 2 and ast.unparse(s.targets[0].elts[1]) == "index" \
            and isinstance(s.value, ast.Call) and isinstance(s.value.func, ast.Attribute) \
            and ast.unparse(s.value.func.value) == "self":
        return s.value.func.attr
    return None


def _is_while_tokens(n):
    return isinstance(n, ast.While) and ast.unparse(n.test).replace(" ", "") == "index<len(tokens)"


def _nameparts_loop(w):
    """while index < len(tokens): if tokens[index] in [..]: break; parts.append(tokens[index]); index += 1"""
    if not _is_while_tokens(w) or len(w.body) != 3:
        return None
    a, b, c = w.body
    if not (isinstance(a, ast.If) and isinstance(a.test, ast.Compare) and ast.unparse(a.test.left) == "tokens[index]"
            and len(a.test.ops) == 1 and isinstance(a.test.ops[0], ast.In)
            and [ast.unparse(x) for x in a.body] == ["break"] and not a.orelse):
        return None
    if ast.unparse(b) != "parts.append(tokens[index])" or not _is_index_inc(c):
        return None
    return _const_list(a.test.comparators[0], {})


def _raises_only(stmts):
    """statements that never consume tokens: assignments not touching index, raises, ifs thereof, calls"""
    for s in stmts:
        for n in ast.walk(s):
            if _is_index_inc(n) or _parse_call(n) or isinstance(n, ast.While):
                return False
            if isinstance(n, ast.Assign) and any(ast.unparse(t) == "index" for t in n.targets):
                return False
    return True


def consumers(stmts, reserved_guard=False):
    """sequence of token consumers of a branch body (see module docstring)"""
    out = []
    for s in stmts:
        if _is_index_inc(s):
            out.append("T")
            continue
        pc = _parse_call(s)
        if pc is not None:
            _need(pc in ("parseIndirect", "parseDirect", "parseFields", "parsePath"), "unknown parser %s" % pc)
            out.append({"parseIndirect": "I", "parseDirect": "D", "parseFields": "F", "parsePath": "P"}[pc])
            continue
        if isinstance(s, ast.While):
            np = _nameparts_loop(s)
            if np is not None:
                out.append(("N", np))
                continue
            _need(_is_while_tokens(s) and any(_parse_call(x) == "makeNeed" or
                                              (isinstance(x, ast.Assign) and "makeNeed" in ast.unparse(x))
                                              for x in s.body), "unrecognised inner loop")
            out.append("W")
            continue
        if isinstance(s, ast.If):
            t = ast.unparse(s.test).replace(" ", "")
            if t == "index<len(tokens)" and not s.orelse:
                inner = consumers(s.body)
                if inner == ["T"]:          # one more token whenever there is one
                    out.append("O")
                    continue
                if inner == ["T?"]:         # ... unless it is Reserved
                    out.append("R")
                    continue
                _need(inner == [], "unrecognised optional consumer %r" % (inner,))
                continue
            # validation ifs must not consume
            if _raises_only([s]):
                continue
            # `if connective not in Reserved:` wrapper handled above only inside index<len guard
            inner = consumers(s.body) + consumers(s.orelse)
            _need(inner in ([], ["T"]) and "notinReserved" in t, "unrecognised conditional consumer: %s" % t[:60])
            if inner == ["T"]:
                out.append("T?")
            continue
        _need(_raises_only([s]), "unrecognised statement in clause branch: %s" % ast.unparse(s)[:60])
    return out


KINDS = {(): ("KFix", 0), ("T",): ("KFix", 1), ("T", "O"): ("KInFrame",), ("T", "R"): ("KInFrameOpt",),
         ("I",): ("KIndirect",), ("D",): ("KDirect",), ("F", "I"): ("KSourceInd",), ("F", "P"): ("KSourcePath",),
         ("W",): ("KTrailing",)}


def kind_of(cons, branch_src):
    if len(cons) == 1 and isinstance(cons[0], tuple) and cons[0][0] == "N":
        return ("KNameParts", cons[0][1])
    key = tuple(cons)
    if key == ("T", "T?"):      # marker need: 'frame' + name unless Reserved (inside index<len guard)
        key = ("T", "R")
    _need(key in KINDS, "unknown clause shape %r" % (cons,))
    k = KINDS[key]
    if k[0] in ("KInFrame", "KInFrameOpt"):
        _need("place != 'frame'" in branch_src, "in-clause without the 'frame' keyword test")
    return k


def _branch_conn(test):
    """connective == 'x'   |   connective in ('x',)   ->  ['x']"""
    if isinstance(test, ast.Compare) and ast.unparse(test.left) == "connective" and len(test.ops) == 1:
        if isinstance(test.ops[0], ast.Eq) and isinstance(test.comparators[0], ast.Constant):
            return [test.comparators[0].value]
        if isinstance(test.ops[0], ast.In):
            return _const_list(test.comparators[0], {})
    raise Untranslatable("unrecognised branch test %s" % ast.unparse(test)[:60])


DICT_TABLES = ("ScheduleValues", "OrderValues", "LogRuleValues", "ActionContextValues")


def global_dicts(repo):
    """keys of the option dictionaries of globaling.py (insertion order)"""
    tree = ast.parse(open(os.path.join(repo, "ioflo", "base", "globaling.py")).read())
    out = {}
    for n in tree.body:
        if isinstance(n, ast.Assign) and len(n.targets) == 1 and isinstance(n.targets[0], ast.Name) \
                and n.targets[0].id in DICT_TABLES:
            _need(isinstance(n.value, ast.Dict), "%s is not a dict literal" % n.targets[0].id)
            keys = []
            for k in n.value.keys:
                _need(isinstance(k, ast.Constant) and isinstance(k.value, str), "non-constant key")
                keys.append(k.value)
            out[n.targets[0].id] = keys
    for d in DICT_TABLES:
        _need(d in out, "%s not found in globaling.py" % d)
    return out


def validity(stmts, dicts):
    """content check of a ONE-TOKEN clause branch:
       ("VOneOf", words) | ("VOneOfCap", words) | ("VName",) | ("VNum",) | ("VAny",)"""
    src = [ast.unparse(s) for s in stmts]
    if any("Convert2Num(tokens[index])" in x for x in src):
        return ("VNum",)            # numeric literal (C17's converters): not modelled here
    cap = any(".capitalize()" in x for x in src)
    found = []
    for s in stmts:
        if isinstance(s, ast.If) and any(isinstance(x, ast.Raise) for x in s.body) and not s.orelse:
            t = s.test
            if isinstance(t, ast.Compare) and len(t.ops) == 1 and isinstance(t.ops[0], ast.NotIn) \
                    and isinstance(t.left, ast.Name):
                c = t.comparators[0]
                if isinstance(c, ast.Name):
                    _need(c.id in dicts, "membership test against unknown table %s" % c.id)
                    found.append(("VOneOfCap" if cap else "VOneOf", dicts[c.id]))
                else:
                    found.append(("VOneOfCap" if cap else "VOneOf", _const_list(c, {})))
            else:
                raise Untranslatable("unrecognised validity test: %s" % ast.unparse(t)[:60])
        elif isinstance(s, ast.Expr) and isinstance(s.value, ast.Call) and ast.unparse(s.value.func) == "self.verifyName":
            found.append(("VName",))
    _need(len(found) <= 1, "more than one content check in a one-token branch")
    return found[0] if found else ("VAny",)


def option_loop(fn):
    loops = [n for n in ast.walk(fn) if _is_while_tokens(n) and n.body
             and ast.unparse(n.body[0]) == "connective = tokens[index]"]
    _need(len(loops) == 1, "%s: expected exactly one option loop" % fn.name)
    return loops[0]


def verb_table(verb, fn, dicts=None):
    loop = option_loop(fn)
    body = list(loop.body[1:])
    strict = True
    allowed = None
    # lenient loop (need): `if connective not in (...): break` before eating the connective
    if body and isinstance(body[0], ast.If) and [ast.unparse(x) for x in body[0].body] == ["break"]:
        t = body[0].test
        _need(isinstance(t, ast.Compare) and ast.unparse(t.left) == "connective" and isinstance(t.ops[0], ast.NotIn),
              "%s: unrecognised loop exit" % verb)
        allowed = _const_list(t.comparators[0], {})
        strict = False
        body = body[1:]
    _need(body and _is_index_inc(body[0]), "%s: connective is not eaten at the loop head" % verb)
    body = body[1:]
    _need(len(body) == 1 and isinstance(body[0], ast.If), "%s: option loop is not one if-chain" % verb)
    clauses = []
    valids = []
    node = body[0]
    while True:
        conns = _branch_conn(node.test)
        k = kind_of(consumers(node.body), ast.unparse(node))
        v = validity(node.body, dicts or {}) if k == ("KFix", 1) else ("VAny",)
        for c in conns:
            clauses.append((c, k))
            valids.append((c, v))
        if len(node.orelse) == 1 and isinstance(node.orelse[0], ast.If):
            node = node.orelse[0]
            continue
        if strict:
            _need(node.orelse and any(isinstance(x, ast.Raise) for x in node.orelse),
                  "%s: unknown connective does not raise" % verb)
        else:
            _need(not node.orelse, "%s: lenient loop with else" % verb)
        break
    if allowed is not None:
        _need(sorted(allowed) == sorted(c for c, _ in clauses), "%s: loop exit set differs from the branches" % verb)
    # head: what is consumed before the option loop
    head = None
    parent_body = None
    for n in ast.walk(fn):
        for fld in ("body", "orelse", "finalbody"):
            seq = getattr(n, fld, None)
            if isinstance(seq, list) and loop in seq:
                parent_body = seq
    _need(parent_body is not None, "%s: option loop not found in a statement list" % verb)
    pre = parent_body[:parent_body.index(loop)]
    if verb == "need-marker":
        head = ("HNeed",)       # the need's own grammar precedes; not part of the permuted clauses
    else:
        cons = consumers([s for s in pre if not isinstance(s, ast.If) or not _raises_only([s])])
        if cons == ["T"]:
            head = ("HPos", 1)
        elif len(cons) == 1 and isinstance(cons[0], tuple):
            head = ("HParts", cons[0][1])
        else:
            raise Untranslatable("%s: unrecognised head %r" % (verb, cons))
    return {"verb": verb, "head": head, "strict": strict, "clauses": clauses, "valid": valids}


def extract(repo):
    path = os.path.join(repo, "ioflo", "base", "building.py")
    tree = ast.parse(open(path).read())
    env = {}
    for n in tree.body:
        if isinstance(n, ast.Assign) and len(n.targets) == 1 and isinstance(n.targets[0], ast.Name) \
                and n.targets[0].id in ("Comparisons", "Connectives", "Reserved"):
            env[n.targets[0].id] = _const_list(n.value, env)
    _need("Reserved" in env, "Reserved not found")
    cls = [n for n in tree.body if isinstance(n, ast.ClassDef) and n.name == "Builder"]
    _need(len(cls) == 1, "class Builder not found")
    fns = {f.name: f for f in cls[0].body if isinstance(f, ast.FunctionDef)}
    dicts = global_dicts(repo)
    verbs = []
    for verb, fname in VERBS:
        _need(fname in fns, "%s not found" % fname)
        verbs.append(verb_table(verb, fns[fname], dicts))
    # verbs outside the 'set of optional clauses' claim: one optional clause / fixed-order grammar
    bid = option_loop(fns["buildBid"])
    chain = [x for x in bid.body if isinstance(x, ast.If)]
    _need(len(chain) == 1 and _branch_conn(chain[0].test) == ["at"]
          and not (len(chain[0].orelse) == 1 and isinstance(chain[0].orelse[0], ast.If)),
          "buildBid: expected the single optional clause 'at'")
    for nm in ("makeDoneNeed", "makeStatusNeed"):
        loops = [n for n in ast.walk(fns[nm]) if _is_while_tokens(n)]
        _need(not loops, "%s: now has a token loop (was a fixed-order grammar)" % nm)
    vn = ast.unparse(fns["verifyName"])
    _need("not REO_IdentPub.match(name) or name in Reserved" in vn, "verifyName changed")
    # keyword constants of the helper parsers the hand model mirrors
    rel = ast.unparse(fns["parseRelation"])
    for frag in ("connective == 'of'", "relation not in ['root', 'me', 'framer', 'frame', 'actor']",
                 "relation in ['framer']", "relation in ['frame']", "relation in ['actor']",
                 "name not in Reserved"):
        _need(frag in rel, "parseRelation changed: %s" % frag)
    fld = ast.unparse(fns["parseFields"])
    for frag in ("field == 'in'", "field in Reserved"):
        _need(frag in fld, "parseFields changed: %s" % frag)
    ind = ast.unparse(fns["parseIndirect"])
    _need("path in Reserved" in ind and ind.count("self.parseRelation(tokens, index)") == 2, "parseIndirect changed")
    dr = ast.unparse(fns["parseDirect"])
    for frag in ("index == len(tokens) - 1", "value in Reserved", "field in Reserved"):
        _need(frag in dr, "parseDirect changed: %s" % frag)
    return {"reserved": env["Reserved"], "verbs": verbs, "bid_connectives": ["at"]}


def cstr(s):
    return "[" + "; ".join(str(ord(c)) for c in s) + "]" if s else "(@nil Z)"


def cwords(ws):
    return "[" + "; ".join(cstr(w) for w in ws) + "]" if ws else "(@nil (list Z))"


def ckind(k):
    if k[0] == "KFix":
        return "KFix %d" % k[1]
    if k[0] == "KNameParts":
        return "KNameParts %s" % cwords(k[1])
    return k[0]


def render(t):
    L = ["(* GENERATED by props/C15/translate.py from ioflo/base/building.py -- do not edit *)",
         "From Coq Require Import List ZArith.", "Import ListNotations.", "Require Import V.C15.Kinds.",
         "Open Scope Z_scope.", ""]
    L.append("Definition gen_reserved : list (list Z) := %s." % cwords(t["reserved"]))
    names = []
    for v in t["verbs"]:
        nm = "verb_" + v["verb"].replace("-", "_")
        names.append(nm)
        h = v["head"]
        hs = "HPos %d" % h[1] if h[0] == "HPos" else ("HParts %s" % cwords(h[1]) if h[0] == "HParts" else "HNeed")
        cl = "; ".join("(%s (* %s *), %s)" % (cstr(c), c, ckind(k)) for c, k in v["clauses"])
        L.append("Definition %s : verb := mkverb %s (%s) %s [%s]." % (
            nm, cstr(v["verb"]), hs, "true" if v["strict"] else "false", cl))
    L.append("Definition gen_verbs : list verb := [%s]." % "; ".join(names))

    def cv(v):
        if v[0] in ("VOneOf", "VOneOfCap"):
            return "%s %s" % (v[0], cwords(v[1]))
        return v[0]
    for v, nm in zip(t["verbs"], names):
        L.append("Definition valid_%s : list (list Z * vkind) := [%s]." % (
            nm[5:], "; ".join("(%s (* %s *), %s)" % (cstr(c), c, cv(k)) for c, k in v["valid"])))
    L.append("(* buildBid has the single optional clause 'at'; makeDoneNeed / makeStatusNeed have no clause loop *)")
    L.append("Definition gen_bid_connectives : list (list Z) := %s." % cwords(t["bid_connectives"]))
    return "\n".join(L) + "\n"


if __name__ == "__main__":
    import sys
    import pprint
    t = extract(sys.argv[1] if len(sys.argv) > 1 else "/repo")
    pprint.pprint(t["verbs"], width=150)
