"""
C46 -- PID controller output and integrator stay within configured limits.

Tie T: coq/gen/Controlling.v is regenerated on every run by props/C43/translate.py from
  ioflo/trim/interior/plain/controlling.py (ControllerPid.action, whole method body),
  ioflo/aid/blending.py (blend0) and ioflo/aid/navigating.py (wrap2)
over an abstract value type whose arithmetic is a record (so the theorems hold for ANY arithmetic,
in particular IEEE doubles) and whose comparisons are CPython's on NaN | -inf | finite | +inf.
  theorems      : coq/C46/Props.v
  correspondence: update sequences on the real ControllerPid (real Store, stamps driven by the
                  harness): (a) inputs on a grid where binary64 arithmetic is exact (multiples of 3/8,
                  power-of-two lapses, dyadic gains) mixed with NaN / +-inf inputs, rates, set points,
                  gains and infinite limits -- every step compared EXACTLY with the generated `action`
                  under the exact-arithmetic instance (vm_compute); (b) arbitrary random floats --
                  the property's statement checked on the implementation alone.
"""
import importlib.util
import math
import os
from fractions import Fraction

LEVEL = "proof"
HERE = os.path.dirname(os.path.abspath(__file__))


def _load(name, path):
    spec = importlib.util.spec_from_file_location(name, path)
    mod = importlib.util.module_from_spec(spec)
    spec.loader.exec_module(mod)
    return mod


translate = _load("c43_translate", os.path.join(HERE, "..", "C43", "translate.py"))
harness = _load("c43_harness", os.path.join(HERE, "..", "C43", "harness.py"))

NAN, INF = float("nan"), float("inf")
PARMS = ["drsp", "wrap", "calcRate", "ger", "gff", "gpe", "gde", "gie", "esmax", "esmin", "ovmax", "ovmin"]


def gen(ctx):
    r = os.path.join(ctx.repo, "ioflo")
    try:
        text, notes = translate.gen_controlling(
            open(os.path.join(r, "trim", "interior", "plain", "controlling.py")).read(),
            open(os.path.join(r, "aid", "blending.py")).read(),
            open(os.path.join(r, "aid", "navigating.py")).read(),
            open(os.path.join(r, "base", "doing.py")).read())
        ntext, _ = translate.gen_navigating(open(os.path.join(r, "aid", "navigating.py")).read())
    except (translate.Untranslatable, SyntaxError, OSError) as ex:
        ctx.tie_broken("translator", "controlling.py / blending.py / navigating.py / doing.py", "%s: %s" % (type(ex).__name__, ex))
        return False
    ctx.write_gen("Controlling.v", text)
    ctx.write_gen("Navigating.v", ntext)
    ctx.trusted.append("translator props/C43/translate.py (dialect V: abstract arithmetic record; notes: %s)"
                       % "; ".join(notes))
    return True


# ----------------------------------------------------------------------------------------------
# driving the real controller
# ----------------------------------------------------------------------------------------------

class Rig(object):
    def __init__(self, parms, k):
        from ioflo.base import storing
        from ioflo.trim.interior.plain import controlling
        storing.Store.Clear()
        self.store = storing.Store(name="C46s%d" % k, stamp=0.0)
        self.c = controlling.ControllerPid(name="c46pid%d" % k, store=self.store)
        self.c._initio(dict(group="controller.pid.t", output="goal.out", input="state.inp",
                            rate="state.rate", rsp="goal.rsp", parms=dict(parms)))
        self.inp = self.store.fetch("state.inp")
        self.rate = self.store.fetch("state.rate")
        self.rsp = self.store.fetch("goal.rsp")
        self.last = 0.0

    def state(self):
        c = self.c
        return [c.elapsed.value, c.prsp.value, c.e.value, c.er.value, c.es.value, c.output.value]

    def step(self, dt, inp, rate, rsp):
        """returns (lapse seen by the controller, state after) ; exceptions propagate"""
        if dt is not None:
            if isinstance(dt, tuple):
                if dt[0] == "none":
                    self.store.stamp = None
                elif dt[0] == "jump":
                    self.store.changeStamp(self.last + dt[1])
                else:
                    self.store.changeStamp(dt[1])
            elif self.store.stamp is None:      # harness: leave the None stamp by an absolute stamp
                self.store.changeStamp(self.last + dt)
            else:
                self.store.advanceStamp(dt)
        if self.store.stamp is not None:
            self.last = self.store.stamp
        self.inp.value, self.rate.value, self.rsp.value = inp, rate, rsp
        self.stamps = [self.c.stamp, self.store.stamp]
        self.c.action()
        self.stamps.append(self.c.stamp)
        return self.c.lapse, self.state()


_TWIN = [0]


def twin_post(parms, pre, lapse, inp, rate, rsp, es):
    """state after the same update on a fresh controller whose shares equal `pre` except errorSum = es"""
    _TWIN[0] += 1
    rig = Rig(parms, 500000 + _TWIN[0])
    c = rig.c
    c.elapsed.value, c.prsp.value, c.e.value, c.er.value, c.es.value, c.output.value = pre
    c.es.value = es
    c.stamp = 0.0                       # lapse = max(0.0, store.stamp - c.stamp) = lapse exactly
    rig.store.changeStamp(lapse)
    return rig.step(None, inp, rate, rsp)[1]


def same(a, b):
    return a == b or (a != a and b != b)


def enc(x):
    """float/int -> (n, d): d > 0 finite n/d ; d = 0: n = 0 NaN, n > 0 +inf, n < 0 -inf"""
    if x is None:
        return (0, -1)
    if isinstance(x, bool):
        return (1, 1) if x else (0, 1)
    if isinstance(x, float) and math.isnan(x):
        return (0, 0)
    if isinstance(x, float) and math.isinf(x):
        return (1, 0) if x > 0 else (-1, 0)
    fr = Fraction(x)
    return (fr.numerator, fr.denominator)


def le(a, b):
    return a <= b           # CPython comparison: False with NaN


def contract_wrap2(d, w, e):
    """the WRITTEN contract of the two-sided wrap (C43 theorems wrap2_range / wrap_whole_turns / wrap_zero_identity),
    evaluated exactly: e is the wrap of difference d with half circle w.  Finite values only."""
    if not all(isinstance(x, (int, float)) and math.isfinite(x) for x in (d, w, e)):
        return None
    d, w, e = Fraction(d), Fraction(w), Fraction(e)
    if w == 0:
        return None if e == d else "wrap 0 must leave the difference unchanged"
    if abs(e) > abs(w):
        return "magnitude %s exceeds the half circle %s" % (abs(e), abs(w))
    if ((d - e) / (2 * w)).denominator != 1:
        return "differs from the difference %s by %s full circles (not a whole number)" % (d, (d - e) / (2 * w))
    return None


def prop_step(parms, pre, lapse, inp, rate, rsp, post, wrap2, exact=False):
    """the property's statement on one update of the implementation; returns why-string or None.
    exact=True: the inputs are such that binary64 arithmetic inside wrap2 is exact, so the error is also
    checked against the written wrap contract (not only against the implementation's own wrap2)"""
    if not (lapse <= 0.0):
        es, out = post[4], post[5]
        if le(parms["esmin"], parms["esmax"]) and not (le(parms["esmin"], es) and le(es, parms["esmax"])):
            return "error sum %r outside [%r, %r]" % (es, parms["esmin"], parms["esmax"])
        if le(parms["ovmin"], parms["ovmax"]) and not (le(parms["ovmin"], out) and le(out, parms["ovmax"])):
            return "output %r outside [%r, %r]" % (out, parms["ovmin"], parms["ovmax"])
        changed = abs(rsp - pre[1]) > parms["drsp"]
        used = rsp if changed else pre[1]
        if changed and not (post[1] == rsp or (rsp != rsp and post[1] != post[1])):
            return "set point change beyond drsp not remembered"
        if changed and pre[4] != 0.0:
            # reset: the update must not depend on the previous error sum (same result as from 0.0)
            t = twin_post(parms, pre, lapse, inp, rate, rsp, 0.0)
            if not (same(t[4], post[4]) and same(t[5], post[5])):
                return ("set point changed by more than drsp but the integrator was not reset: error sum/output "
                        "%r/%r, from a zero error sum %r/%r" % (post[4], post[5], t[4], t[5]))
        want = wrap2(inp - used, parms["wrap"])
        e = post[2]
        if not (e == want or (e != e and want != want)):
            return "error %r is not wrap2(input - set point) = %r" % (e, want)
        if exact:
            c = contract_wrap2(inp - used, parms["wrap"], e)
            if c:
                return ("error %r for input %r, set point %r, wrap %r is not the shortest wrapped difference: %s"
                        % (e, inp, used, parms["wrap"], c))
        w = parms["wrap"]
        if w != 0 and math.isfinite(w) and math.isfinite(inp - used) and not abs(e) <= abs(w):
            return "error %r not the shortest wrapped difference (|wrap| = %r)" % (e, abs(w))
    else:
        if any(not (a == b or (a != a and b != b)) for a, b in zip(pre[1:], post[1:])):
            return "update with lapse <= 0 changed the controller shares"
    return None


def grid_parms(ctx, nonfinite):
    g = lambda: ctx.rng.choice([0.0, 0.5, 1.0, 2.0, 3.0, -1.5, 8.0, 0.25, -2.0, 400.0])  # noqa: E731
    lo = ctx.rng.choice([0.0, -5.0, -0.75, -20.0, 1.5, -1500.0])
    hi = lo + ctx.rng.choice([0.0, 0.375, 5.0, 10.0, 40.0, 1500.0])
    olo = ctx.rng.choice([0.0, -20.0, -10.0, -0.5, 3.0, -1500.0])
    ohi = olo + ctx.rng.choice([0.0, 0.5, 20.0, 40.0, 1500.0])
    p = dict(wrap=ctx.rng.choice([0.0, 0.0, 180.0, 360.0, 90.0, 1.5, -180.0, 3.0, 0.1875]),
             drsp=ctx.rng.choice([0.01, 0.0, 0.5, 1.0, 0.375, 100.0]),
             calcRate=ctx.rng.random() < 0.6, ger=ctx.rng.choice([1.0, -1.0, 0.5, 2.0]),
             gff=g(), gpe=g(), gde=g(), gie=g(), esmax=hi, esmin=lo, ovmax=ohi, ovmin=olo)
    if nonfinite:
        for k in ("gff", "gpe", "gde", "gie"):
            if ctx.rng.random() < 0.2:
                p[k] = ctx.rng.choice([INF, -INF, NAN])
        if ctx.rng.random() < 0.3:
            p["esmax"] = INF
        if ctx.rng.random() < 0.2:
            p["esmin"] = -INF
        if ctx.rng.random() < 0.3:
            p["ovmax"] = INF
        if ctx.rng.random() < 0.2:
            p["ovmin"] = -INF
        if ctx.rng.random() < 0.1:
            p["drsp"] = ctx.rng.choice([INF, NAN])
    return p


def grid_value(ctx, nonfinite, span=1200):
    if nonfinite and ctx.rng.random() < 0.18:
        return ctx.rng.choice([NAN, INF, -INF])
    return ctx.rng.randint(-span, span) * 0.375


HEADER = """From Coq Require Import ZArith QArith List Bool.
Import ListNotations.
Require Import V.Lib.C43_PyPrelude V.Lib.C46_XVal V.gen.Controlling V.C46.Model V.C46.Lapse.
Definition c46_x (n d : Z) : xv :=
  if (0 <? d)%Z then XFin (Qmake n (Z.to_pos d))
  else if (n =? 0)%Z then XNaN else if (0 <? n)%Z then XPInf else XNInf.
Definition c46_same (a b : xv) : bool :=
  match a, b with
  | XNaN, XNaN | XPInf, XPInf | XNInf, XNInf => true
  | XFin x, XFin y => Qeq_bool x y
  | _, _ => false
  end.
Fixpoint c46_xs (l : list Z) : list xv :=
  match l with n :: d :: r => c46_x n d :: c46_xs r | _ => [] end.
Definition c46_o (n d : Z) : option xv := if (d <? 0)%Z then None else Some (c46_x n d).
Definition c46_osame (a b : option xv) : bool :=
  match a, b with None, None => true | Some x, Some y => c46_same x y | _, _ => false end.
Definition c46_chk (row : list Z) : bool :=
  match row with
  | n0 :: d0 :: n1 :: d1 :: n2 :: d2 :: rest =>
  match c46_xs rest with
  | [drsp; wrap; calc; ger; gff; gpe; gde; gie; esmax; esmin; ovmax; ovmin;
     el; prsp; e; er; es; out;  lapse; inp; rate; rsp;  el'; prsp'; e'; er'; es'; out'] =>
    let P := mkParm drsp wrap (c46_same calc (XFin 1)) ger gff gpe gde gie esmax esmin ovmax ovmin in
    let c := full_step xnum_exact P (mkC (c46_o n0 d0) el (mkSt el prsp e er es out))
                       (mkU (c46_o n1 d1) inp rate rsp) in
    let s := c_st c in
    c46_osame (c_stamp c) (c46_o n2 d2) && c46_same (c_lapse c) lapse &&
    c46_same (s_elapsed s) el' && c46_same (s_prsp s) prsp' && c46_same (s_e s) e' &&
    c46_same (s_er s) er' && c46_same (s_es s) es' && c46_same (s_out s) out'
  | _ => false
  end
  | _ => false
  end.
"""


def run(ctx):
    ctx.rule = ("update sequences (6-10 updates) on the real ControllerPid with a real Store; lapses from stamp "
                "advances (0, powers of two, backward, +inf). exact pool: values on the 3/8 grid, dyadic gains/limits "
                "(binary64 arithmetic is exact there), in half of the sequences mixed with NaN/+-inf inputs, rates, "
                "set points, gains and infinite limits -- each update = one case, compared exactly with the generated "
                "action under exact arithmetic; float pool: arbitrary random doubles (and non-finite), property "
                "statement checked on the implementation alone. non-trivial = evaluated update (lapse > 0) in which a "
                "clamp is active, a wrap happens, the integrator is reset, or a non-finite value is involved")
    ctx.assumptions = [
        "DoerLapse.updateLapse is not translated: the lapse seen by the controller is an arbitrary input of each step",
        "store shares are distinct objects (no aliasing between the controller's group shares and its inputs)",
        "theorems need only CPython comparison semantics; arithmetic is arbitrary (so rounding/overflow are covered); "
        "ZeroDivisionError of x % 0.0 and x / 0.0 is not reachable (guards: wrap != 0, lapse > 0, literal divisors)",
        "limits ordered: esmin <= esmax and ovmin <= ovmax (this excludes NaN limits)",
    ]
    from ioflo.aid import navigating as nav

    ok = gen(ctx)
    from ioflo.aid import blending as bl
    from ioflo.trim.interior.plain import controlling as ctl
    sh = harness.shadowed_builtins(nav) + harness.shadowed_builtins(bl) + harness.shadowed_builtins(ctl)
    if sh or ctl.navigating is not nav or ctl.blending is not bl:
        ctx.tie_broken("translator", "builtins rebound / module names changed in controlling, blending, navigating", repr(sh))
    if ok:
        ctx.coq_build("C46/Props.v")

    rows, metas, viol = [], [], []
    nseq = ctx.n(400, 1500)
    for k in range(nseq):
        nonfinite = k % 2 == 1
        parms = grid_parms(ctx, nonfinite)
        try:
            rig = Rig(parms, k)
        except Exception as ex:
            ctx.tie_broken("harness", "cannot construct ControllerPid", "%s: %s" % (type(ex).__name__, ex))
            break
        hold_rsp = grid_value(ctx, False, 400)
        for j in range(ctx.rng.randint(6, 10)):
            r = ctx.rng.random()
            if j == 0:
                dt = None                       # first action: stamp None -> lapse 0
            elif r < 0.1:
                dt = 0.0
            elif r < 0.15:
                dt = -0.5
            elif r < 0.18 and nonfinite:
                dt = ("set", INF)
            elif r < 0.22:
                dt = ("none",)                  # store stamp None -> TypeError path of updateLapse
            elif r < 0.30:
                dt = ("jump", ctx.rng.choice([-3.0, -0.5, 0.0, 0.25, 1.0, 2.0]))   # absolute re-stamp, fwd/backward
            else:
                dt = ctx.rng.choice([0.125, 0.25, 0.5, 1.0, 2.0])
            if ctx.rng.random() < 0.35:
                hold_rsp = grid_value(ctx, nonfinite, 400)
            elif ctx.rng.random() < 0.2 and math.isfinite(hold_rsp):
                hold_rsp = hold_rsp + ctx.rng.choice([0.375, -0.375])   # small move, around drsp
            inp = grid_value(ctx, nonfinite)
            wr = parms["wrap"]
            if abs(wr) >= 1.5 and math.isfinite(wr) and ctx.rng.random() < 0.15:   # (0.1875 would leave the exact grid)
                # difference exactly on the half circle (or 3 half circles) from the set point that will be used
                pr = rig.state()[1]
                base = hold_rsp if abs(hold_rsp - pr) > parms["drsp"] else pr
                if math.isfinite(base):
                    inp = base + ctx.rng.choice([-3, -1, 1, 3]) * wr
            rate = ctx.rng.choice([0.0, 0.25, -0.5, 1.0, 4.0]) if not (nonfinite and ctx.rng.random() < 0.1) else NAN
            pre = rig.state()
            try:
                lapse, post = rig.step(dt, inp, rate, hold_rsp)
            except Exception as ex:
                why = "%s: %s" % (type(ex).__name__, ex)
                viol.append({"parms": parms, "pre": pre, "input": inp, "rate": rate, "rsp": hold_rsp, "why": why})
                ctx.tie_broken("correspondence", "ControllerPid.action raised", why)
                break
            why = prop_step(parms, pre, lapse, inp, rate, hold_rsp, post, nav.wrap2, exact=True)
            if why:
                viol.append({"parms": parms, "pre": pre, "lapse": lapse, "input": inp, "rate": rate,
                             "rsp": hold_rsp, "post": post, "why": why})
            vals = [parms[n] for n in PARMS] + pre + [lapse, inp, rate, hold_rsp] + post
            nf = any(isinstance(v, float) and not math.isfinite(v) for v in vals)
            clamp = post[4] in (parms["esmin"], parms["esmax"]) or post[5] in (parms["ovmin"], parms["ovmax"])
            reset = lapse > 0 and abs(hold_rsp - pre[1]) > parms["drsp"]
            wrapped = lapse > 0 and parms["wrap"] != 0 and math.isfinite(inp) and abs(inp - post[1]) > abs(parms["wrap"])
            kind = ("noop" if not lapse > 0 else "nonfinite" if nf else "reset" if reset else "wrap" if wrapped
                    else "clamp" if clamp else "plain")
            ctx.case({"parms": parms, "pre": pre, "in": [lapse, inp, rate, hold_rsp], "post": post},
                     nontrivial=(lapse > 0) and (nf or clamp or reset or wrapped), kind="exact:" + kind)
            row = []
            for v in list(rig.stamps) + vals:
                row += list(enc(v))
            rows.append(row)
            metas.append((parms, pre, [lapse, inp, rate, hold_rsp], post))

    # half-turn pool (implementation alone): differences of exactly +-wrap, +-3 wrap, also for wraps that are not
    # dyadic; (a) navigating.wrap2 against its written contract, (b) the controller error against the same contract
    for wr in (180.0, 0.5, 3.0, math.pi, math.pi / 2, 1.1, -180.0, -math.pi):
        for turns in (-3, -1, 1, 3):
            ang = turns * wr
            try:
                got = nav.wrap2(ang, wr)
                c = contract_wrap2(ang, wr, got)
            except Exception as ex:
                got, c = None, "%s: %s" % (type(ex).__name__, ex)
            ctx.case({"wrap2": [ang.hex(), wr.hex()]}, nontrivial=True, kind="half-turn:wrap2")
            if c:
                viol.append({"function": "navigating.wrap2", "angle": ang, "wrap": wr, "observed": got,
                             "why": "wrap2(%r, %r) = %r violates the wrap contract: %s" % (ang, wr, got, c)})
            for sp in (0.0, 90.0):
                inp = sp + ang
                parms = dict(wrap=wr, drsp=0.01, calcRate=True, ger=1.0, gff=0.0, gpe=3.0, gde=0.0, gie=0.0,
                             esmax=0.0, esmin=0.0, ovmax=20.0, ovmin=-20.0)
                try:
                    rig = Rig(parms, 700000 + len(viol) * 1000 + int(abs(turns)) * 100 + int(sp) + ctx.rng.randint(0, 10 ** 6))
                    rig.step(None, inp, 0.0, sp)
                    pre = rig.state()
                    lapse, post = rig.step(0.125, inp, 0.0, sp)
                    why = prop_step(parms, pre, lapse, inp, 0.0, sp, post, nav.wrap2, exact=True)
                except Exception as ex:
                    pre, lapse, post, why = None, None, None, "%s: %s" % (type(ex).__name__, ex)
                ctx.case({"half-turn": [inp, sp, wr]}, nontrivial=True, kind="half-turn:controller")
                if why:
                    viol.append({"parms": parms, "pre": pre, "lapse": lapse, "input": inp, "setpoint": sp, "rsp": sp,
                                 "wrap": wr, "rate": 0.0, "post": post, "why": why})

    # float pool: the statement on the implementation alone, arbitrary doubles
    def rf():
        r = ctx.rng.random()
        if r < 0.08:
            return ctx.rng.choice([NAN, INF, -INF])
        if r < 0.2:
            return ctx.rng.uniform(-1e300, 1e300)
        if r < 0.3:
            return ctx.rng.uniform(-1e-300, 1e-300)
        return ctx.rng.uniform(-1000, 1000)

    for k in range(ctx.n(400, 3000)):
        lo, olo = rf(), rf()
        while lo != lo:
            lo = rf()
        while olo != olo:
            olo = rf()
        parms = dict(wrap=ctx.rng.choice([0.0, 180.0, rf()]), drsp=abs(rf()) if ctx.rng.random() < 0.8 else rf(),
                     calcRate=ctx.rng.random() < 0.5, ger=rf(), gff=rf(), gpe=rf(), gde=rf(), gie=rf(),
                     esmin=lo, esmax=max(lo, lo + abs(ctx.rng.uniform(0, 50))) if math.isfinite(lo) else INF,
                     ovmin=olo, ovmax=max(olo, olo + abs(ctx.rng.uniform(0, 50))) if math.isfinite(olo) else INF)
        if parms["wrap"] != parms["wrap"]:
            parms["wrap"] = 0.0
        try:
            rig = Rig(parms, 100000 + k)
        except Exception as ex:
            ctx.tie_broken("harness", "cannot construct ControllerPid", "%s: %s" % (type(ex).__name__, ex))
            break
        for j in range(8):
            dt = None if j == 0 else ctx.rng.choice([0.0, 0.125, 1e-9, 3.7, 1e6, -1.0, ("set", INF)]) \
                if ctx.rng.random() < 0.5 else abs(ctx.rng.uniform(0, 2))
            inp, rate, rsp = rf(), rf(), rf()
            pre = rig.state()
            try:
                lapse, post = rig.step(dt, inp, rate, rsp)
                why = prop_step(parms, pre, lapse, inp, rate, rsp, post, nav.wrap2)
            except Exception as ex:
                lapse, post, why = None, None, "%s: %s" % (type(ex).__name__, ex)
            ctx.case({"float": [repr(inp), repr(rate), repr(rsp)]}, nontrivial=False, kind="float-statement")
            if why:
                viol.append({"parms": parms, "pre": pre, "lapse": lapse, "input": inp, "rate": rate, "rsp": rsp,
                             "post": post, "why": why})
                if post is None:
                    break
    if viol:
        ctx.tie_broken("correspondence", "ControllerPid violates the property statement", repr(viol[0])[:1500])
    ctx.extra["statement_violations"] = len(viol)

    if ok and rows:
        try:
            bad = harness.flat_cases(ctx, HEADER, "c46_chk", rows, 62, shard=300)
        except RuntimeError as ex:
            bad = []
            ctx.tie_broken("correspondence", "coq evaluation of generated Controlling.v failed", str(ex))
        for i in bad[:5]:
            ctx.tie_broken("correspondence", "generated action vs ControllerPid.action",
                           "parms=%r pre=%r lapse,input,rate,rsp=%r impl_post=%r" % metas[i])
        ctx.extra["mismatches"] = len(bad)
    ctx.exhaustive = False

    def search():
        if not viol:
            return None
        v = dict(min(viol, key=lambda d: (0 if "setpoint" in d else 1 if "function" in d else 2)))
        v["contradicts"] = ("C46.Props.es_and_output_clamped / error_is_wrap2 + error_wrap_is_shortest (C43 wrap2 contract) "
                            "/ integrator_reset")
        v["key"] = "pid-limits"
        return v

    ctx.settle(search)
