"""
C35 -- datagram stacks send each destination's packets once, in queue order.

Tie H: coq/C35/Model.v is a hand model of GramStack.serviceTxPkts/_serviceOneTxPkt.
  theorems   : coq/C35/Props.v  (all histories, all failure oracles)
  correspondence: the same op histories are run on the real GramStack with a handler
                  double whose send() raises a transient socket.error when the oracle says so.
"""
import errno
import itertools
import socket

from vlib import cz, clist, cbool

LEVEL = "proof"
ERRNOS = [errno.ECONNREFUSED, errno.EHOSTUNREACH, errno.ENETDOWN, errno.ETIMEDOUT]
# socket errors that are NOT in _serviceOneTxPkt's transient list: they propagate out of the service call
FATALS = [errno.EMSGSIZE, errno.EPERM, errno.EINVAL, errno.EACCES]


class Handler(object):
    """double for the datagram socket handler"""
    def __init__(self):
        self.opened = True
        self.ha = ('127.0.0.1', 7000)
        self.oracle = []
        self.sent = []
        self.failed = []
        self.k = 0

    def reopen(self):
        return True

    def close(self):
        pass

    def send(self, data, ha):
        fail = self.oracle.pop(0) if self.oracle else False
        if fail == 2:
            self.k += 1
            raise socket.error(FATALS[self.k % len(FATALS)], "non-transient")
        if fail:
            self.k += 1
            self.failed.append(ha)
            raise socket.error(ERRNOS[self.k % len(ERRNOS)], "transient")
        self.sent.append((data, ha))
        return len(data)


class Pkt(object):
    def __init__(self, i):
        self.packed = b"%d" % i
        self.i = i


# destination ids of the model -> real datagram addresses: several ids share a HOST and differ in the port
# (a destination is the full address, not the host), one is a unix-domain style path
ADDR = {10: ("10.0.0.1", 7001), 20: ("10.0.0.1", 7002), 30: ("10.0.0.2", 7001), 40: "/tmp/uxd.40"}


def addr_of(d):
    return ADDR.get(d, ("10.0.1.%d" % (d % 250), 7000 + d))


def dest_of(a):
    for d, x in ADDR.items():
        if x == a:
            return d
    return a[1] - 7000


BLOCKED = [None]
XLOG = []   # one record per extended service call of the last run_impl


def xprop_holds(ops):
    """executable statement for histories with non-transient errors, on the implementation alone: a service call
    that raises loses exactly the packet whose send raised; everything else is sent or still queued, every
    destination's packets in queue order; a call that does not raise loses nothing"""
    del XLOG[:]
    run_impl(ops)
    for k, r in enumerate(XLOG):
        want_gone = 1 if r["raised"] else 0
        if len(r["gone"]) != want_gone or sorted(r["sent"] + r["after"] + r["gone"]) != sorted(r["before"]):
            return "service call %d (raised=%r): queue %r -> sent %r + queue %r: lost %r" % (
                k, r["raised"], r["before"], r["sent"], r["after"], r["gone"])
        rest = list(r["before"])
        for x in r["gone"]:
            rest.remove(x)   # the raising packet is the first pending one to its destination (theorem), so
                             # removing its first occurrence is right for the per-destination comparison
        for d in set(x[1] for x in rest):
            if [x for x in r["sent"] + r["after"] if x[1] == d] != [x for x in rest if x[1] == d]:
                return "service call %d (raised=%r): order to destination %r broken: queue %r -> sent %r + queue %r" % (
                    k, r["raised"], d, r["before"], r["sent"], r["after"])
    return None


def run_impl(ops):
    """ops: list of ('enq', id, dest) | ('svc', [bool...]) ; returns (log, queue) as [(id,dest)]"""
    from ioflo.aio.proto import stacking
    h = Handler()
    stack = stacking.GramStack(handler=h)
    stack.handler = h
    for op in ops:
        if op[0] == "enq":
            stack.txPkts.append((Pkt(op[1]), addr_of(op[2])))
        elif op[0] == "once":
            h.oracle = [bool(op[1])]
            if op[2]:
                stack.serviceAllTxOnce()
            else:
                stack.serviceTxPktsOnce()
            h.oracle = []
        elif op[0] in ("svcx", "oncex"):
            # outcomes 0 sent / 1 transient / 2 non-transient (the service call raises)
            h.oracle = list(op[1]) if op[0] == "svcx" else [op[1]]
            before = [(p.i, dest_of(ha)) for p, ha in stack.txPkts]
            nsent = len(h.sent)
            try:
                if op[0] == "svcx":
                    stack.serviceAllTx() if op[2] else stack.serviceTxPkts()
                else:
                    stack.serviceAllTxOnce() if op[2] else stack.serviceTxPktsOnce()
                raised = False
            except socket.error as ex:
                raised = True
                if ex.args[0] not in FATALS:
                    raise
            h.oracle = []
            after = [(p.i, dest_of(ha)) for p, ha in stack.txPkts]
            sent = [(int(d), dest_of(ha)) for d, ha in h.sent[nsent:]]
            gone = list(before)
            for x in sent + after:
                if x in gone:
                    gone.remove(x)
            XLOG.append({"before": before, "after": after, "sent": sent, "raised": raised, "gone": gone})
        else:
            h.oracle = list(op[1])
            h.failed = []
            stack.serviceTxPkts()
            left = [dest_of(ha) for _p, ha in stack.txPkts]
            bad = [d for d in left if d not in [dest_of(a) for a in h.failed]]
            if bad and BLOCKED[0] is None:
                BLOCKED[0] = "after a service pass packets to %r are still queued although no send to them failed in " \
                             "that pass (failed: %r)" % (sorted(set(bad)), sorted(set(dest_of(a) for a in h.failed)))
    log = [(int(d), dest_of(ha)) for d, ha in h.sent]
    q = [(p.i, dest_of(ha)) for p, ha in stack.txPkts]
    return log, q


def prop_holds(ops, log, q):
    """the property's statement, executable, on the implementation's observable result"""
    queued = [(op[1], op[2]) for op in ops if op[0] == "enq"]
    BLOCKED[0] = None
    run_impl(ops)          # replay to evaluate "a failing destination never blocks another" pass by pass
    if BLOCKED[0]:
        return BLOCKED[0]
    if sorted(log + q) != sorted(queued):
        return "sent+queued is not the queued multiset"
    for d in set(ha for _, ha in queued):
        if [p for p in log + q if p[1] == d] != [p for p in queued if p[1] == d]:
            return "order to destination %r broken" % d
    return None


def c_ops(ops):
    out = []
    for op in ops:
        if op[0] == "enq":
            out.append("Enq (%s, %s)" % (cz(op[1]), cz(op[2])))
        elif op[0] == "once":
            out.append("Once %s" % cbool(op[1]))
        else:
            out.append("Service %s" % clist([cbool(b) for b in op[1]], "bool"))
    return clist(out, "op")


OUTC = {0: "OSent", 1: "OTrans", 2: "OFatal"}


def c_opsx(ops):
    out = []
    for op in ops:
        if op[0] == "enq":
            out.append("XEnq (%s, %s)" % (cz(op[1]), cz(op[2])))
        elif op[0] == "oncex":
            out.append("XOnce %s" % OUTC[op[1]])
        else:
            out.append("XService %s" % clist([OUTC[b] for b in op[1]], "outcome"))
    return clist(out, "opx")


def c_pkts(ps):
    return clist(["(%s, %s)" % (cz(a), cz(b)) for a, b in ps], "(Z*Z)")


def oracle_from_destfail(queue, failing):
    """per-send oracle for one pass given set of failing destinations (fail on first attempt)"""
    orc, blocked = [], set()
    for _, ha in queue:
        if ha in blocked:
            continue
        if ha in failing:
            orc.append(True)
            blocked.add(ha)
        else:
            orc.append(False)
    return orc


def run(ctx):
    ctx.rule = ("op histories (enqueue / service pass with per-send failure oracle) run on the real "
                "GramStack with a handler double and on the Coq model; non-trivial = at least one failing "
                "send and >= 2 packets; distinct by full history")
    ctx.assumptions = [
        "handler double: send() raises socket.error with a transient errno, raises socket.error with a "
        "non-transient errno (EMSGSIZE, EPERM, EINVAL, EACCES: the service call raises), or accepts the whole datagram",
        "packets are identified by their packed payload; Packet.pack and console output are not modelled",
    ]
    res = ctx.coq_build("C35/Props.v")

    hist = []
    # 1. exhaustive small scope
    npk = ctx.n(4, 6)
    for n in range(1, npk + 1):
        for dests in itertools.product(range(3), repeat=n):
            seen = []
            for d in dests:
                if d not in seen:
                    seen.append(d)
            if seen != list(range(len(seen))):
                continue
            enq = [("enq", i + 1, 10 * (d + 1)) for i, d in enumerate(dests)]
            nd = len(seen)
            passes = 2 if (n > 4) else 3
            for pats in itertools.product(range(2 ** nd), repeat=passes):
                # build ops with oracles derived by simulating the *expected* queue evolution
                # lazily: oracle lists are per-send; we use "destination fails on first attempt"
                ops = list(enq)
                hist.append((ops, [[10 * (j + 1) for j in range(nd) if (m >> j) & 1] for m in pats]))
    # 2. random long histories with raw per-send oracles
    rnd = []
    for _ in range(ctx.n(300, 3000)):
        ops, pid = [], 0
        for _ in range(ctx.rng.randint(3, 25)):
            x = ctx.rng.random()
            if x < 0.5:
                pid += 1
                ops.append(("enq", pid, 10 * ctx.rng.randint(1, 4)))
            elif x < 0.7:
                ops.append(("once", ctx.rng.random() < 0.5, ctx.rng.random() < 0.5))
            else:
                ops.append(("svc", [ctx.rng.random() < 0.35 for _ in range(ctx.rng.randint(0, 8))]))
        ops.append(("svc", []))
        rnd.append(ops)

    # 3. exhaustive small histories of the single-shot entry points: up to 3 packets over 2 destinations,
    #    every fail/success pattern of up to 4 single-shot calls, then a clean full pass
    for n in range(1, 4):
        for dests in itertools.product((10, 20), repeat=n):
            for k in range(1, 5):
                for pat in itertools.product((False, True), repeat=k):
                    for allx in (False, True):
                        rnd.append([("enq", i + 1, d) for i, d in enumerate(dests)] +
                                   [("once", f, allx) for f in pat] + [("svc", [])])

    # 4. histories with NON-transient send errors (outcome 2: the service call raises): exhaustive for up to 4
    #    packets over up to 3 destinations x every outcome list with at least one non-transient error, followed by
    #    a second pass with a derived outcome list and a clean pass; plus random long histories
    xhist = []
    for n in range(1, 5):
        for dests in itertools.product(range(3), repeat=n):
            seen = []
            for d in dests:
                if d not in seen:
                    seen.append(d)
            if seen != list(range(len(seen))):
                continue
            enq = [("enq", i + 1, 10 * (d + 1)) for i, d in enumerate(dests)]
            for orc in itertools.product((0, 1, 2), repeat=n):
                if 2 not in orc:
                    continue
                k = sum(orc) + n
                xhist.append(enq + [("svcx", list(orc), bool(k & 1)), ("enq", n + 1, 10),
                                    ("svcx", [(k >> j) % 3 for j in range(3)], False), ("svcx", [], False)])
    for _ in range(ctx.n(250, 2500)):
        ops, pid = [], 0
        for _ in range(ctx.rng.randint(3, 22)):
            x = ctx.rng.random()
            if x < 0.5:
                pid += 1
                ops.append(("enq", pid, 10 * ctx.rng.randint(1, 4)))
            elif x < 0.65:
                ops.append(("oncex", ctx.rng.choice((0, 0, 1, 2)), ctx.rng.random() < 0.5))
            else:
                ops.append(("svcx", [ctx.rng.choice((0, 0, 0, 1, 1, 2)) for _ in range(ctx.rng.randint(0, 7))],
                            ctx.rng.random() < 0.3))
        ops.append(("svcx", [], False))
        xhist.append(ops)

    cases, metas = [], []
    xmetas = []

    def addx(ops):
        del XLOG[:]
        log, q = run_impl(ops)
        dropped = [x for r in XLOG for x in r["gone"]] if all(len(r["gone"]) <= 1 for r in XLOG) else [(-2, -2)]
        nfat = sum(1 for r in XLOG if r["raised"])
        ntr = sum(o[1].count(1) for o in ops if o[0] == "svcx") + sum(1 for o in ops if o[0] == "oncex" and o[1] == 1)
        ctx.case({"xops": ops, "log": log, "queue": q, "dropped": dropped},
                 nontrivial=nfat > 0 and sum(1 for o in ops if o[0] == "enq") >= 2,
                 kind="raises=%d,transient=%d" % (min(nfat, 3), min(ntr, 3)))
        left = [x for r in XLOG for x in r["sent"] + r["gone"]]   # departure order: sent / lost with its exception
        co = c_opsx(ops)
        cases.append(("(let s := runx %s in (xlog s ++ [(-1, -1)] ++ leftsx %s initx, xq s ++ [(-1, -1)] ++ xdropped s))" % (co, co),
                      "(%s, %s)" % (c_pkts(log + [(-1, -1)] + left), c_pkts(q + [(-1, -1)] + dropped))))
        metas.append((ops, log, q))
        xmetas.append(ops)

    def add(ops):
        log, q = run_impl(ops)
        nfail = sum(sum(o[1]) for o in ops if o[0] == "svc") + sum(1 for o in ops if o[0] == "once" and o[1])
        ctx.case({"ops": ops, "log": log, "queue": q},
                 nontrivial=nfail > 0 and sum(1 for o in ops if o[0] == "enq") >= 2,
                 kind="fails=%d" % min(nfail, 4))
        cases.append(("(let s := run %s in (log s, txq s))" % c_ops(ops),
                      "(%s, %s)" % (c_pkts(log), c_pkts(q))))
        metas.append((ops, log, q))

    from ioflo.aio.proto import stacking  # noqa
    for enq, failsets in hist:
        # derive per-send oracles pass by pass from the model of the queue the impl really has:
        # run the impl incrementally so oracles are consistent with its actual queue
        ops = list(enq)
        cur = [(o[1], o[2]) for o in enq]
        for fs in failsets:
            orc = oracle_from_destfail(cur, set(fs))
            ops.append(("svc", orc))
            _, cur = run_impl(ops)
        add(ops)
    for ops in rnd:
        add(ops)
    for ops in xhist:
        addx(ops)

    header = ("From Coq Require Import List ZArith Bool.\nImport ListNotations.\n"
              "Require Import V.C35.Model V.C35.FatalOrder.\nOpen Scope Z_scope.\n"
              "Definition pk_eqb (a b : Z*Z) := Z.eqb (fst a) (fst b) && Z.eqb (snd a) (snd b).\n"
              "Fixpoint l_eqb (a b : list (Z*Z)) := match a, b with [], [] => true | x::a', y::b' => pk_eqb x y && l_eqb a' b' | _, _ => false end.\n"
              "Definition r_eqb (a b : list (Z*Z) * list (Z*Z)) := l_eqb (fst a) (fst b) && l_eqb (snd a) (snd b).\n")
    bad = ctx.coq_cases(header, "r_eqb", cases)
    for i in bad[:5]:
        ops, log, q = metas[i]
        ctx.tie_broken("correspondence", "C35 model vs GramStack.serviceTxPkts",
                       "ops=%r impl_log=%r impl_queue=%r" % (ops, log, q))
    ctx.extra["mismatches"] = len(bad)
    ctx.exhaustive = False

    def search():
        # the implementation alone against the property's executable statement
        best = None
        for ops in xmetas:
            why = xprop_holds(ops)
            if why and (best is None or len(ops) < len(best["ops"])):
                best = {"ops": ops, "why": why, "contradicts": "C35.Props.exception_loses_only_its_packet",
                        "key": "gram-exception-loses-deferred"}
        if best:
            return best
        for ops, log, q in metas:
            if ops and any(o[0] in ("svcx", "oncex") for o in ops):
                continue
            why = prop_holds(ops, log, q)
            if why:
                if best is None or len(ops) < len(best["ops"]):
                    best = {"ops": ops, "impl_sent_log": log, "impl_queue": q, "why": why,
                            "contradicts": "C35.Props.per_dest_order_and_once",
                            "key": "gram-once-reorders" if any(o[0] == "once" for o in ops) else "gram-tx-order"}
        return best

    ctx.settle(search)
