"""
C20 -- 'is updated' / 'is changed' conditions report changes since the mark.

Tie H: coq/C20/Model.v hand-models Share stamps/fields, Mark, MarkerUpdate/MarkerChange,
NeedUpdate/NeedChange, the marker placement of NeedMarker._resolve and the flat-frame slice of
Framer.enterAll/segue/recur.  Theorems (coq/C20/Props.v) are history-level.
Correspondence: generated FloScript programs (one framer, 2-4 flat frames, transitions guarded
by 1-2 marker needs with/without `in frame [name]` and shared `by` marks, enter/recur/exit
writes, optional entry guards `let me if .gate >= 1` on target frames with the gate toggled by the script) built by the real Builder and run by the real Skedder (real=False) with scripted
external writes before and after the framer in every tick; the active frame after every tick
is compared with the model inside Coq.
"""
import importlib.util
import os

import time  # noqa: E402

LEVEL = "proof"
_HERE = os.path.dirname(os.path.abspath(__file__))


def _load(name, path):
    spec = importlib.util.spec_from_file_location(name, path)
    mod = importlib.util.module_from_spec(spec)
    spec.loader.exec_module(mod)
    return mod


_enc = _load("c45_enc", os.path.join(os.path.dirname(_HERE), "C45", "enc.py"))
e_val, zlist, DECODE_COQ = _enc.e_val, _enc.zlist, _enc.DECODE_COQ

SHARES = ["m.x", "m.y", "gate"]    # ids 1, 2, 3 (gate: only the entry guards read it)
FIELDS = ["fp", "fq", "extra", "value"]   # ids 0, 1, 2 ("extra" is only ever ADDED by external writes)
BYS = ["mka", "mkb"]               # ids 1, 2
VALS = [0, 1, 2, 1.0, "a"]


def mute():
    from ioflo.aid import consoling
    consoling.getConsole().reinit(verbosity=consoling.Console.Wordage.mute)


# ---------------------------------------------------------------------------------------
# program generation.  need = dict(kind 'updated'|'changed', share idx, inf None|'me'|frame idx, by None|idx)
def gen_program(rng, K):
    nf = rng.choice([2, 3, 3, 4])

    def wr(ext=False):
        f = rng.randrange(2) if rng.random() < 0.3 else 0
        if ext and rng.random() < 0.1:
            f = 2
        return (rng.randrange(2), f, rng.choice(VALS if ext else VALS[:4]))

    def need():
        r = rng.random()
        inf = None if r < 0.4 else ("me" if r < 0.65 else rng.randrange(nf))
        return {"kind": rng.choice(["updated", "updated", "changed"]), "share": rng.randrange(2), "inf": inf,
                "by": rng.randrange(2) if rng.random() < 0.4 else None}
    frames = []
    guarded = rng.random() < 0.6          # programs with entry guards `let me if .gate >= 1` on some targets
    sparse = rng.random() < 0.5           # few writes: a pending update must survive several refused attempts
    for i in range(nf):
        trans = []
        for _ in range(rng.choice([1, 1, 2])):
            far = rng.randrange(nf) if rng.random() < 0.15 else rng.choice([j for j in range(nf) if j != i])
            trans.append({"far": far, "needs": [need() for _ in range(rng.choice([1, 1, 1, 2]))]})
        g = None
        if guarded and i > 0 and rng.random() < 0.6:
            g = "gate" if rng.random() < 0.55 else need()       # `let me if .gate >= 1` | `let me if <marker need>`
        frames.append({"guard": g,
                       "enter": [wr()] if rng.random() < (0.15 if sparse else 0.4) else [],
                       "recur": [wr()] if rng.random() < 0.15 else [],
                       "exit": [wr()] if rng.random() < 0.2 else [],
                       "trans": trans})
    script = []
    pw = 0.12 if sparse else 0.35
    opens = rng.randint(1, K) if guarded else None      # the gate opens after this tick (and may close again)
    closes = rng.randint(opens + 1, K + 2) if guarded and rng.random() < 0.3 else None
    for k in range(K + 1):
        pre = [wr(True)] if rng.random() < pw else []
        post = [wr(True)] if rng.random() < pw else []
        if k == opens:
            post = post + [(2, 3, 1)]
        if k == closes:
            pre = [(2, 3, 0)] + pre
        script.append((pre, post))
    return frames, script


def lit(v):
    return '"%s"' % v if isinstance(v, str) else repr(v)


def put_text(w):
    sh, f, v = w
    return "put %s into %s in .%s" % (lit(v), FIELDS[f], SHARES[sh])


def need_text(n):
    s = ".%s is %s" % (SHARES[n["share"]], n["kind"])
    if n["inf"] is not None:
        s += " in frame" + ("" if n["inf"] == "me" else " F%d" % n["inf"])
    if n["by"] is not None:
        s += " by " + BYS[n["by"]]
    return s


def program_text(frames, K):
    L = ["house h", "", "  framer pre be active first p", "    frame p", "      do verif pre20", "",
         "  framer test be active first F0"]
    for i, f in enumerate(frames):
        L.append("    frame F%d" % i)
        if f["guard"] == "gate":
            L.append("      let me if .gate >= 1")
        elif f["guard"]:
            L.append("      let me if " + need_text(f["guard"]))
        for w in f["enter"]:
            L.append("      " + put_text(w))
        if f["recur"]:
            L.append("      recur")
            for w in f["recur"]:
                L.append("        " + put_text(w))
        if f["exit"]:
            L.append("      exit")
            for w in f["exit"]:
                L.append("        " + put_text(w))
        for t in f["trans"]:
            L.append("      go F%d if %s" % (t["far"], " and ".join(need_text(n) for n in t["needs"])))
    L += ["", "  framer post be active first q", "    frame q", "      do verif post20", "",
          "  framer stopper be active first s0"]
    for k in range(K + 1):
        L += ["    frame s%d" % k, "      go next"]
    L += ["    frame s%d" % (K + 1), "      bid stop all", ""]
    return "\n".join(L)


STATE = {"log": [], "script": None, "tick": 0}


def register():
    from ioflo.base import doing
    if "VerifPre20" in doing.Doer.Registry:
        return

    def apply(store, ws):
        for sh, f, v in ws:
            store.fetchShare(SHARES[sh]).update(**{FIELDS[f]: v})

    @doing.doify("VerifPre20")
    def verifpre20(self, **kwa):
        k = STATE["tick"]
        if k < len(STATE["script"]):
            apply(self.store, STATE["script"][k][0])

    @doing.doify("VerifPost20")
    def verifpost20(self, **kwa):
        k = STATE["tick"]
        STATE["log"].append(self.store.fetchShare("framer.test.state.active").value)
        if k < len(STATE["script"]):
            apply(self.store, STATE["script"][k][1])
        STATE["tick"] = k + 1


def run_impl(ctx, frames, script, K, tag):
    """returns list of active frame indices after ticks 0..K, or ('err', cls)"""
    from ioflo.base import skedding
    from ioflo.aid.odicting import odict
    register()
    path = os.path.join(ctx.work, "p%s.flo" % tag)
    with open(path, "w") as f:
        f.write(program_text(frames, K))
    sk = skedding.Skedder(name="v", period=1.0, real=False, filepath=path,
                          preloads=[(s, odict([("fp", 0), ("fq", 0)])) for s in SHARES[:2]] + [("gate", odict(value=0))])
    STATE["log"], STATE["script"], STATE["tick"] = [], script, 0
    try:
        if not sk.build():
            return ("err", "BuildFailed")
        sk.run()
    except Exception as ex:
        return ("err", type(ex).__name__)
    return [int(a[1:]) for a in STATE["log"][:K + 1]]


# ---------------------------------------------------------------------------------------
# the property's statement, executable: a reference run that decides every condition from the
# HISTORY (ticks of writes, entry resets and taken-transition resets; snapshots), never from stamps
class Ref(object):
    def __init__(self):
        self.data = {0: {0: 0, 1: 0}, 1: {0: 0, 1: 0}, 2: {3: 0}}        # share -> field -> value
        self.wticks = {0: [], 1: [], 2: []}               # ticks of writes while running
        self.resets = {}                           # (kind, share, key) -> list of (tick, 'enter'|'transit')
        self.snaps = {}                            # (share, key) -> dict copy at last 'changed' reset

    def write(self, t, w):
        sh, f, v = w
        self.data[sh][f] = v
        self.wticks[sh].append(t)

    def reset(self, t, kind, sh, key, how):
        self.resets.setdefault((kind, sh, key), []).append((t, how))
        if kind == "changed":
            self.snaps[(sh, key)] = dict(self.data[sh])

    def holds(self, kind, sh, key):
        if kind == "updated":
            if not self.wticks[sh]:
                return False
            rs = self.resets.get((kind, sh, key), [])
            if not rs:
                return True                        # before the mark is first set any update counts
            w, r = self.wticks[sh][-1], rs[-1][0]
            if w > r:
                return True
            # same tick: counts after an entry reset, not after a taken-transition reset in that tick
            return w == r and not any(t == r and how == "transit" for t, how in rs)
        snap = self.snaps.get((sh, key))
        if snap is None:
            return True
        return any(f not in snap or snap[f] != v for f, v in self.data[sh].items())


def key_of(fi, n):
    fr = fi if n["inf"] in (None, "me") else n["inf"]
    return ("by", n["by"]) if n["by"] is not None else ("frame", fr)


def ref_run(frames, script, K):
    R = Ref()
    entry = {}
    for fi, f in enumerate(frames):
        # a `let` marker need gets its entry marker like any other, but never a transit marker
        for n in [x for t in f["trans"] for x in t["needs"]] + ([f["guard"]] if isinstance(f["guard"], dict) else []):
            for n in [n]:
                if n["inf"] is not None:
                    fr = fi if n["inf"] == "me" else n["inf"]
                    entry.setdefault(fr, []).append((n["kind"], n["share"], key_of(fi, n)))
    active, out = 0, []

    def enter(t, F):
        for kind, sh, key in entry.get(F, []):
            R.reset(t, kind, sh, key, "enter")
        for w in frames[F]["enter"]:
            R.write(t, w)
    for t in range(K + 1):
        for w in script[t][0]:
            R.write(t, w)
        if t == 0:
            enter(0, 0)
        else:
            for tr in frames[active]["trans"]:
                # a transition whose target is refused by its entry guard has NO effect at all
                g = frames[tr["far"]]["guard"]
                gok = True if not g else (R.data[2][3] >= 1 if g == "gate" else
                                          R.holds(g["kind"], g["share"], key_of(tr["far"], g)))
                if all(R.holds(n["kind"], n["share"], key_of(active, n)) for n in tr["needs"]) and gok:
                    for n in tr["needs"]:
                        R.reset(t, n["kind"], n["share"], key_of(active, n), "transit")
                    for w in frames[active]["exit"]:
                        R.write(t, w)
                    enter(t, tr["far"])
                    active = tr["far"]
                    break
        for w in frames[active]["recur"]:
            R.write(t, w)
        out.append(active)
        for w in script[t][1]:
            R.write(t, w)
    return out


# ---------------------------------------------------------------------------------------
def e_wr(w):
    sh, f, v = w
    return [sh + 1, f] + e_val(v)


def e_wrs(ws):
    out = [len(ws)]
    for w in ws:
        out += e_wr(w)
    return out


def e_need(n):
    out = [0 if n["kind"] == "updated" else 1, n["share"] + 1]
    out += [0] if n["inf"] is None else ([1] if n["inf"] == "me" else [2, n["inf"]])
    out += [0] if n["by"] is None else [1, n["by"] + 1]
    return out


def e_prog(frames):
    out = [len(frames)]
    for f in frames:
        out += [0] if not f["guard"] else ([1, 3, 3] if f["guard"] == "gate" else [2] + e_need(f["guard"]))
        out += e_wrs(f["enter"]) + e_wrs(f["recur"]) + e_wrs(f["exit"]) + [len(f["trans"])]
        for t in f["trans"]:
            out += [t["far"], len(t["needs"])]
            for n in t["needs"]:
                out += e_need(n)
    return out


def e_script(script):
    out = [len(script)]
    for pre, post in script:
        out += e_wrs(pre) + e_wrs(post)
    return out


HEADER = """From Coq Require Import ZArith QArith List Bool Arith.
Import ListNotations.
Require Import V.Lib.C45_PyVal V.C20.Model.
""" + DECODE_COQ + """
Definition pN : P nat := fun l => match l with x :: r => Some (Z.to_nat x, r) | [] => None end.
Definition pwr : P wr := pbind pZ (fun s => pbind pZ (fun f => pbind pval (fun v => pret (s, f, v)))).
Definition pkind : P kind := fun l =>
  match l with 0%Z :: r => Some (KUpd, r) | 1%Z :: r => Some (KChg, r) | _ => None end.
Definition pin : P (option (option nat)) := fun l =>
  match l with
  | 0%Z :: r => Some (None, r)
  | 1%Z :: r => Some (Some None, r)
  | 2%Z :: f :: r => Some (Some (Some (Z.to_nat f)), r)
  | _ => None
  end.
Definition pby : P (option Z) := fun l =>
  match l with 0%Z :: r => Some (None, r) | 1%Z :: m :: r => Some (Some m, r) | _ => None end.
Definition pneed : P nsyn :=
  pbind pkind (fun k => pbind pZ (fun s => pbind pin (fun i => pbind pby (fun b =>
    pret {| n_kind := k; n_share := s; n_in := i; n_by := b |})))).
Definition ptrans : P tsyn :=
  pbind pN (fun far => pbind (plist pneed) (fun ns => pret {| t_far := far; t_needs := ns |})).
Definition pguard : P (option guard) := fun l =>
  match l with
  | 0%Z :: r => Some (None, r)
  | 1%Z :: s :: f :: r => Some (Some (GCmp s f), r)
  | 2%Z :: r => pbind pneed (fun n => pret (Some (GMark n))) r
  | _ => None
  end.
Definition pframe : P fsyn :=
  pbind pguard (fun g =>
  pbind (plist pwr) (fun e => pbind (plist pwr) (fun r => pbind (plist pwr) (fun x => pbind (plist ptrans) (fun t =>
    pret {| f_guard := g; f_enter := e; f_recur := r; f_exit := x; f_trans := t |}))))).
Definition pscript : P (list (list wr * list wr)) :=
  plist (pbind (plist pwr) (fun a => pbind (plist pwr) (fun b => pret (a, b)))).
Fixpoint nats_eqb (a b : list nat) : bool :=
  match a, b with
  | [], [] => true
  | x :: a', y :: b' => Nat.eqb x y && nats_eqb a' b'
  | _, _ => false
  end.
(* program, script, observed active frame per tick *)
Definition chk (l : list Z) : bool :=
  match pbind (plist pframe) (fun p => pbind pscript (fun sc => pbind (plist pN) (fun obs =>
          pret (nats_eqb (run_prog p [(1%Z, [(0%Z, VInt 0); (1%Z, VInt 0)]); (2%Z, [(0%Z, VInt 0); (1%Z, VInt 0)]); (3%Z, [(3%Z, VInt 0)])] sc) obs)))) l with
  | Some (b, []) => b
  | _ => false
  end.
"""


def nontrivial(frames, obs):
    return isinstance(obs, list) and len(set(obs)) >= 2


def run(ctx):
    mute()
    K = 6
    ctx.rule = ("generated FloScript programs: one framer with 2-4 flat frames, 1-2 transitions per frame guarded by "
                "1-2 needs `share is updated|changed [in frame [name]] [by marker]` over 2 shares x 2 fields, shared "
                "`by` marks, enter/recur/exit `put` writes, in 60%% of the programs entry guards `let me if .gate >= 1` on "
                "target frames with the gate opened (and sometimes closed again) by the script so that satisfied "
                "transitions are refused for some ticks, plus scripted external writes (same and different values) "
                "before and after the framer in each of %d ticks; built by the real Builder, run by the real Skedder; "
                "active frame after every tick compared with the Coq kernel model; non-trivial = at least one "
                "transition taken; distinct by full program+script" % (K + 1))
    ctx.assumptions = [
        "time is the tick number (store.stamp advances by the period once per Skedder iteration); floats stamps are "
        "only compared, never computed with",
        "kernel slice: one framer, flat frames (no over/under frames, no auxiliaries), entry needs only of the form "
        "`let me if gate >= 1` on a numeric store value, transitions guarded only by marker needs; field values are python scalars compared with != (py_eqb)",
        "a `by` marker name never equals a frame name (they would collide in the real key namespace framer<name)",
    ]
    res = ctx.coq_build("C20/Props.v")

    cases, metas = [], []
    for i in range(ctx.n(800, 6000)):
        frames, script = gen_program(ctx.rng, K)
        obs = run_impl(ctx, frames, script, K, str(i % 50))
        metas.append((frames, script, obs))
        ctx.case({"program": program_text(frames, 0).split("framer post")[0], "script": script, "active": obs},
                 nontrivial=nontrivial(frames, obs), kind="frames visited=%d" % (len(set(obs)) if isinstance(obs, list) else 0))
        enc_obs = [len(obs)] + obs if isinstance(obs, list) else [1, 99]
        cases.append(("(chk %s)" % zlist(e_prog(frames) + e_script(script) + enc_obs), "true"))
    bad = ctx.coq_cases(HEADER, "Bool.eqb", cases)
    ctx.extra["mismatches"] = len(bad)
    for i in bad[:4]:
        frames, script, obs = metas[i]
        ctx.tie_broken("correspondence", "C20 kernel model vs Builder+Skedder run",
                       "program:\n%s\nscript(pre,post per tick)=%r\nobserved active per tick=%r" % (
                           program_text(frames, 0).split("  framer post")[0], script, obs))
    ctx.exhaustive = False

    def search():
        best = None
        for frames, script, obs in metas:
            exp = ref_run(frames, script, K)
            if obs != exp:
                size = sum(len(f["trans"]) for f in frames) + len(frames)
                if best is None or size < best["_size"]:
                    best = {"key": "marker-conditions", "_size": size,
                            "program": program_text(frames, K), "external_writes_per_tick(pre,post)": script,
                            "observed_active_per_tick": obs, "expected_active_per_tick": exp,
                            "contradicts": "C20.Props.updated_history / changed_history"}
        if best:
            best.pop("_size")
        return best

    ctx.settle(search)


def search(ctx):
    """fallback used by lib/main.py when run() itself crashed: implementation-only search"""
    mute()
    K = 6
    best = None
    for i in range(300):
        frames, script = gen_program(ctx.rng, K)
        obs = run_impl(ctx, frames, script, K, "s%d" % (i % 20))
        exp = ref_run(frames, script, K)
        if obs != exp:
            size = sum(len(f["trans"]) for f in frames) + len(frames)
            if best is None or size < best[0]:
                best = (size, {"key": "marker-conditions", "program": program_text(frames, K),
                               "external_writes_per_tick(pre,post)": script, "observed_active_per_tick": obs,
                               "expected_active_per_tick": exp,
                               "contradicts": "C20.Props.updated_history / changed_history"})
    return best[1] if best else None
