"""
C27 static obligation (fail-closed): every construction site of the tcp Client / ClientTls in the
library (outside tests) passes the OWNER's store, so that the reconnect timer of the client runs
on the clock its owner advances.  AST scan of the whole package; the set of sites and the store
expression at each site are pinned; anything else is reported.
"""
import ast
import os

NAMES = {"Client", "ClientTls", "Outgoer", "OutgoerTls"}
EXPECTED = {
    ("ioflo/aio/proto/stacking.py", "TcpClientStack.createHandler", "Client"): "self.stamper",
    ("ioflo/aio/http/clienting.py", "Patron.__init__", "ClientTls"): "self.store",
    ("ioflo/aio/http/clienting.py", "Patron.__init__", "Client"): "self.store",
    ("ioflo/aio/http/clienting.py", "Patron.redirect", "ClientTls"): "self.connector.store",
    ("ioflo/aio/http/clienting.py", "Patron.redirect", "Client"): "self.connector.store",
}


def callee(node):
    f = node.func
    if isinstance(f, ast.Name):
        return f.id
    if isinstance(f, ast.Attribute):
        return f.attr
    return None


def scan(repo):
    found = {}
    problems = []
    root = os.path.join(repo, "ioflo")
    for d, _, names in os.walk(root):
        if os.sep + "test" in d + os.sep or d.endswith("test"):
            continue
        for nm in sorted(names):
            if not nm.endswith(".py"):
                continue
            path = os.path.join(d, nm)
            rel = os.path.relpath(path, repo)
            try:
                tree = ast.parse(open(path, encoding="utf8", errors="replace").read())
            except SyntaxError as ex:
                problems.append("%s: cannot parse (%s)" % (rel, ex))
                continue
            for cls in [n for n in tree.body if isinstance(n, ast.ClassDef)]:
                for fn in [n for n in cls.body if isinstance(n, ast.FunctionDef)]:
                    for node in ast.walk(fn):
                        if isinstance(node, ast.Call) and callee(node) in NAMES:
                            if isinstance(node.func, ast.Attribute) and not (
                                    isinstance(node.func.value, ast.Name) and node.func.value.id in ("clienting", "tcp")):
                                continue          # e.g. super(OutgoerTls, self)
                            store = [k for k in node.keywords if k.arg == "store"]
                            key = (rel, "%s.%s" % (cls.name, fn.name), callee(node))
                            found[key] = ast.unparse(store[0].value) if store else None
            for node in [n for n in tree.body if not isinstance(n, ast.ClassDef)]:
                for sub in ast.walk(node):
                    if isinstance(sub, ast.Call) and callee(sub) in NAMES and isinstance(sub.func, ast.Name):
                        problems.append("%s: module/function level construction of %s" % (rel, callee(sub)))
    for key, want in EXPECTED.items():
        if key not in found:
            problems.append("site %s.%s(%s) not found" % key)
        elif found[key] != want:
            problems.append("%s %s: %s(store=%s), expected store=%s" % (key[0], key[1], key[2], found[key], want))
    for key in found:
        if key not in EXPECTED:
            problems.append("unknown construction site %s %s: %s(store=%s)" % (key + (found[key],)))
    return found, problems
