"""
C27 -- reconnectable clients (and the HTTP client / stream stack using one) eventually reconnect.

Tie H: coq/C27/Model.v is a hand model of Client.open/close/reopen/accept/serviceConnect,
       StoreTimer, the connection part of Patron.serviceAll and TcpClientStack.serviceConnect.
  theorems       : coq/C27/Props.v (all schedules, all connect_ex oracles)
  correspondence : the same schedule is run on the REAL Client / Patron / TcpClientStack with a
                   socket double (connect_ex results from the oracle table, store clock set by
                   the schedule) and on the model; the whole observation stream (flags, socket
                   index, attempts, ca/ha/local.ha, timer start, socket-level event log) must agree.
  thorough tier  : real loopback listeners started/stopped on a schedule (supporting only).
"""
import itertools
import os
import sys

sys.path.insert(0, os.path.dirname(os.path.abspath(__file__)))
import harness  # noqa: E402
import sites  # noqa: E402
from vlib import cz, clist, cbool  # noqa: E402

LEVEL = "proof"

HEADER = r"""
From Coq Require Import List ZArith Bool.
Import ListNotations.
Require Import V.C27.Model.
Open Scope Z_scope.
Definition zb (b : bool) : Z := if b then 1 else 0.
Definition zo (o : option Z) : Z := match o with None => -1 | Some z => z end.
Definition rcode (r : cres) : Z :=
  match r with C0 => 0 | CISCONN => 1 | CINPROGRESS => 2 | CALREADY => 3 | CREFUSED => 4 | CINVAL => 5 | COTHER => 6 | CRAISE => 7 | CNAMERR => 8 end.
Definition enc_obs (c : client) : list Z :=
  [zb (accepted c); zb (cutoff c); zb (opened c);
   match cs c with None => -1 | Some s => Z.of_nat s end;
   match cs c with None => -1 | Some _ => Z.of_nat (att c) end;
   Z.of_nat (nsock c); zo (ca c); ha c; zo (lha c); tstart c; tdur c; now c].
Definition enc_ev (e : event) : list Z :=
  match e with
  | EvOpen s => [1; Z.of_nat s]
  | EvClose s => [2; Z.of_nat s]
  | EvConnect s k r => [3; Z.of_nat s; Z.of_nat k; rcode r]
  end.
Definition lname (s : nat) : Z := 40000 + Z.of_nat s.
Definition pname (s : nat) : Z := 50000 + Z.of_nat s.
Fixpoint trace (o : nat -> nat -> cres) (d : drv) (c : client) (ts : list tick) : list Z * client :=
  match ts with
  | [] => ([], c)
  | t :: ts' => let c' := step o lname pname d c t in
                let '(l, cf) := trace o d c' ts' in (enc_obs c' ++ l, cf)
  end.
Definition enc_run (tbl : list (list cres)) (dflt : cres) (d : drv) (tmo : Z) (rc : bool) (ts : list tick) : list Z :=
  let o := orc_of tbl dflt in
  let c0 := start d 7 tmo rc in
  let '(l, cf) := trace o d c0 ts in
  enc_obs c0 ++ l ++ [-7] ++ flat_map enc_ev (evs cf).
Fixpoint trace_ev (o : nat -> nat -> cres) (r : Z) (c : client) (ts : list tick) : list Z * client :=
  match ts with
  | [] => ([], c)
  | t :: ts' => let c' := step_ev o lname pname r c t in
                let '(l, cf) := trace_ev o r c' ts' in (enc_obs c' ++ l, cf)
  end.
Definition enc_run_ev (tbl : list (list cres)) (dflt : cres) (tmo : Z) (rc : bool) (r : Z) (ts : list tick) : list Z :=
  let o := orc_of tbl dflt in
  let c0 := start Patron 7 tmo rc in
  let '(l, cf) := trace_ev o r c0 ts in
  enc_obs c0 ++ l ++ [-7] ++ flat_map enc_ev (evs cf).
Fixpoint l_eqb (a b : list Z) : bool :=
  match a, b with [], [] => true | x :: a', y :: b' => Z.eqb x y && l_eqb a' b' | _, _ => false end.
"""


def c_case(drv, rc, tmo, table, dflt, ticks):
    tbl = clist([clist(row, "cres") for row in table], "(list cres)")
    ts = clist(["(%s, %s)" % (cz(dt), cbool(cut)) for dt, cut in ticks], "tick")
    return "(enc_run %s %s %s %s %s %s)" % (tbl, dflt, drv, cz(tmo), cbool(rc), ts)


# ---------------------------------------------------------------------------------------------
# the property's executable statement, on the implementation's observable behaviour only

def listening_table(n0, lag, nsock, rng=None, down=None):
    """sockets < n0 : `down` rows (server not listening); sockets >= n0: `lag` in-progress then connected"""
    rows = []
    for sid in range(nsock):
        if sid < n0:
            rows.append(list(down[sid % len(down)]) if down else ["CINPROGRESS", "CREFUSED"])
        else:
            rows.append(["CINPROGRESS" if (rng is None or rng.random() < 0.7) else "CALREADY"
                         for _ in range(lag)] + ["C0"])
    return rows


def bound(tmo, dmin, lag):
    """the bound of theorem reconnect_bounded: ceil(tmo/dmin) + lag + 1 service calls (tight)"""
    return -(-tmo // dmin) + lag + 1


def liveness_case(drv, tmo, dmin, dmax, lag, pre_ticks, table, dflt, rng):
    """build a schedule: arbitrary prefix, then a paced suffix of `bound` ticks without cuts"""
    n = bound(tmo, dmin, lag)
    suffix = [(rng.randint(dmin, dmax), False) for _ in range(n)]
    return pre_ticks + suffix, len(pre_ticks), n


def prop_liveness(drv, info, i0, n):
    """connected (and not cut off) at the end of the paced window, reporting the live socket's addresses"""
    ok = info["connected_at"][i0 + n - 1]
    if not ok:
        return "not connected within %d service calls after the server listens" % n
    if info["ca"] != harness.LBASE + info["sid"] or info["ha"] != harness.PBASE + info["sid"]:
        return "ca/ha are not the live socket's addresses"
    if drv == "Stack" and info["lha"] != info["ca"]:
        return "stack local.ha is not the live socket's local address"
    return None


# owner-clock shapes: (timeout ticks, lag, dt ticks, idle calls before the cut, first socket's lag,
# event-stream retry ms or None); all meet the pacing premise (lag+1)*dt < timer duration
OWNER_SHAPES = [(2, 0, 1, 0, 0, None), (4, 1, 1, 0, 0, None), (4, 0, 1, 3, 1, None), (5, 0, 2, 2, 0, None),
                (8, 2, 1, 1, 2, None), (8, 1, 3, 0, 0, None), (16, 3, 1, 5, 0, None), (16, 1, 5, 1, 1, None),
                (8, 1, 1, 1, 0, 1000), (3, 0, 1, 0, 0, 500)]


def prop_owner(drv, info):
    """executable statement on an owner-clock history (premise: it did connect and did see the cut)"""
    if not (info["first_connected"] and info["cut_seen"]):
        return None
    if not info["connected"]:
        return ("not connected %d service calls after the cut although the listener is up and %d ticks went by on "
                "the owner's clock (tcp client's own store saw %d)" % (
                    info["n"], info["owner_clock_elapsed_ticks"], info["client_clock_elapsed_ticks"]))
    if not (info["same_clock"] and info["same_clock_after"]):
        return "the owner's clock object is not the store of the tcp client it built"
    if info["ca"] != harness.LBASE + info["sid"] or info["ha"] != harness.PBASE + info["sid"]:
        return "ca/ha are not the live socket's addresses"
    if drv == "Stack" and info["lha"] != info["ca"]:
        return "stack local.ha is not the live socket's local address"
    return None


def run(ctx):
    ctx.rule = ("schedules = (driver Bare|Patron|Stack, reconnectable, timeout, connect_ex oracle table per "
                "socket, ticks (clock advance, far-side cut)); each is run on the real classes with a socket "
                "double and on the Coq model, whole observation stream compared inside Coq; non-trivial = "
                "at least one reopen and (a cut or a timer expiry); distinct by full schedule.  Directed family "
                "'owner-clock' (runs first): Patron (non-TLS) / TcpClientStack built WITHOUT and WITH a store "
                "(stamper) argument construct their own tcp client, connect, are cut off by the peer while the "
                "listener stays up; time advances only through owner.store / owner.stamper, service only through "
                "serviceAll / serviceWhile / serviceWhileGen; statement: connected again after "
                "ceil(timeout/dt)+lag+1 calls and the owner's clock IS the client's store (implementation only)")
    ctx.assumptions = [
        "socket double: connect_ex returns the oracle's errno and never raises; recv returns b'' exactly when the "
        "schedule cuts the connection, else EAGAIN; getsockname/getpeername are functions of the socket index",
        "store time in multiples of 1/8 s (exact binary64 arithmetic); model time = integer ticks",
        "owner-clock family: time.sleep inside Patron.serviceWhile is replaced by a no-op (its store advance of "
        "0.125 s per iteration is the real code's)",
        "liveness premise (in the theorem): per call dmin <= dt <= dmax, 0 < dmin, (lag+1)*dmax < timeout, no cut "
        "in the window, sockets created after the server is up connect after at most lag in-progress results",
    ]
    ctx.coq_build("C27/Props.v")

    # static obligation: every Client/ClientTls construction site passes its owner's store
    ctx.obligations += 1
    found, problems = sites.scan(ctx.repo)
    ctx.extra["client_construction_sites"] = {"%s %s %s" % k: v for k, v in found.items()}
    if problems:
        ctx.tie_broken("static", "tcp Client construction sites / owner's store", "; ".join(problems))
    else:
        ctx.discharged += 1
        ctx.theorems.append("static:client_sites_pass_owner_store")

    rng = ctx.rng
    cases, metas = [], []

    def add(drv, rc, tmo, table, dflt, ticks, kind, live=None, own=True, retry_ms=None):
        # event-stream Patron: clock unit 1/64 s, model duration = ceil(retry / unit)
        tick = 1.0 / 64 if retry_ms is not None else None
        rticks = -(-retry_ms * 64 // 1000) if retry_ms is not None else None
        out, info = harness.run_impl(drv, rc, tmo, table, dflt, ticks, own=own, retry_ms=retry_ms, tick=tick)
        nontriv = info["opens"] >= 2 and (any(c for _, c in ticks) or sum(dt for dt, _ in ticks) >= tmo > 0)
        ctx.case({"drv": drv, "rc": rc, "tmo": tmo, "table": table, "dflt": dflt, "ticks": ticks},
                 nontrivial=nontriv, kind=kind)
        if retry_ms is None:
            cases.append((c_case(drv, rc, tmo, table, dflt, ticks), clist([cz(x) for x in out], "Z")))
        else:
            tbl = clist([clist(row, "cres") for row in table], "(list cres)")
            ts = clist(["(%s, %s)" % (cz(dt), cbool(cut)) for dt, cut in ticks], "tick")
            cases.append(("(enc_run_ev %s %s %s %s %s %s)" % (tbl, dflt, cz(tmo), cbool(rc), cz(rticks), ts),
                          clist([cz(x) for x in out], "Z")))
        metas.append({"drv": drv, "rc": rc, "tmo": tmo, "table": table, "dflt": dflt, "ticks": ticks,
                      "info": info, "live": live, "own": own, "retry_ms": retry_ms})

    # 0. directed family (runs first, both tiers): owner-clock histories.  The owner builds its tcp
    #    client itself, without / with a store argument; time moves ONLY through the owner's clock
    #    (Patron.store / TcpClientStack.stamper), service ONLY through the owner's public methods.
    owner_runs = []
    for drv, vias in (("Patron", ("serviceAll", "serviceWhileGen", "serviceWhile")), ("Stack", ("serviceAll",))):
        for with_store in (False, True):
            for via in vias:
                for tmo, lag, dt, idle, first_lag, ev in OWNER_SHAPES:
                    if (via == "serviceWhile" and dt != 1) or (ev is not None and drv != "Patron"):
                        continue
                    inp = {"driver": drv, "store_argument_given": with_store, "service_via": via,
                           "timeout_ticks": tmo, "lag": lag, "dt_ticks": dt, "idle_calls_before_cut": idle,
                           "first_socket_lag": first_lag, "event_stream_retry_ms": ev}
                    info = harness.run_owner(drv, with_store, via, tmo, lag, dt, idle, first_lag, ev)
                    why = prop_owner(drv, info)
                    ctx.case(inp, nontrivial=info["first_connected"] and info["cut_seen"] and info["opens_after_cut"] >= 1,
                             kind="owner-clock")
                    owner_runs.append((inp, info, why))
    owner_bad = [r for r in owner_runs if r[2]]
    ctx.extra["owner_clock_cases"] = len(owner_runs)
    ctx.extra["owner_clock_premise_met"] = sum(1 for r in owner_runs if r[1]["first_connected"] and r[1]["cut_seen"])
    ctx.extra["owner_clock_failures"] = len(owner_bad)
    for inp, info, why in owner_bad[:3]:
        ctx.tie_broken("correspondence", "C27 owner-clock history vs reconnect_bounded",
                       "%s: input=%r observed=%r" % (why, inp, info))

    drivers = ["Bare", "Patron", "Stack"]
    # 1. small-scope exhaustive: every tick sequence of length L over dt in {0,2}, cut in {F,T}
    tables = [
        ([["CINPROGRESS", "C0"]], "C0"),
        ([["CREFUSED"], ["CINPROGRESS", "CINPROGRESS", "C0"]], "CISCONN"),
        ([["CINPROGRESS", "CALREADY", "CALREADY", "CALREADY"], ["CINPROGRESS", "C0"]], "C0"),
        ([["CRAISE", "CNAMERR", "C0"], ["CINVAL"], ["COTHER", "CISCONN"]], "CINPROGRESS"),
        ([["C0"], ["CINVAL"], ["COTHER", "CISCONN"]], "CINPROGRESS"),
        ([], "CREFUSED"),
        ([["CINPROGRESS"], ["CINPROGRESS"]], "COTHER"),
    ]
    L = ctx.n(3, 4)
    for ticks in itertools.product([(0, False), (2, False), (0, True), (2, True)], repeat=L):
        for table, dflt in (tables if ctx.thorough else tables[:4]):
            for drv in drivers:
                for rc in (True, False):
                    add(drv, rc, 2, table, dflt, list(ticks), "exhaustive")
    # 2. random schedules
    names = harness.RES
    for _ in range(ctx.n(1000, 12000)):
        drv = rng.choice(drivers)
        rc = rng.random() < 0.75
        tmo = rng.choice([0, 1, 2, 3, 5, 8, 16])
        table = [[rng.choice(names) for _ in range(rng.randint(0, 4))] for _ in range(rng.randint(0, 6))]
        dflt = rng.choice(names)
        ticks = [(rng.choice([0, 0, 1, 1, 2, 3, 9]), rng.random() < 0.2) for _ in range(rng.randint(1, 24))]
        add(drv, rc, tmo, table, dflt, ticks, "random", own=rng.random() < 0.5)
    # 3. down-then-up schedules satisfying the premises of reconnect_bounded
    downs = [["CINPROGRESS", "CREFUSED"], ["CREFUSED"], ["CINPROGRESS", "CALREADY", "CALREADY", "CALREADY", "CALREADY"],
             ["COTHER", "COTHER", "CINVAL"], ["CINPROGRESS", "COTHER", "COTHER", "COTHER", "COTHER", "COTHER"]]
    for _ in range(ctx.n(400, 5000)):
        drv = rng.choice(drivers)
        lag = rng.randint(0, 3)
        dmax = rng.randint(1, 3)
        dmin = rng.randint(1, dmax)
        tmo = (lag + 1) * dmax + rng.randint(1, 6)
        # prefix: server down (arbitrary pacing, cuts allowed)
        pre = [(rng.choice([0, 1, 2, 5]), rng.random() < 0.25) for _ in range(rng.randint(0, 12))]
        if rng.random() < 0.5:    # a stretch serviced far slower than the timeout / a clock jump
            for _ in range(rng.randint(1, 3)):
                pre.insert(rng.randint(0, len(pre)), (tmo * rng.choice([1, 2, 3, 5]) + rng.randint(0, 3), False))
        # run the prefix alone to learn how many sockets exist when the server comes up
        dtab = [rng.choice(downs) for _ in range(40)]
        if rng.random() < 0.3:   # start connected then get cut: first socket connects at once
            dtab[0] = ["C0"]
            pre = pre + [(1, True)]
        _, pinfo = harness.run_impl(drv, True, tmo, dtab, "C0", pre)   # same default as the final run
        n0 = pinfo["opens"]
        table = dtab[:n0] + listening_table(0, lag, 6, rng)
        ticks, i0, n = liveness_case(drv, tmo, dmin, dmax, lag, pre, table, "C0", rng)
        add(drv, True, tmo, table, "C0", ticks, "down-then-up", live=(i0, n))

    # 4. event-stream Patron (respondent.evented): the reconnect duration comes from respondent.retry.
    #    connected, cut off, server down for a while, then listening: bounded reconnect on the retry timer
    for _ in range(ctx.n(250, 2500)):
        retry_ms = rng.choice([100, 250, 999, 1000, 3000])
        rt = -(-retry_ms * 64 // 1000)
        lag = rng.randint(0, 2)
        dmax = rng.randint(1, max(1, (rt - 1) // (lag + 1)))
        if (lag + 1) * dmax >= rt:
            continue
        dmin = rng.randint(1, dmax)
        tmo = rng.choice([rt, rt + rng.randint(1, 40), max((lag + 1) * dmax + 1, rt - rng.randint(0, 3))])
        if (lag + 1) * dmax >= tmo:
            continue
        ndown = rng.randint(0, 3)
        dtab = [["C0"]] + [rng.choice(downs) for _ in range(ndown)]
        pre = [(rng.randint(0, 3), False), (rng.randint(0, 5), True)] + \
              [(rng.choice([0, 1, 3, rt, tmo, 2 * tmo]), False) for _ in range(rng.randint(0, 10))]
        _, pinfo = harness.run_impl("Patron", True, tmo, dtab + [["CINPROGRESS", "CREFUSED"]] * 30, "C0",
                                    pre, retry_ms=retry_ms, tick=1.0 / 64)
        n0 = pinfo["opens"]
        table = (dtab + [["CINPROGRESS", "CREFUSED"]] * 30)[:n0] + listening_table(0, lag, 6, rng)
        n = bound(max(tmo, rt), dmin, lag)
        ticks = pre + [(rng.randint(dmin, dmax), False) for _ in range(n)]
        add("Patron", True, tmo, table, "C0", ticks, "event-stream", live=(len(pre), n), retry_ms=retry_ms)
    for retry_ms in (100, 250, 999, 1000, 3000):        # fixed small instances, both reconnectable or not
        rt = -(-retry_ms * 64 // 1000)
        for rc in (True, False):
            add("Patron", rc, rt + 3, [["C0"], ["CINPROGRESS", "C0"]], "C0",
                [(1, False), (1, True)] + [(2, False)] * (rt + 8), "event-stream-fixed",
                live=((2, rt // 2 + 6) if rc else None), retry_ms=retry_ms)

    bad = ctx.coq_cases(HEADER, "l_eqb", cases, name="c27")
    for i in bad[:5]:
        m = metas[i]
        ctx.tie_broken("correspondence", "C27 model vs Client/Patron/TcpClientStack",
                       "drv=%s rc=%s tmo=%s table=%r dflt=%s ticks=%r info=%r" % (
                           m["drv"], m["rc"], m["tmo"], m["table"], m["dflt"], m["ticks"], m["info"]))
    ctx.extra["mismatches"] = len(bad)
    # the executable statement evaluated on every premise-meeting schedule (diagnostic; the verdict
    # comes from proofs + correspondence, the search re-evaluates it when a tie is broken)
    ctx.extra["liveness_statement_failures"] = sum(
        1 for m in metas if m["live"] is not None and prop_liveness(m["drv"], m["info"], *m["live"]))
    ctx.extra["liveness_statement_failing"] = [
        {k: m[k] for k in ("drv", "tmo", "table", "ticks", "live", "retry_ms", "own")}
        for m in metas if m["live"] is not None and prop_liveness(m["drv"], m["info"], *m["live"])][:5]
    ctx.extra["liveness_statement_cases"] = sum(1 for m in metas if m["live"] is not None)
    ctx.exhaustive = False

    if ctx.thorough:
        try:
            import loopback
            ctx.extra["loopback"] = loopback.explore(ctx)
        except Exception as ex:  # supporting exploration only; never decides the verdict
            ctx.extra["loopback_error"] = repr(ex)

    def bare_cut(m):
        """the schedule exercises the one known candidate: bare reconnectable Client, connection cut"""
        return m["drv"] == "Bare" and m["rc"] and any(c for _, c in m["ticks"])

    def search():
        # finding key: 'bare-client-cutoff' only when EVERY disagreement of this run is a bare
        # reconnectable client losing an established connection; anything else is 'reconnect'
        only_bare = bool(bad) and all(bare_cut(metas[i]) for i in bad)
        best = None
        for inp, info, why in owner_bad:    # directed owner-clock histories first (smallest input wins)
            cand = dict(inp, key="reconnect", observed=info, why=why,
                        history="owner built with%s store argument, reconnectable, listener up all the time; connect, "
                                "%d idle calls, peer closes, then %d calls %d tick(s) (1/8 s) apart, time advanced only "
                                "through the owner's clock" % ("" if inp["store_argument_given"] else "out",
                                                                inp["idle_calls_before_cut"], info["n"], inp["dt_ticks"]),
                        expected="connected and not cut off after ceil(timeout/dt)+lag+1 = %d service calls, and the "
                                 "owner's clock object is the tcp client's store" % info["n"],
                        contradicts="C27.Props.reconnect_bounded / reconnect_after_any_history")
            rank = (False, -1000 + info["n"] + inp["idle_calls_before_cut"] + inp["first_socket_lag"])
            if best is None or rank < best[0]:
                best = (rank, cand)
        for m in metas:
            why = None
            info = m["info"]
            if m["live"] is not None:
                why = prop_liveness(m["drv"], info, *m["live"])
                thm = "C27.Props.reconnect_bounded / addresses_live"
            elif not m["rc"]:
                # non-reconnectable: once cut off, no socket may be opened by service calls
                why = nonreconn_violation(m)
                thm = "C27.Props.non_reconnectable_never_reopens"
            if why:
                key = "bare-client-cutoff" if (only_bare and bare_cut(m)) else "reconnect"
                cand = {"key": key, "driver": m["drv"], "event_stream_retry_ms": m.get("retry_ms"),
                        "built_by_owner": m.get("own", True), "reconnectable": m["rc"], "timeout_ticks": m["tmo"],
                        "oracle_table": m["table"], "oracle_default": m["dflt"], "ticks": m["ticks"],
                        "observed": info, "why": why, "contradicts": thm}
                rank = (key != "reconnect", len(m["ticks"]))
                if best is None or rank < best[0]:
                    best = (rank, cand)
        return best[1] if best else None

    ctx.settle(search)


def nonreconn_violation(m):
    """re-run prefix by prefix: after the first tick at which the client is cut off, the number of
    sockets opened must not change"""
    ticks = m["ticks"]
    base = None
    for k in range(1, len(ticks) + 1):
        _, info = harness.run_impl(m["drv"], False, m["tmo"], m["table"], m["dflt"], ticks[:k], own=m.get("own", True),
                                   retry_ms=m.get("retry_ms"), tick=(1.0 / 64 if m.get("retry_ms") is not None else None))
        if base is not None:
            if info["opens"] != base:
                return "non-reconnectable client opened a socket after cut off (tick %d)" % k
            if not info["cutoff"]:
                return "cutoff flag cleared without a reopen (tick %d)" % k
        elif info["cutoff"]:
            base = info["opens"]
    return None
