"""
C27 harness: socket double + store clock, runs the REAL Client / Patron / TcpClientStack
through a schedule and returns the observation stream as a flat list of ints (the same
encoding as `enc_run` in the Coq header of check.py).

Doubles live in this process only: ioflo.aio.tcp.clienting's module global `socket` is
replaced by a namespace whose `socket()` factory returns FakeSock objects.
"""
import errno
import socket as real_socket

RES = ["C0", "CISCONN", "CINPROGRESS", "CALREADY", "CREFUSED", "CINVAL", "COTHER", "CRAISE", "CNAMERR"]
OTHERS = [errno.ETIMEDOUT, errno.EHOSTUNREACH, errno.ENETUNREACH, errno.EAGAIN, errno.EINTR]
LBASE, PBASE, HA0 = 40000, 50000, 7
TICK = 0.125   # seconds per model time unit (exact in binary64)


class World(object):
    def __init__(self, table, dflt):
        self.table = table      # list (per socket) of lists of result names
        self.dflt = dflt
        self.evs = []           # flat ints
        self.nsock = 0
        self.cut_pending = False
        self.nother = 0
        self.socks = []

    def result(self, sid, k):
        row = self.table[sid] if sid < len(self.table) else []
        return row[k] if k < len(row) else self.dflt

    def errno_of(self, name):
        if name == "C0":
            return 0
        if name == "COTHER":
            self.nother += 1
            return OTHERS[self.nother % len(OTHERS)]
        return {"CISCONN": errno.EISCONN, "CINPROGRESS": errno.EINPROGRESS, "CALREADY": errno.EALREADY,
                "CREFUSED": errno.ECONNREFUSED, "CINVAL": errno.EINVAL}[name]


class FakeSock(object):
    def __init__(self, world):
        self.w = world
        self.sid = world.nsock
        world.nsock += 1
        self.k = 0
        self.closed = False
        self.name_fail = False
        world.evs += [1, self.sid]
        world.socks.append(self)

    def setsockopt(self, *a):
        pass

    def getsockopt(self, *a):
        return 1 << 22

    def setblocking(self, flag):
        pass

    def connect_ex(self, ha):
        assert not self.closed
        name = self.w.result(self.sid, self.k)
        self.w.evs += [3, self.sid, self.k, RES.index(name)]
        self.k += 1
        if name == "CRAISE":      # connect_ex itself raises (address-level error)
            raise real_socket.error(errno.EADDRNOTAVAIL, "cannot assign requested address")
        if name == "CNAMERR":     # connect_ex succeeds, the following getsockname raises
            self.name_fail = True
            return 0
        return self.w.errno_of(name)

    def getsockname(self):
        if self.name_fail:
            self.name_fail = False
            raise real_socket.error(errno.ENOTCONN, "not connected")
        return ('127.0.0.1', LBASE + self.sid)

    def getpeername(self):
        return ('127.0.0.9', PBASE + self.sid)

    def shutdown(self, how):
        pass

    def close(self):
        self.closed = True
        self.w.evs += [2, self.sid]

    def recv(self, n):
        if self.w.cut_pending:
            self.w.cut_pending = False
            return b''
        raise real_socket.error(errno.EAGAIN, "would block")

    def send(self, data):
        return len(data)


class FakeSocketModule(object):
    def __init__(self, world):
        self._w = world

    def socket(self, *a, **k):
        return FakeSock(self._w)

    def __getattr__(self, name):
        return getattr(real_socket, name)


def addr(a):
    if a is None or a == (None, None):
        return -1
    return int(a[1])


def run_impl(drv, rc, tmo, table, dflt, ticks, own=True, retry_ms=None, tick=None):
    """drv in Bare|Patron|Stack; rc bool; tmo int ticks; ticks = [(dt, cut)].
    own=True: Patron / TcpClientStack build their tcp Client THEMSELVES (Patron.__init__ /
    TcpClientStack.createHandler) and the harness advances ONLY the owner's store; own=False: the
    harness constructs the Client and hands it over (connector= / handler=).
    retry_ms (Patron only): the response is a server-sent-event stream (respondent.evented) with that
    retry value; tick = seconds per model time unit (default 1/8; use 1/64 with retry_ms).
    returns (flat observation list, info dict)"""
    import math
    TICK = tick if tick is not None else globals()["TICK"]
    from ioflo.aio.tcp import clienting
    from ioflo.base import storing
    w = World(table, dflt)
    saved = clienting.socket
    saved_verb = clienting.console._verbosity
    clienting.console.reinit(verbosity=0)      # accept() reports a raising connect_ex on the console
    clienting.socket = FakeSocketModule(w)
    try:
        store = storing.Store(stamp=0.0)
        top = None
        if drv == "Bare" or not own:
            client = clienting.Client(ha=('127.0.0.1', HA0), store=store, timeout=tmo * TICK,
                                      reconnectable=rc)
        if drv == "Patron":
            from ioflo.aio.http import clienting as hclienting
            if own:
                top = hclienting.Patron(store=store, hostname='127.0.0.1', port=HA0,
                                        reconnectable=rc, timeout=tmo * TICK)
                client = top.connector
            else:
                top = hclienting.Patron(connector=client, store=store)
            if retry_ms is not None:
                top.respondent.evented = True
                top.respondent.retry = retry_ms
        elif drv == "Stack":
            from ioflo.aio.proto import stacking
            if own:
                top = stacking.TcpClientStack(stamper=store, ha=('127.0.0.1', HA0), timeout=tmo * TICK)
                client = top.handler
                client.reconnectable = rc     # createHandler has no reconnectable parameter
            else:
                top = stacking.TcpClientStack(handler=client, stamper=store, ha=('127.0.0.1', HA0))

        def obs():
            cs = client.cs
            lha = addr(top.local.ha) if drv == "Stack" else -1
            return [int(bool(client.accepted)), int(bool(client.cutoff)), int(bool(client.opened)),
                    cs.sid if cs is not None else -1,
                    cs.k if cs is not None else -1,
                    w.nsock, addr(client.ca), addr(client.ha), lha,
                    int(round(client.timer.start / TICK)), int(math.ceil(client.timer.duration / TICK - 1e-9)),
                    int(round(store.stamp / TICK))]

        out = obs()
        connected_at = []
        raises = 0
        for i, (dt, cut) in enumerate(ticks):
            store.stamp = store.stamp + dt * TICK
            if cut:
                w.cut_pending = True
                client.serviceReceives()
                w.cut_pending = False
            try:
                if drv == "Bare":
                    client.serviceConnect()
                else:
                    top.serviceAll()
            except real_socket.error:
                raises += 1    # connect_ex / getsockname raised: propagates out of the service call
            o = obs()
            out += o
            connected_at.append(bool(client.connected) and not client.cutoff)
        out += [-7] + w.evs
        info = {"connected_at": connected_at, "ca": addr(client.ca), "ha": addr(client.ha),
                "sid": client.cs.sid if client.cs is not None else -1,
                "lha": addr(top.local.ha) if drv == "Stack" else -1,
                "opens": w.nsock, "raises": raises, "cutoff": bool(client.cutoff), "accepted": bool(client.accepted)}
        return out, info
    finally:
        clienting.socket = saved
        clienting.console.reinit(verbosity=saved_verb)


class _NoSleepTime(object):
    """clock double for Patron.serviceWhile: time.sleep returns at once (store time is what counts)"""
    def sleep(self, s):
        pass

    def __getattr__(self, name):
        import time as real_time
        return getattr(real_time, name)


def run_owner(drv, with_store, via, tmo, lag, dt, idle, first_lag=0, evented_ms=None):
    """Owner-clock history (directed family of check.py).  The owner (Patron, non-TLS, or
    TcpClientStack) constructs its tcp client ITSELF, WITHOUT a store/stamper argument
    (with_store=False: the owner makes its own clock) or WITH one; reconnectable, timeout tmo ticks.
    Everything goes through the owner's public surface: time is advanced ONLY through the owner's
    clock object (`owner.store` for Patron, `owner.stamper` for the stack), service calls are
    owner.serviceAll() / Patron.serviceWhile() / Patron.serviceWhileGen(); the far side cuts the
    connection by letting the owner's own receive see b''.  The listener stays up: every socket
    answers `lag` (first socket: first_lag) in-progress results, then 0.
    Schedule: service until connected; `idle` paced calls; one call during which the peer closes;
    then n = ceil(tmo/dt) + lag + 1 calls paced dt ticks apart (serviceWhile: dt must be 1).
    returns info dict (observations after the cut window only through public attributes)"""
    from ioflo.aio.tcp import clienting
    from ioflo.base import storing
    from ioflo.aio.http import clienting as hclienting
    table = [["CINPROGRESS"] * first_lag + ["C0"]] + [["CINPROGRESS"] * lag + ["C0"] for _ in range(8)]
    w = World(table, "C0")
    saved, saved_time = clienting.socket, hclienting.time
    saved_verb = clienting.console._verbosity
    clienting.console.reinit(verbosity=0)
    clienting.socket = FakeSocketModule(w)
    hclienting.time = _NoSleepTime()
    try:
        kw = {}
        given = storing.Store(stamp=0.0) if with_store else None
        if drv == "Patron":
            if with_store:
                kw["store"] = given
            owner = hclienting.Patron(hostname='127.0.0.1', port=HA0, reconnectable=True,
                                      timeout=tmo * TICK, **kw)
            if evented_ms is not None:
                owner.respondent.evented = True
                owner.respondent.retry = evented_ms
            client = owner.connector
            clock = owner.store
        else:
            from ioflo.aio.proto import stacking
            if with_store:
                kw["stamper"] = given
            owner = stacking.TcpClientStack(ha=('127.0.0.1', HA0), timeout=tmo * TICK, **kw)
            client = owner.handler
            client.reconnectable = True      # createHandler has no reconnectable parameter
            clock = owner.stamper
        advance = getattr(clock, "advanceStamp", None) or clock.advance
        same_clock = client.store is clock and (given is None or clock is given)

        def connected():
            return bool(client.connected) and not client.cutoff

        calls = 0
        client.reopen()
        for _ in range(max(lag, first_lag) + 3):          # first connection (the stack opens a socket of its own first)
            advance(dt * TICK)
            owner.serviceAll()
            calls += 1
            if connected():
                break
        info = {"first_connected": connected(), "same_clock": same_clock}
        for _ in range(idle):
            advance(dt * TICK)
            owner.serviceAll()
            calls += 1
        advance(dt * TICK)
        w.cut_pending = True                     # the peer closes: the owner's own receive sees b''
        owner.serviceAll()
        w.cut_pending = False
        info["cut_seen"] = bool(client.cutoff)
        opens0 = w.nsock
        n = -(-tmo // dt) + lag + 1
        t0 = clock.stamp
        connected_at = []
        if via == "serviceAll":
            for _ in range(n):
                advance(dt * TICK)
                owner.serviceAll()
                connected_at.append(connected())
        elif via == "serviceWhileGen":
            gen = owner.serviceWhileGen(timeout=(n + 1) * dt * TICK)
            for _ in range(n):
                advance(dt * TICK)
                next(gen)
                connected_at.append(connected())
            gen.close()
        elif via == "serviceWhile":
            assert dt == 1
            advance(TICK)
            owner.serviceWhile(timeout=n * TICK)     # n x (serviceAll; store.advanceStamp(0.125))
            connected_at = [None] * (n - 1) + [connected()]
        else:
            raise ValueError(via)
        info.update({"n": n, "connected_at": connected_at, "connected": connected(),
                     "owner_clock_elapsed_ticks": int(round((clock.stamp - t0) / TICK)),
                     "client_clock_elapsed_ticks": int(round((client.store.stamp - t0) / TICK)),
                     "same_clock_after": client.store is clock,
                     "opens_after_cut": w.nsock - opens0,
                     "ca": addr(client.ca), "ha": addr(client.ha),
                     "sid": client.cs.sid if client.cs is not None else -1,
                     "lha": addr(owner.local.ha) if drv == "Stack" else -1})
        return info
    finally:
        clienting.socket = saved
        hclienting.time = saved_time
        clienting.console.reinit(verbosity=saved_verb)
