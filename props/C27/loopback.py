"""
C27 thorough-tier exploration with REAL loopback sockets (supporting only; never decides the
verdict).  A real listener is started/stopped on a schedule; a reconnectable Client /
TcpClientStack (store clock advanced by hand, real sleeps only to let the kernel finish the
handshake) must be connected within the theorem's bound once the listener stays up.
"""
import socket
import time


def free_port():
    s = socket.socket()
    s.bind(('127.0.0.1', 0))
    p = s.getsockname()[1]
    s.close()
    return p


def explore(ctx):
    from ioflo.aio.tcp import clienting, serving
    from ioflo.aio.proto import stacking
    from ioflo.base import storing
    res = {"runs": 0, "connected_within_bound": 0, "addresses_ok": 0, "failures": []}
    for k in range(ctx.n(0, 12)):
        port = free_port()
        store = storing.Store(stamp=0.0)
        tmo, dt, lag = 1.0, 0.125, 2     # 8 calls per timeout; loopback connects after <= 2 polls
        use_stack = k % 2 == 1
        client = clienting.Client(ha=('127.0.0.1', port), store=store, timeout=tmo, reconnectable=True)
        top = stacking.TcpClientStack(handler=client, stamper=store, ha=('127.0.0.1', port)) if use_stack else None
        down = ctx.rng.randint(0, 20)
        server = None
        acc = []
        bound = int(tmo / dt) + lag + 2
        ok_at = None
        try:
            for i in range(down + bound):
                if i == down:
                    server = serving.Server(ha=('127.0.0.1', port), store=store, timeout=0.0)
                    assert server.reopen()
                store.stamp += dt
                if use_stack:
                    top.serviceConnect()
                else:
                    client.serviceConnect()
                if server is not None:
                    time.sleep(0.005)
                    server.serviceConnects()
                if client.connected and ok_at is None and server is not None:
                    ok_at = i - down + 1
            res["runs"] += 1
            if ok_at is not None and ok_at <= bound:
                res["connected_within_bound"] += 1
                if client.ca == client.cs.getsockname() and client.ha == client.cs.getpeername():
                    res["addresses_ok"] += 1
            else:
                res["failures"].append({"down": down, "stack": use_stack, "connected_at": ok_at})
        finally:
            client.close()
            if server is not None:
                server.closeAll()
    return res
