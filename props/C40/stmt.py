"""
The C40 property as an executable statement about the IMPLEMENTATION alone (no model).
Each predicate mirrors a theorem of coq/C40/Props.v (named in `contradicts`).
search() enumerates small scopes first (so the reported input is small) then seeded random.
"""
import itertools

COUNT = [0]


def norm(w, v, boolean):
    """what unpacking must return for value v packed in a w-bit field"""
    if w == 1:
        bit = 1 if v else 0
        return bool(bit) if boolean else bit
    return v % (2 ** w)


def compositions(total):
    if total == 0:
        yield []
        return
    for first in range(1, total + 1):
        for rest in compositions(total - first):
            yield [first] + rest


def fmt_str(ws):
    return " ".join(str(w) for w in ws)


class Fail(Exception):
    def __init__(self, **kw):
        Exception.__init__(self, repr(kw))
        self.kw = kw


def expect(cond, **kw):
    COUNT[0] += 1
    if not cond:
        raise Fail(**kw)


def guarded(fn, contradicts, inp):
    """run a predicate; an unexpected exception of the implementation is a failure too"""
    try:
        fn()
    except Fail as f:
        d = dict(f.kw)
        d.setdefault("contradicts", contradicts)
        d["input"] = inp
        return d
    except Exception as ex:  # noqa
        return {"contradicts": contradicts, "input": inp, "observed": "raises %r" % ex,
                "expected": "no exception on this domain"}
    return None


def check_pack(byting, ws, vs, size, boolean):
    """round trip, framing into a buffer, mirror images -- one format, one value vector"""
    fmt = fmt_str(ws)
    total = sum(ws)
    sz = (total + 7) // 8 if size is None else size
    inp = {"fmt": fmt, "fields": list(vs), "size": size, "boolean": boolean}

    def body():
        p = byting.packify(fmt, list(vs), size)
        expect(isinstance(p, bytearray) and len(p) == sz, observed=list(p), expected="bytearray of %d bytes" % sz,
               what="packify size")
        want = tuple(norm(w, v, boolean) for w, v in zip(ws, vs))
        padw = 8 * sz - total
        if padw:
            want = want + ((False if boolean else 0) if padw == 1 else 0,)
        got = byting.unpackify(fmt, p, boolean, size)
        expect(got == want and [type(x) for x in got] == [type(x) for x in want],
               observed=repr(got), expected=repr(want), packed=list(p), what="unpackify(packify(...))",
               contradicts="C40.Props.unpack_pack")
        # mirror images
        pr = byting.packify(fmt, list(vs), size, True)
        expect(list(pr) == list(reversed(p)), observed=list(pr), expected=list(reversed(p)),
               what="packify(reverse=True)", contradicts="C40.Props.packify_reverse_mirror")
        gr = byting.unpackify(fmt, pr, boolean, size, True)
        expect(gr == want, observed=repr(gr), expected=repr(want), what="unpackify(reverse=True) of reversed pack",
               contradicts="C40.Props.unpackify_reverse_mirror")
        # packing into a buffer
        for off, blen in ((0, 0), (1, 5), (2, 2), (3, 3 + sz), (1, sz)):
            b0 = bytearray((7 * i + 13) % 256 for i in range(blen))
            b = bytearray(b0)
            r = byting.packifyInto(b, fmt, list(vs), size, off)
            ext = bytearray(b0) + bytearray(max(0, off + sz - len(b0)))
            exp = ext[:off] + p + ext[off + sz:]
            expect(r == sz and b == exp, observed=[r, list(b)], expected=[sz, list(exp)], buffer=list(b0), offset=off,
                   what="packifyInto", contradicts="C40.Props.packifyInto_frames")
    return guarded(body, "C40.Props.unpack_pack", inp)


def check_byte(byting, ws, vs, boolean, anybyte):
    """packByte / unpackByte with a digit format (each width 1..8, total <= 8)"""
    fmtb = "".join(str(w) for w in ws).encode()
    inp = {"fmt": fmtb.decode(), "fields": list(vs), "boolean": boolean, "byte": anybyte}

    def body():
        B = byting.packByte(fmtb, list(vs))
        expect(isinstance(B, int) and 0 <= B < 256, observed=B, expected="an int in [0,256)", what="packByte")
        want = tuple(norm(w, v, boolean) for w, v in zip(ws, vs))
        got = byting.unpackByte(fmtb, B, boolean)
        expect(got == want and [type(x) for x in got] == [type(x) for x in want], observed=repr(got),
               expected=repr(want), packed=B, what="unpackByte(packByte(...))",
               contradicts="C40.Props.unpackByte_packByte")
        pos, wantb = 8, []
        for w in ws:
            pos -= w
            v = ((anybyte & 0xff) >> pos) & (2 ** w - 1)
            wantb.append(bool(v) if (w == 1 and boolean) else v)
        gotb = byting.unpackByte(fmtb, anybyte, boolean)
        expect(gotb == tuple(wantb), observed=repr(gotb), expected=repr(tuple(wantb)), what="unpackByte fields",
               contradicts="C40.Props.unpackByte_fields")
    return guarded(body, "C40.Props.unpackByte_packByte", inp)


def check_unpack_bytes(byting, ws, b, boolean):
    """unpack then pack returns the bytes (no pad) / the fields re-pack to the same prefix"""
    fmt = fmt_str(ws)
    inp = {"fmt": fmt, "b": list(b), "boolean": boolean}

    def body():
        total = sum(ws)
        sz = (total + 7) // 8
        got = byting.unpackify(fmt, bytearray(b), boolean)
        n = int.from_bytes(bytes(b[:sz]), "big") if sz else 0
        pos = 8 * sz
        want = []
        for w in ws:
            pos -= w
            v = (n >> pos) & (2 ** w - 1)
            want.append(bool(v) if (w == 1 and boolean) else v)
        if pos:
            v = n & (2 ** pos - 1)
            want.append(bool(v) if (pos == 1 and boolean) else v)
        expect(got == tuple(want) and [type(x) for x in got] == [type(x) for x in want], observed=repr(got),
               expected=repr(tuple(want)), what="unpackify = big-endian bit fields",
               contradicts="C40.Props.unpackify_fields")
    return guarded(body, "C40.Props.unpackify_fields", inp)


def check_bytify(byting, n, size):
    inp = {"n": n, "size": size}

    def body():
        b = byting.bytify(n, size)
        if n >= 0:
            expect(byting.unbytify(b) == n and len(b) >= size and (len(b) == size or (b and b[0] != 0)),
                   observed=list(b), expected="big-endian digits of n, left padded to size", what="bytify",
                   contradicts="C40.Props.unbytify_bytify")
        s = byting.bytify(n, size, False, True)
        expect(len(s) == size and byting.unbytify(s) == n % (2 ** (8 * size)), observed=list(s),
               expected="n mod 2^(8 size) in exactly size bytes", what="bytify strict",
               contradicts="C40.Props.bytify_strict")
        if n < 0:
            expect(list(b) == list(s), observed=list(b), expected=list(s), what="bytify negative = strict",
                   contradicts="C40.Props.bytify_strict")
        r = byting.bytify(n, size, True)
        expect(list(r) == list(reversed(b)) and byting.unbytify(r, True) == byting.unbytify(b), observed=list(r),
               expected=list(reversed(b)), what="bytify/unbytify reverse", contradicts="C40.Props.bytify_reverse_mirror")
        expect(list(byting.bytify(byting.unbytify(b), len(b))) == list(b), observed=list(b), expected="fixpoint",
               what="bytify(unbytify(b), len b)", contradicts="C40.Props.bytify_unbytify")
    return guarded(body, "C40.Props.unbytify_bytify", inp)


def check_bin(byting, n, size):
    inp = {"n": n, "size": size}

    def body():
        u = byting.binize(n, size)
        expect(len(u) == size and set(u) <= set("01") and byting.unbinize(u) == n % (2 ** size), observed=u,
               expected="%d binary digits of n mod 2^size" % size, what="unbinize(binize(n,size))",
               contradicts="C40.Props.unbinize_binize")
        expect(byting.binize(byting.unbinize(u), len(u)) == u, observed=u, expected="fixpoint", what="binize(unbinize)",
               contradicts="C40.Props.binize_unbinize")
    return guarded(body, "C40.Props.unbinize_binize", inp)


def check_hex(byting, b):
    inp = {"b": list(b)}

    def body():
        h = byting.hexify(bytearray(b))
        expect(len(h) == 2 * len(b) and h == bytes(b).hex(), observed=h, expected=bytes(b).hex(), what="hexify",
               contradicts="C40.Props.hexify_spec")
        expect(bytes(byting.unhexify(h)) == bytes(b), observed=list(byting.unhexify(h)), expected=list(b),
               what="unhexify(hexify(b))", contradicts="C40.Props.unhexify_hexify")
        expect(byting.hexify(byting.unhexify(h.upper())) == h, observed=byting.hexify(byting.unhexify(h.upper())),
               expected=h, what="hexify(unhexify(H))", contradicts="C40.Props.hexify_unhexify")
        hz = byting.hexize(bytes(b))
        expect(hz == h and bytes(byting.unhexize(hz)) == bytes(b), observed=hz, expected=h, what="hexize/unhexize",
               contradicts="C40.Props.unhexize_hexize")
        if h:
            odd = h[1:]
            expect(bytes(byting.unhexify(odd)) == bytes.fromhex("0" + odd), observed=list(byting.unhexify(odd)),
                   expected=list(bytes.fromhex("0" + odd)), what="unhexify odd length", contradicts="C40.Props.unhexify_spec")
    return guarded(body, "C40.Props.unhexify_hexify", inp)


HEXDIGITS = "0123456789abcdefABCDEF"


def hex_texts(b):
    """the hex digits of b written with separators / prefixes: unhexify's documented domain
    (non-hex characters are stripped, an odd number of digits is left-padded with 0)"""
    h = bytes(b).hex()
    out = ["0x" + h, h.upper(), " " + h, h + "\n"]
    for sep in (":", " ", "\n", "-", "0x"):
        for pos in range(0, len(h) + 1):
            out.append(h[:pos] + sep + h[pos:])                  # one separator at every position
        out.append(sep.join(h[i:i + 2] for i in range(0, len(h), 2)))   # between all bytes
    if h:
        out += [h[1:], ":" + h[1:], h[1:] + " x", h[:1] + ":" + h[1:]]  # odd digit counts
    return out


def check_hex_text(byting, text):
    """unhexify/unhexize of arbitrary text = bytes of its hex digits ('0'-padded on the left if odd)"""
    inp = {"h": text}

    def body():
        digits = "".join(c for c in text if c in HEXDIGITS)
        if len(digits) % 2:
            digits = "0" + digits
        want = bytes.fromhex(digits)
        got = byting.unhexify(text)
        expect(bytes(got) == want, observed=bytes(got).hex(), expected=want.hex(), hex_digits_of_text=digits,
               what="unhexify(text) == bytes of the hex digits of text", contradicts="C40.Props.unhexify_any_text")
        got2 = byting.unhexize(text)
        expect(bytes(got2) == want, observed=bytes(got2).hex(), expected=want.hex(), hex_digits_of_text=digits,
               what="unhexize(text) == bytes of the hex digits of text", contradicts="C40.Props.unhexify_any_text")
        expect(byting.hexify(got) == digits.lower(), observed=byting.hexify(got), expected=digits.lower(),
               what="hexify(unhexify(text)) == normalised digits", contradicts="C40.Props.unhexify_any_text")
    return guarded(body, "C40.Props.unhexify_any_text", inp)


def check_sign(byting, x, n):
    inp = {"x": x, "n": n}

    def body():
        r = byting.signExtend(x, n)
        want = x if x < 2 ** (n - 1) else x - 2 ** n
        expect(r == want, observed=r, expected=want, what="signExtend", contradicts="C40.Props.signExtend_twos")
    return guarded(body, "C40.Props.signExtend_twos", inp)


def search(byting, rng, W, nrandom, count=None):
    """returns a finding dict (key, input, observed, expected, contradicts) or None"""
    def done(f):
        if f is not None:
            f["key"] = "byting-" + f["contradicts"].split(".")[-1]
        return f

    def note(kind, inp):
        if count is not None:
            count({"stmt": kind, "in": inp}, nontrivial=True, kind="stmt:" + kind)

    # small scopes first: every format of total width <= W; all values while 2^total <= 256
    for total in range(0, W + 1):
        for ws in compositions(total):
            if total <= 8:
                vals = itertools.product(*[range(2 ** w) for w in ws])
                if total > 6:
                    vals = itertools.islice(vals, rng.randrange(1, 3), None, 37)
            else:
                vals = [[rng.randrange(2 ** w) for w in ws] for _ in range(2)]
            first = True
            for vs in vals:
                f = check_pack(byting, ws, list(vs), None, bool(sum(vs) % 2))
                if f:
                    return done(f)
                if first:
                    note("pack", {"fmt": ws, "fields": list(vs)})
                    first = False
            if total <= 8 and ws:
                for vs in ([rng.randrange(2 ** w) for w in ws], [rng.choice([2 ** w, -1, 255, 3 * 2 ** w + 1]) for w in ws]):
                    f = check_byte(byting, ws, vs, rng.random() < 0.5, rng.randrange(-300, 1000))
                    if f:
                        return done(f)
            # values wider than their field, truthy one-bit fields
            vs = [rng.choice([2 ** w, 2 ** w + 1, 3 * 2 ** w + (2 ** w - 1), -1, 255]) for w in ws]
            f = check_pack(byting, ws, vs, None, True) or check_pack(byting, ws, vs, (total + 7) // 8 + 1, False)
            if f:
                return done(f)
            sz = (total + 7) // 8
            for _ in range(2 if total > 8 else 4):
                b = [rng.randrange(256) for _ in range(sz)]
                f = check_unpack_bytes(byting, ws, b, rng.random() < 0.5)
                if f:
                    return done(f)
    for n in range(-300, 700):
        for size in (0, 1, 2, 3):
            f = check_bytify(byting, n, size)
            if f:
                return done(f)
    for n in range(0, 70):
        for size in range(0, 8):
            f = check_bin(byting, n, size)
            if f:
                return done(f)
    for x in range(256):
        f = check_hex(byting, [x]) or check_hex(byting, [x, 255 - x, (x * 7) % 256])
        if f:
            return done(f)
    # hex text with separators / prefixes, smallest first
    for text in ["", ":", "0", "0:", ":0", "0x", "x0", "1:2", "0x1f", "01:02", "de ad be ef", "a b", "g", "0xg1"]:
        f = check_hex_text(byting, text)
        if f:
            return done(f)
    for b in ([0], [1, 2], [0xde, 0xad, 0xbe], [255, 0, 16, 1]):
        for text in hex_texts(b):
            f = check_hex_text(byting, text)
            if f:
                return done(f)
    note("hex-text", {"shapes": "separators ':' ' ' newline '-' '0x' at every position, prefixes, odd digit counts"})
    for n in range(1, 10):
        for x in range(2 ** n):
            f = check_sign(byting, x, n)
            if f:
                return done(f)
    note("bytify", {"n": "-300..699", "size": "0..3"})
    note("binize", {"n": "0..69", "size": "0..7"})
    note("hex", {"b": "all single bytes"})
    note("signExtend", {"n": "1..9", "x": "all"})
    # seeded random, wider
    for k in range(nrandom):
        nf = rng.randint(1, 10)
        ws = [rng.choice([1, 1, 2, 3, 4, 5, 7, 8, 9, 12, 16, 17, 24, 31, 32, 33, 64]) for _ in range(nf)]
        vs = [rng.randrange(-2 ** (w + 1), 2 ** (w + 2)) for w in ws]
        total = sum(ws)
        size = rng.choice([None, None, (total + 7) // 8 + rng.randint(0, 3)])
        f = check_pack(byting, ws, vs, size, rng.random() < 0.5)
        if not f:
            b = [rng.randrange(256) for _ in range((total + 7) // 8)]
            f = check_unpack_bytes(byting, ws, b, rng.random() < 0.5)
        if not f:
            f = check_bytify(byting, rng.randrange(-2 ** 80, 2 ** 80) >> rng.randrange(80), rng.randint(0, 12))
        if not f and k % 4 == 0:
            f = check_bin(byting, rng.randrange(2 ** 40), rng.randint(0, 48))
            f = f or check_hex(byting, [rng.randrange(256) for _ in range(rng.randint(0, 20))])
            f = f or check_hex_text(byting, "".join(rng.choice(HEXDIGITS * 2 + ": -x\n,.gG")
                                                    for _ in range(rng.randint(0, 14))))
            n = rng.randint(1, 80)
            f = f or check_sign(byting, rng.randrange(2 ** n), n)
        if f:
            return done(f)
        if k % 50 == 0:
            note("random", {"fmt": ws, "fields": vs, "size": size})
    return None
