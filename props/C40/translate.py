"""
translate.py -- fail-closed translator  Python ast  ->  Gallina  (tie T of C40 / C41).

    text = translate_module(python_source, SIGS, module_name)

Only the functions named in SIGS are translated; for each, the whole body must consist of
whitelisted constructs -- anything else raises Unsupported (the check turns that into
ctx.tie_broken("translator", ...)).  The Gallina output targets coq/Lib/C40_PyRt.v (one
definition per Python primitive) and is regenerated from the CURRENT source on every run.

Types (declared for parameters/results in SIGS, inferred flow-sensitively for locals):
    int bool str char bytes bytearray intseq list_int list_val list_str list_unknown
    fmt tok opt_int val tuple_val pair_int
  `fmt`  : a bit-field format string, represented by the list of its parsed widths; the ONLY
           operations accepted on it are fmt.split() (-> list of tok) and int(tok) (-> that
           width).  Strings whose tokens are not integers are outside the model.
  `intseq`: any iterable of ints; the only operation accepted is bytearray(x).

Shape of the output
    straight-line code      let x := e in ...
    raising primitives      bind (prim ...) (fun x => ...)          (res monad, Ok | Err cls)
    for x in it: body       fold_left / for_res over the list, state = the variables assigned
                            in the body that are live (defined) before the loop
    while c: body           while_res fuel ...   (the function gets a leading `fuel : nat`
                            parameter that is passed unchanged to every callee that loops)
    if without return       let '(vars) := if c then ... else ... in
    if ending in raise/return   if c then <exit> else <rest>
A function is emitted pure (plain result) when nothing in it can raise, else with result
type `res T`.  Evaluation order of raising sub-expressions is Python's (left to right).
"""
import ast
import hashlib

COQ_KEYWORDS = {"as", "at", "cofix", "else", "end", "exists", "exists2", "fix", "for", "forall",
                "fun", "if", "IF", "in", "let", "match", "mod", "Prop", "return", "Set", "then",
                "Type", "using", "where", "with", "bind", "Ok", "Err", "fuel", "tt", "nil", "cons",
                "true", "false", "Some", "None", "length", "map", "rev", "app", "seq"}

COQ_TYPE = {
    "int": "Z", "bool": "bool", "str": "list Z", "char": "Z", "bytes": "list Z",
    "bytearray": "list Z", "intseq": "list Z", "list_int": "list Z", "list_val": "list val",
    "list_str": "list (list Z)", "fmt": "list Z", "tok": "Z", "opt_int": "option Z",
    "val": "val", "tuple_val": "list val", "pair_int": "(Z * Z)", "list_tok": "list Z",
    "frame": "nat", "list_frame": "list nat",
}


def coq_type(ty):
    """Gallina type of a translator type; tuple(a,b,...) -> product"""
    if ty.startswith("tuple(") and ty.endswith(")"):
        return "(" + " * ".join(coq_type(t) for t in ty[6:-1].split(",")) + ")"
    return COQ_TYPE[ty]


def compatible(ty, want):
    """value of type ty may be returned where `want` is declared ([] has type list_unknown)"""
    if ty == want:
        return True
    if ty == "list_unknown" and want.startswith("list_"):
        return True
    if ty.startswith("tuple(") and want.startswith("tuple("):
        a, b = ty[6:-1].split(","), want[6:-1].split(",")
        return len(a) == len(b) and all(compatible(x, y) for x, y in zip(a, b))
    return False
MUTABLE = {"bytearray", "list_int", "list_val", "list_unknown", "intseq", "list_str"}
SEQ_ELT = {"str": "char", "bytes": "int", "bytearray": "int", "list_int": "int",
           "list_tok": "tok", "list_val": "val", "list_str": "str", "list_frame": "frame"}
# list_frame: a list of opaque object identities (nat ids).  It is read-only for the translator
# (no mutating method is accepted on it), so aliasing it (n = near) is harmless.
BYTESLIKE = {"bytes", "bytearray"}
EXC = {"ValueError", "IndexError", "TypeError"}


class Unsupported(Exception):
    def __init__(self, msg, node=None):
        if node is not None and hasattr(node, "lineno"):
            msg = "line %d: %s  [%s]" % (node.lineno, msg, ast.dump(node)[:160])
        Exception.__init__(self, msg)


class NeedMon(Exception):
    """a raising construct met while translating in pure mode"""


def cname(name):
    return name + "_" if name in COQ_KEYWORDS else name


def zlit(n):
    return str(n) if n >= 0 else "(%d)" % n


class Var(object):
    __slots__ = ("ty", "alias", "param")

    def __init__(self, ty, alias=False, param=False):
        self.ty = ty
        self.alias = alias  # still the caller's object (parameter of mutable type)
        self.param = param  # still bound to the parameter object itself (never rebound)


def tuple_pat(names):
    if not names:
        return "tt"
    if len(names) == 1:
        return cname(names[0])
    return "(" + ", ".join(cname(n) for n in names) + ")"


def lam_pat(names):
    if not names:
        return "_"
    if len(names) == 1:
        return cname(names[0])
    return "'" + tuple_pat(names)


def assigned_vars(stmts):
    """names (re)bound by a statement list, in first-occurrence order (incl. mutated receivers)"""
    out = []

    def add(n):
        if n not in out:
            out.append(n)

    def targets(t):
        if isinstance(t, ast.Name):
            add(t.id)
        elif isinstance(t, ast.Tuple):
            for e in t.elts:
                targets(e)
        elif isinstance(t, ast.Subscript) and isinstance(t.value, ast.Name):
            add(t.value.id)
        else:
            raise Unsupported("assignment target", t)

    def walk(ss):
        for s in ss:
            if isinstance(s, ast.Assign):
                for t in s.targets:
                    targets(t)
                pops(s.value)
            elif isinstance(s, ast.AugAssign):
                targets(s.target)
                pops(s.value)
            elif isinstance(s, ast.Expr):
                v = s.value
                if (isinstance(v, ast.Call) and isinstance(v.func, ast.Attribute)
                        and isinstance(v.func.value, ast.Name)):
                    add(v.func.value.id)
            elif isinstance(s, ast.If):
                walk(s.body)
                walk(s.orelse)
            elif isinstance(s, (ast.For, ast.While)):
                if isinstance(s, ast.For):
                    targets(s.target)
                walk(s.body)
                if s.orelse:
                    raise Unsupported("loop else", s)
            elif isinstance(s, (ast.Return, ast.Raise, ast.Pass)):
                pass
            else:
                raise Unsupported("statement", s)

    def pops(e):
        for n in ast.walk(e):
            if (isinstance(n, ast.Call) and isinstance(n.func, ast.Attribute) and n.func.attr == "pop"
                    and isinstance(n.func.value, ast.Name)):
                add(n.func.value.id)

    walk(stmts)
    return out


def terminates(stmts):
    if not stmts:
        return False
    s = stmts[-1]
    if isinstance(s, (ast.Return, ast.Raise)):
        return True
    if isinstance(s, ast.If):
        return terminates(s.body) and terminates(s.orelse)
    return False


class FnTranslator(object):
    """Expressions are translated to A-normal form:
         expr(e) -> (pre, code, ty)
       pre  = [(tmp, res_term)]   raising sub-computations, in Python evaluation order
       code = pure Gallina term (may mention the tmps)."""

    def __init__(self, mod, fdef, sig):
        self.mod = mod
        self.fdef = fdef
        self.sig = sig
        self.name = fdef.name
        self.fresh = 0
        self.uses_fuel = False
        self.mutates = list(sig.get("mutates", []))
        # attributes of parameters that are passed in as extra arguments:
        #   sig["attrs"] = {("far", "outline"): ("far_outline", "list_frame")}
        self.attrs = dict(sig.get("attrs", {}))

    # ---------------------------------------------------------------- helpers
    def tmp(self):
        self.fresh += 1
        return "t%d_" % self.fresh

    @staticmethod
    def wrap(pre, body):
        for t, c in reversed(pre):
            body = "bind (%s) (fun %s =>\n%s)" % (c, t, body)
        return body

    @staticmethod
    def lift(parts, build, ty):
        """parts: [(pre, code)] in evaluation order; build(codes) -> pure code"""
        pre = []
        for p, _ in parts:
            pre += p
        return pre, build([c for _, c in parts]), ty

    def lift_mon(self, parts, build, ty):
        """build(codes) is a `res` term: bind it to a fresh temporary"""
        pre = []
        for p, _ in parts:
            pre += p
        t = self.tmp()
        return pre + [(t, build([c for _, c in parts]))], t, ty

    @staticmethod
    def is_lit_int(e):
        return isinstance(e, ast.Constant) and type(e.value) is int

    # ---------------------------------------------------------------- truthiness
    def truth(self, e, env):
        """bool-typed code for `if e:`; returns (pre, code)"""
        if isinstance(e, ast.UnaryOp) and isinstance(e.op, ast.Not):
            p, c = self.truth(e.operand, env)
            return p, "(negb %s)" % c
        if isinstance(e, ast.BoolOp):
            parts = [self.truth(v, env) for v in e.values]
            if any(p for p, _ in parts[1:]):
                # a later operand can raise: it must be evaluated only if the earlier ones do not decide
                if any(isinstance(n, ast.Call) and isinstance(n.func, ast.Attribute) and n.func.attr == "pop"
                       for n in ast.walk(e)):
                    raise Unsupported("pop() under a short-circuit operator", e)
                is_and = isinstance(e.op, ast.And)
                p_last, c_last = parts[-1]
                code = self.wrap(p_last, "Ok %s" % c_last)
                for p_k, c_k in reversed(parts[1:-1]):
                    inner = ("(if %s then\n%s\nelse Ok false)" if is_and else "(if %s then Ok true else\n%s)") % (c_k, code)
                    code = self.wrap(p_k, inner)
                p0, c0 = parts[0]
                t = self.tmp()
                code = ("(if %s then\n%s\nelse Ok false)" if is_and else "(if %s then Ok true else\n%s)") % (c0, code)
                return p0 + [(t, code)], t
            op = " && " if isinstance(e.op, ast.And) else " || "
            return parts[0][0], "(" + op.join(c for _, c in parts) + ")"
        p, c, ty = self.expr(e, env)
        if ty == "bool":
            return p, c
        if ty in ("int", "tok"):
            return p, "(py_truthZ %s)" % c
        if ty in SEQ_ELT or ty == "list_unknown":
            return p, "(py_truthL %s)" % c
        raise Unsupported("truthiness of type %s" % ty, e)

    # ---------------------------------------------------------------- expressions
    def expr(self, e, env):
        if isinstance(e, ast.Constant):
            v = e.value
            if type(v) is bool:
                return [], ("true" if v else "false"), "bool"
            if type(v) is int:
                return [], zlit(v), "int"
            if type(v) is str:
                return [], ("[" + "; ".join(str(ord(ch)) for ch in v) + "]" if v else "(@nil Z)"), "str"
            if type(v) is bytes:
                return [], ("[" + "; ".join(str(b) for b in v) + "]" if v else "(@nil Z)"), "bytes"
            raise Unsupported("constant", e)
        if isinstance(e, ast.Name):
            if e.id not in env:
                raise Unsupported("variable %r is not (definitely) bound here" % e.id, e)
            return [], cname(e.id), env[e.id].ty
        if isinstance(e, ast.Attribute):
            if isinstance(e.value, ast.Name) and e.value.id == "string" and e.attr == "hexdigits" \
                    and "string" not in env:
                return [], "py_hexdigits", "str"
            if isinstance(e.value, ast.Name) and (e.value.id, e.attr) in self.attrs and e.value.id in env \
                    and env[e.value.id].param:
                nm, ty = self.attrs[(e.value.id, e.attr)]
                return [], cname(nm), ty
            raise Unsupported("attribute", e)
        if isinstance(e, ast.Tuple):
            ps = [self.expr(x, env) for x in e.elts]
            if len(ps) == 2 and all(p[2] == "int" for p in ps):
                return self.lift([(p[0], p[1]) for p in ps], lambda a: "(%s, %s)" % (a[0], a[1]), "pair_int")
            if len(ps) >= 2 and all(p[2] in ("list_frame", "list_unknown", "frame", "int", "bool") for p in ps):
                return self.lift([(p[0], p[1]) for p in ps], lambda a: "(" + ", ".join(a) + ")",
                                 "tuple(" + ",".join(p[2] for p in ps) + ")")
            raise Unsupported("tuple expression", e)
        if isinstance(e, ast.List):
            ps = [self.expr(x, env) for x in e.elts]
            if not ps:
                return [], "[]", "list_unknown"
            if all(p[2] == "int" for p in ps):
                return self.lift([(p[0], p[1]) for p in ps], lambda a: "[" + "; ".join(a) + "]", "list_int")
            raise Unsupported("list display", e)
        if isinstance(e, ast.UnaryOp):
            if isinstance(e.op, ast.Not):
                p, c = self.truth(e, env)
                return p, c, "bool"
            if isinstance(e.op, ast.USub):
                p, c, ty = self.expr(e.operand, env)
                if ty != "int":
                    raise Unsupported("unary minus on %s" % ty, e)
                return p, "(- %s)" % c, "int"
            raise Unsupported("unary operator", e)
        if isinstance(e, ast.BoolOp):
            # the value of and/or is an operand, not a bool, unless every operand is a bool
            for v in e.values:
                if not self.is_boolish(v, env):
                    raise Unsupported("and/or used as a value with non-bool operands", e)
            p, c = self.truth(e, env)
            return p, c, "bool"
        if isinstance(e, ast.BinOp):
            return self.binop(e.left, e.op, e.right, env, e)
        if isinstance(e, ast.Compare):
            return self.compare(e, env)
        if isinstance(e, ast.IfExp):
            tp, tc = self.truth(e.test, env)
            ap, a, aty = self.expr(e.body, env)
            bp, b, bty = self.expr(e.orelse, env)
            if aty != bty:
                raise Unsupported("conditional expression with branches of types %s / %s" % (aty, bty), e)
            if ap or bp:
                t = self.tmp()
                code = "(if %s then\n%s\nelse\n%s)" % (tc, self.wrap(ap, "Ok %s" % a), self.wrap(bp, "Ok %s" % b))
                return tp + [(t, code)], t, aty
            return tp, "(if %s then %s else %s)" % (tc, a, b), aty
        if isinstance(e, ast.Subscript):
            return self.subscript(e, env)
        if isinstance(e, (ast.ListComp, ast.GeneratorExp)):
            return self.comprehension(e, env)
        if isinstance(e, ast.Call):
            return self.call(e, env)
        raise Unsupported("expression", e)

    def is_boolish(self, e, env):
        if isinstance(e, ast.BoolOp):
            return all(self.is_boolish(v, env) for v in e.values)
        if isinstance(e, ast.UnaryOp) and isinstance(e.op, ast.Not):
            return True
        if isinstance(e, ast.Compare):
            return True
        return self.expr(e, env)[2] == "bool"

    def as_int(self, c, ty, node):
        if ty in ("int", "tok"):
            return c
        if ty == "bool":
            return "(Z.b2z %s)" % c
        raise Unsupported("integer expected, got %s" % ty, node)

    def binop(self, l, op, r, env, node):
        ap, a, aty = self.expr(l, env)
        bp, b, bty = self.expr(r, env)
        parts = [(ap, a), (bp, b)]
        inty = lambda t: t in ("int", "bool", "tok")
        A = lambda x: self.as_int(x[0], aty, node)
        B = lambda x: self.as_int(x[1], bty, node)
        if isinstance(op, ast.Add):
            if inty(aty) and inty(bty):
                return self.lift(parts, lambda x: "(%s + %s)" % (A(x), B(x)), "int")
            if aty == bty and aty in ("str", "bytes", "bytearray", "list_int"):
                return self.lift(parts, lambda x: "(%s ++ %s)" % (x[0], x[1]), aty)
            raise Unsupported("+ on %s, %s" % (aty, bty), node)
        if isinstance(op, ast.Mult):
            if inty(aty) and inty(bty):
                return self.lift(parts, lambda x: "(%s * %s)" % (A(x), B(x)), "int")
            if aty in ("list_int", "str", "bytes") and bty == "int":
                return self.lift(parts, lambda x: "(py_list_mul %s %s)" % (x[0], x[1]), aty)
            raise Unsupported("* on %s, %s" % (aty, bty), node)
        if not (inty(aty) and inty(bty)):
            raise Unsupported("operator %s on %s, %s" % (type(op).__name__, aty, bty), node)
        if isinstance(op, ast.Sub):
            return self.lift(parts, lambda x: "(%s - %s)" % (A(x), B(x)), "int")
        if isinstance(op, ast.BitAnd):
            return self.lift(parts, lambda x: "(Z.land %s %s)" % (A(x), B(x)), "int")
        if isinstance(op, ast.BitOr):
            return self.lift(parts, lambda x: "(Z.lor %s %s)" % (A(x), B(x)), "int")
        if isinstance(op, ast.BitXor):
            return self.lift(parts, lambda x: "(Z.lxor %s %s)" % (A(x), B(x)), "int")
        if isinstance(op, (ast.FloorDiv, ast.Mod)):
            pure, prim = ("/", "py_floordiv") if isinstance(op, ast.FloorDiv) else ("mod", "py_mod")
            if self.is_lit_int(r) and r.value != 0:
                return self.lift(parts, lambda x: "(%s %s %s)" % (A(x), pure, B(x)), "int")
            return self.lift_mon(parts, lambda x: "%s %s %s" % (prim, A(x), B(x)), "int")
        if isinstance(op, (ast.LShift, ast.RShift)):
            pure, prim = ("Z.shiftl", "py_shl") if isinstance(op, ast.LShift) else ("Z.shiftr", "py_shr")
            if self.is_lit_int(r) and r.value >= 0:
                return self.lift(parts, lambda x: "(%s %s %s)" % (pure, A(x), B(x)), "int")
            return self.lift_mon(parts, lambda x: "%s %s %s" % (prim, A(x), B(x)), "int")
        if isinstance(op, ast.Pow):
            if self.is_lit_int(r) and r.value >= 0:
                return self.lift(parts, lambda x: "(%s ^ %s)" % (A(x), B(x)), "int")
            return self.lift_mon(parts, lambda x: "py_pow %s %s" % (A(x), B(x)), "int")
        raise Unsupported("binary operator", node)

    def compare(self, e, env):
        operands = [e.left] + list(e.comparators)
        if len(e.ops) == 1 and isinstance(e.ops[0], (ast.In, ast.NotIn)):
            ap, a, aty = self.expr(operands[0], env)
            bp, b, bty = self.expr(operands[1], env)
            if aty == "char" and bty == "str":
                if isinstance(e.ops[0], ast.NotIn):
                    return self.lift([(ap, a), (bp, b)], lambda x: "(negb (py_memZ %s %s))" % (x[0], x[1]), "bool")
                return self.lift([(ap, a), (bp, b)], lambda x: "(py_memZ %s %s)" % (x[0], x[1]), "bool")
            raise Unsupported("membership test on %s in %s" % (aty, bty), e)
        if len(e.ops) == 1 and isinstance(e.ops[0], (ast.Is, ast.IsNot)):
            ap, a, aty = self.expr(operands[0], env)
            bp, b, bty = self.expr(operands[1], env)
            if aty == "frame" and bty == "frame":
                if isinstance(e.ops[0], ast.IsNot):
                    return self.lift([(ap, a), (bp, b)], lambda x: "(negb (Nat.eqb %s %s))" % (x[0], x[1]), "bool")
                return self.lift([(ap, a), (bp, b)], lambda x: "(Nat.eqb %s %s)" % (x[0], x[1]), "bool")
            raise Unsupported("identity test on %s, %s" % (aty, bty), e)
        cs = [self.expr(x, env) for x in operands]
        for c in cs[2:]:
            if c[0]:   # later operands are evaluated only if the earlier tests succeed
                raise Unsupported("raising operand in the tail of a chained comparison", e)
        opmap = {ast.Lt: "<?", ast.LtE: "<=?", ast.Eq: "=?", ast.Gt: ">?", ast.GtE: ">=?"}
        scalar = ("int", "bool", "tok", "char")

        def build(x):
            terms = []
            for i, op in enumerate(e.ops):
                lt, rt = cs[i][2], cs[i + 1][2]
                if not (lt in scalar and rt in scalar) or (lt == "char") != (rt == "char"):
                    raise Unsupported("comparison of %s with %s" % (lt, rt), e)
                l_ = x[i] if lt == "char" else self.as_int(x[i], lt, e)
                r_ = x[i + 1] if rt == "char" else self.as_int(x[i + 1], rt, e)
                if isinstance(op, ast.NotEq):
                    terms.append("(negb (%s =? %s))" % (l_, r_))
                elif type(op) in opmap:
                    terms.append("(%s %s %s)" % (l_, opmap[type(op)], r_))
                else:
                    raise Unsupported("comparison operator", e)
            return terms[0] if len(terms) == 1 else "(" + " && ".join(terms) + ")"

        return self.lift([(c[0], c[1]) for c in cs], build, "bool")

    def subscript(self, e, env):
        vp, v, vty = self.expr(e.value, env)
        if vty not in ("str", "bytes", "bytearray", "list_int", "list_val", "list_frame"):
            raise Unsupported("subscript of %s" % vty, e)
        sl = e.slice
        if isinstance(sl, ast.Slice):
            if sl.step is not None:
                raise Unsupported("slice step", e)
            parts = [(vp, v)]
            for bound in (sl.lower, sl.upper):
                if bound is not None:
                    p, c, ty = self.expr(bound, env)
                    if ty != "int":
                        raise Unsupported("slice bound of type %s" % ty, e)
                    parts.append((p, c))

            def build(x):
                it = iter(x[1:])
                lo = next(it) if sl.lower is not None else "0"
                hi = next(it) if sl.upper is not None else "(py_len %s)" % x[0]
                return "(py_slice %s %s %s)" % (x[0], lo, hi)
            return self.lift(parts, build, vty)
        ip, i, ity = self.expr(sl, env)
        if ity != "int":
            raise Unsupported("index of type %s" % ity, e)
        if vty == "str":
            raise Unsupported("str indexing", e)
        return self.lift_mon([(vp, v), (ip, i)], lambda x: "py_index %s %s" % (x[0], x[1]), SEQ_ELT[vty])

    def comprehension(self, e, env):
        if len(e.generators) != 1:
            raise Unsupported("nested comprehension", e)
        g = e.generators[0]
        if g.ifs or g.is_async or not isinstance(g.target, ast.Name):
            raise Unsupported("comprehension form", e)
        ip, it, ity = self.expr(g.iter, env)
        if ity not in SEQ_ELT:
            raise Unsupported("iteration over %s" % ity, e)
        env2 = dict(env)
        env2[g.target.id] = Var(SEQ_ELT[ity])
        bp, b, bty = self.expr(e.elt, env2)
        rty = {"int": "list_int", "str": "list_str", "tok": "list_tok"}.get(bty)
        if rty is None:
            raise Unsupported("comprehension element type %s" % bty, e)
        x = cname(g.target.id)
        if bp:
            return self.lift_mon([(ip, it)], lambda a: "map_res (fun %s =>\n%s) %s" % (
                x, self.wrap(bp, "Ok %s" % b), a[0]), rty)
        return self.lift([(ip, it)], lambda a: "(map (fun %s => %s) %s)" % (x, b, a[0]), rty)

    # ---------------------------------------------------------------- calls
    def call_args(self, e, names):
        out = [None] * len(names)
        if len(e.args) > len(names):
            raise Unsupported("too many arguments", e)
        for i, a in enumerate(e.args):
            if isinstance(a, ast.Starred):
                raise Unsupported("star argument", e)
            out[i] = a
        for kw in e.keywords:
            if kw.arg is None or kw.arg not in names:
                raise Unsupported("keyword argument %r" % kw.arg, e)
            j = names.index(kw.arg)
            if out[j] is not None:
                raise Unsupported("duplicate argument", e)
            out[j] = kw.value
        return out

    def call(self, e, env):
        f = e.func
        if isinstance(f, ast.Name) and f.id not in env:
            nm = f.id
            if nm in self.mod.sigs:
                return self.call_user(e, env, nm)
            if e.keywords:
                raise Unsupported("keyword arguments to builtin %s" % nm, e)
            args = [self.expr(a, env) for a in e.args]
            tys = [a[2] for a in args]
            parts = [(a[0], a[1]) for a in args]
            if nm == "len" and len(args) == 1 and (tys[0] in SEQ_ELT or tys[0] == "list_unknown"):
                return self.lift(parts, lambda x: "(py_len %s)" % x[0], "int")
            if nm == "int":
                if tys in (["tok"], ["int"]):
                    return self.lift(parts, lambda x: x[0], "int")
                if tys == ["char"]:
                    return self.lift_mon(parts, lambda x: "py_int_char %s" % x[0], "int")
                if tys == ["bytes"]:
                    return self.lift_mon(parts, lambda x: "py_int_bytes %s" % x[0], "int")
                if tys == ["str", "int"] and self.is_lit_int(e.args[1]) and e.args[1].value == 16:
                    return self.lift_mon(parts[:1], lambda x: "py_int_hex %s" % x[0], "int")
                raise Unsupported("int() of %s" % tys, e)
            if nm in ("min", "max") and tys == ["int", "int"]:
                return self.lift(parts, lambda x: "(Z.%s %s %s)" % (nm, x[0], x[1]), "int")
            if nm == "str" and tys == ["int"]:
                return self.lift(parts, lambda x: "(py_str_int %s)" % x[0], "str")
            if nm == "ord" and len(tys) == 1 and tys[0] in ("bytes", "bytearray", "str"):
                return self.lift_mon(parts, lambda x: "py_ord %s" % x[0], "int")
            if nm == "sum" and tys in (["list_int"], ["list_tok"]):
                return self.lift(parts, lambda x: "(py_sum %s)" % x[0], "int")
            if nm == "range":
                if not all(t == "int" for t in tys) or not 1 <= len(tys) <= 3:
                    raise Unsupported("range arguments", e)
                if len(tys) == 3:
                    st = e.args[2]
                    if not (self.is_lit_int(st) or (isinstance(st, ast.UnaryOp) and isinstance(st.op, ast.USub)
                                                    and self.is_lit_int(st.operand))):
                        raise Unsupported("range step must be a literal", e)
                    if ast.literal_eval(st) == 0:
                        raise Unsupported("range step 0", e)
                    return self.lift(parts, lambda x: "(py_range %s %s %s)" % (x[0], x[1], x[2]), "list_int")
                if len(tys) == 2:
                    return self.lift(parts, lambda x: "(py_range %s %s 1)" % (x[0], x[1]), "list_int")
                return self.lift(parts, lambda x: "(py_range 0 %s 1)" % x[0], "list_int")
            if nm == "bytearray":
                if not args:
                    return [], "(@nil Z)", "bytearray"
                if len(args) == 1:
                    if tys[0] in ("bytes", "bytearray"):
                        return self.lift(parts, lambda x: x[0], "bytearray")  # copy of a byte string
                    if tys[0] == "list_unknown":
                        return self.lift(parts, lambda x: "(@nil Z)", "bytearray")
                    if tys[0] in ("intseq", "list_int"):
                        return self.lift_mon(parts, lambda x: "py_bytearray %s" % x[0], "bytearray")
                raise Unsupported("bytearray() of %s" % tys, e)
            if nm == "bytes" and len(args) == 1 and tys[0] in ("bytes", "bytearray"):
                return self.lift(parts, lambda x: x[0], "bytes")      # copy of a byte string
            if nm == "tuple" and len(args) == 1 and tys[0] in ("list_val", "list_int"):
                return self.lift(parts, lambda x: x[0], {"list_val": "tuple_val", "list_int": "list_int"}[tys[0]])
            raise Unsupported("call of %s on %s" % (nm, tys), e)
        if isinstance(f, ast.Attribute):
            meth = f.attr
            if e.keywords:
                raise Unsupported("keyword arguments to method %s" % meth, e)
            if isinstance(f.value, ast.Name) and f.value.id == "struct" and "struct" not in env and meth == "pack":
                if len(e.args) == 2 and isinstance(e.args[0], ast.Constant) and e.args[0].value in ("!B", "!H"):
                    p, c, ty = self.expr(e.args[1], env)
                    if ty != "int":
                        raise Unsupported("struct.pack of %s" % ty, e)
                    prim = "py_pack_B" if e.args[0].value == "!B" else "py_pack_H"
                    return self.lift_mon([(p, c)], lambda x: "%s %s" % (prim, x[0]), "bytes")
                raise Unsupported("struct.pack format", e)
            if isinstance(f.value, ast.Constant) and f.value.value == "" and meth == "join" and len(e.args) == 1:
                p, c, ty = self.expr(e.args[0], env)
                if ty != "list_str":
                    raise Unsupported("join of %s" % ty, e)
                return p, "(concat %s)" % c, "str"
            if isinstance(f.value, ast.Constant) and meth == "format":
                if f.value.value == "{0:02x}" and len(e.args) == 1:
                    p, c, ty = self.expr(e.args[0], env)
                    if ty != "int":
                        raise Unsupported("format of %s" % ty, e)
                    return p, "(py_fmt_02x %s)" % c, "str"
                raise Unsupported("format string %r" % (f.value.value,), e)
            rp, recv, rty = self.expr(f.value, env)
            if rp:
                raise Unsupported("method call on a raising expression", e)
            if meth == "split" and rty == "fmt" and not e.args:
                return [], recv, "list_tok"
            if meth == "replace" and rty == "str" and len(e.args) == 2:
                ap, a, aty = self.expr(e.args[0], env)
                if aty == "char" and isinstance(e.args[1], ast.Constant) and e.args[1].value == "":
                    return ap, "(py_remove_char %s %s)" % (a, recv), "str"
                raise Unsupported("str.replace form", e)
            raise Unsupported("method %s on %s in expression position" % (meth, rty), e)
        raise Unsupported("call", e)

    def call_user(self, e, env, nm):
        sig = self.mod.sigs[nm]
        if nm not in self.mod.done:
            raise Unsupported("call of %s before its definition" % nm, e)
        info = self.mod.done[nm]
        actual = self.call_args(e, [p[0] for p in sig["params"]])
        parts = []
        for (pn, pty), a, dflt in zip(sig["params"], actual, info["defaults"]):
            if a is None:
                if dflt is None:
                    raise Unsupported("missing argument %s" % pn, e)
                a = dflt
            if pn in sig.get("mutates", []):
                raise Unsupported("call of a function that mutates its argument", e)
            if pty == "opt_int":
                if isinstance(a, ast.Constant) and a.value is None:
                    parts.append(([], "None"))
                    continue
                p, c, ty = self.expr(a, env)
                if ty != "int":
                    raise Unsupported("argument %s: %s for opt_int" % (pn, ty), e)
                parts.append((p, "(Some %s)" % c))
                continue
            p, c, ty = self.expr(a, env)
            ok = (ty == pty or (pty == "intseq" and ty in ("bytes", "bytearray", "list_int"))
                  or (pty == "bytes" and ty == "bytearray"))
            if not ok:
                raise Unsupported("argument %s of %s: %s given, %s expected" % (pn, nm, ty, pty), e)
            parts.append((p, c))
        fuel = "fuel " if info["fuel"] else ""
        if info["fuel"]:
            self.uses_fuel = True
        if info["mon"]:
            return self.lift_mon(parts, lambda x: "%s %s%s" % (nm, fuel, " ".join(x)), sig["ret"])
        return self.lift(parts, lambda x: "(%s %s%s)" % (nm, fuel, " ".join(x)), sig["ret"])

    # ---------------------------------------------------------------- statements
    def bindv(self, name, pre, code, mon, body):
        """name := code (after the raising computations of pre), then body"""
        if pre and not mon:
            raise NeedMon()
        if pre and code == pre[-1][0]:
            # x = prim(...)  : bind the primitive's result directly to x
            pre = pre[:-1] + [(cname(name), pre[-1][1])]
            return self.wrap(pre, body)
        return self.wrap(pre, "let %s := %s in\n%s" % (cname(name), code, body))

    def check_mutation(self, name, env, node):
        v = env.get(name)
        if v is None:
            raise Unsupported("mutation of unbound %s" % name, node)
        if v.alias and name not in self.mutates:
            raise Unsupported("mutation of the caller-visible argument %r (not declared in `mutates`)" % name, node)

    def block(self, stmts, env, tail, mon, ret):
        """translate a statement list; tail(env) gives the code that follows (already in the
        right mode); ret(pre, code, ty, env, node) handles `return` (None: not allowed here)"""
        if not stmts:
            return tail(env)
        s, rest = stmts[0], stmts[1:]

        def cont(env2):
            return self.block(rest, env2, tail, mon, ret)

        if isinstance(s, ast.Pass):
            return cont(env)
        if isinstance(s, ast.Expr):
            v = s.value
            if isinstance(v, ast.Constant) and isinstance(v.value, str):
                return cont(env)  # docstring
            if isinstance(v, ast.Call) and isinstance(v.func, ast.Attribute) and isinstance(v.func.value, ast.Name) \
                    and v.func.value.id in env:
                return self.mutator(s, v, env, cont, mon)
            if self.is_console_log(v, env):
                return cont(env)      # console output is not modelled (no effect on results)
            raise Unsupported("expression statement", s)
        if isinstance(s, ast.Assign):
            if len(s.targets) != 1:
                raise Unsupported("multiple assignment", s)
            t = s.targets[0]
            if isinstance(t, ast.Subscript):
                return self.slice_assign(s, t, env, cont, mon)
            if not isinstance(t, ast.Name):
                raise Unsupported("assignment target", s)
            return self.assign(t.id, s.value, env, cont, mon, s)
        if isinstance(s, ast.AugAssign):
            if not isinstance(s.target, ast.Name):
                raise Unsupported("augmented assignment target", s)
            if s.target.id in env and env[s.target.id].ty in MUTABLE:
                raise Unsupported("in-place operator on a mutable object", s)
            # x op= e  ==  x = x op e  for immutable x
            val = ast.BinOp(left=ast.Name(id=s.target.id, ctx=ast.Load()), op=s.op, right=s.value)
            ast.copy_location(val, s)
            ast.fix_missing_locations(val)
            return self.assign(s.target.id, val, env, cont, mon, s)
        if isinstance(s, ast.Raise):
            if rest:
                raise Unsupported("dead code after raise", rest[0])
            if not mon:
                raise NeedMon()
            exc = s.exc
            if isinstance(exc, ast.Call):
                for a in exc.args:       # the message must not itself be able to raise differently
                    for n in ast.walk(a):
                        if not isinstance(n, (ast.Constant, ast.Call, ast.Attribute, ast.Name, ast.BinOp, ast.Mult,
                                              ast.Load, ast.Add, ast.Sub)):
                            raise Unsupported("exception message", s)
                exc = exc.func
            if isinstance(exc, ast.Name) and exc.id in EXC and exc.id not in env and s.cause is None:
                return "Err %s" % exc.id
            raise Unsupported("raise of an unknown exception", s)
        if isinstance(s, ast.Return):
            if rest:
                raise Unsupported("dead code after return", rest[0])
            if ret is None:
                raise Unsupported("return inside a loop or a joined conditional", s)
            if s.value is None:
                raise Unsupported("bare return", s)
            p, c, ty = self.expr(s.value, env)
            return ret(p, c, ty, env, s)
        if isinstance(s, ast.If):
            return self.if_stmt(s, rest, env, tail, mon, ret)
        if isinstance(s, ast.For):
            return self.for_stmt(s, env, cont, mon, ret)
        if isinstance(s, ast.While):
            return self.while_stmt(s, env, cont, mon)
        raise Unsupported("statement", s)

    def is_console_log(self, v, env):
        """console.<level>("<literal>".format(<pure int expressions>))  -- cannot raise, result unused"""
        if not (isinstance(v, ast.Call) and isinstance(v.func, ast.Attribute) and isinstance(v.func.value, ast.Name)
                and v.func.value.id == "console" and "console" not in env and not v.keywords and len(v.args) == 1
                and v.func.attr in ("profuse", "verbose", "concise", "terse")):
            return False
        a = v.args[0]
        if isinstance(a, ast.Constant) and isinstance(a.value, str):
            return True
        if not (isinstance(a, ast.Call) and isinstance(a.func, ast.Attribute) and a.func.attr == "format"
                and isinstance(a.func.value, ast.Constant) and isinstance(a.func.value.value, str) and not a.keywords):
            return False
        for x in a.args:
            pre, _, ty = self.expr(x, env)
            if pre or ty not in ("int", "bool"):
                return False
        return True

    def hoist_pop(self, value, env, node):
        """value contains `<name>.pop()` at most once, evaluated unconditionally and after
        everything else that is read.  returns (value', popname, tmpname)"""
        pops = [n for n in ast.walk(value) if isinstance(n, ast.Call) and isinstance(n.func, ast.Attribute)
                and n.func.attr == "pop" and isinstance(n.func.value, ast.Name) and n.func.value.id in env]
        if not pops:
            return value, None, None
        if len(pops) > 1:
            raise Unsupported("more than one pop() in a statement", node)
        p = pops[0]
        if p.args or p.keywords:
            raise Unsupported("pop with an index", node)
        tmpname = self.tmp()
        repl = ast.Name(id=tmpname, ctx=ast.Load())
        if value is p:
            return repl, p.func.value.id, tmpname
        if isinstance(value, ast.BinOp) and value.right is p and isinstance(value.left, (ast.Name, ast.Constant)) \
                and not (isinstance(value.left, ast.Name) and value.left.id == p.func.value.id):
            nv = ast.BinOp(left=value.left, op=value.op, right=repl)
            ast.copy_location(nv, value)
            ast.fix_missing_locations(nv)
            return nv, p.func.value.id, tmpname
        raise Unsupported("pop() in this position", node)

    def assign(self, name, value, env, cont, mon, node):
        value, popname, tmpname = self.hoist_pop(value, env, node)
        if popname is not None:
            if not mon:
                raise NeedMon()
            self.check_mutation(popname, env, node)
            lty = env[popname].ty
            if lty not in ("bytearray", "list_int", "list_val"):
                raise Unsupported("pop on %s" % lty, node)
            env1 = dict(env)
            env1[tmpname] = Var(SEQ_ELT[lty])
            inner = self.assign(name, value, env1, cont, mon, node)
            return "bind (py_pop %s) (fun '(%s, %s) =>\n%s)" % (cname(popname), tmpname, cname(popname), inner)
        if isinstance(value, ast.Name) and value.id in env and env[value.id].ty in MUTABLE:
            raise Unsupported("aliasing of a mutable object (%s = %s)" % (name, value.id), node)
        if name in self.mutates and name in env and env[name].alias:
            raise Unsupported("rebinding of the in/out argument %r" % name, node)
        p, c, ty = self.expr(value, env)
        env2 = dict(env)
        env2[name] = Var(ty)
        return self.bindv(name, p, c, mon, cont(env2))

    def mutator(self, s, v, env, cont, mon):
        name, meth = v.func.value.id, v.func.attr
        self.check_mutation(name, env, s)
        var = env[name]
        ty = var.ty
        if v.keywords:
            raise Unsupported("keyword arguments", s)
        args = [self.expr(a, env) for a in v.args]
        parts = [(a[0], a[1]) for a in args]
        tys = [a[2] for a in args]
        n = cname(name)
        newty = ty
        if meth == "reverse" and not args and ty in ("bytearray", "list_int", "list_val"):
            p, c = [], "(rev %s)" % n
        elif meth == "append" and len(args) == 1:
            if ty == "bytearray" and tys[0] == "int":
                p, c, _ = self.lift_mon(parts, lambda x: "py_ba_append %s %s" % (n, x[0]), ty)
            elif ty in ("list_val", "list_unknown") and tys[0] in ("val", "int", "bool") and \
                    (ty == "list_val" or tys[0] == "val"):
                w = {"val": "%s", "int": "(VI %s)", "bool": "(VB %s)"}[tys[0]]
                newty = "list_val"
                p, c, _ = self.lift(parts, lambda x: "(%s ++ [%s])" % (n, w % x[0]), newty)
            elif ty in ("list_int", "list_unknown") and tys[0] == "int":
                newty = "list_int"
                p, c, _ = self.lift(parts, lambda x: "(%s ++ [%s])" % (n, x[0]), newty)
            else:
                raise Unsupported("append of %s to %s" % (tys[0], ty), s)
        elif meth == "insert" and len(args) == 2 and tys == ["int", "int"] and ty == "bytearray":
            p, c, _ = self.lift_mon(parts, lambda x: "py_ba_insert %s %s %s" % (n, x[0], x[1]), ty)
        elif meth == "extend" and len(args) == 1 and ty == "bytearray" and tys[0] in ("list_int", "bytes", "bytearray"):
            if tys[0] == "list_int":
                p, c, _ = self.lift_mon(parts, lambda x: "py_ba_extend %s %s" % (n, x[0]), ty)
            else:
                p, c, _ = self.lift(parts, lambda x: "(%s ++ %s)" % (n, x[0]), ty)
        else:
            raise Unsupported("method %s(%s) on %s" % (meth, tys, ty), s)
        env2 = dict(env)
        env2[name] = Var(newty, var.alias)
        return self.bindv(name, p, c, mon, cont(env2))

    def slice_assign(self, s, t, env, cont, mon):
        if not (isinstance(t.value, ast.Name) and isinstance(t.slice, ast.Slice) and t.slice.step is None
                and t.slice.lower is not None and t.slice.upper is not None):
            raise Unsupported("subscript assignment form", s)
        name = t.value.id
        self.check_mutation(name, env, s)
        var = env[name]
        if var.ty != "bytearray":
            raise Unsupported("slice assignment on %s" % var.ty, s)
        lp, lo, loty = self.expr(t.slice.lower, env)
        hp, hi, hity = self.expr(t.slice.upper, env)
        vp, v, vty = self.expr(s.value, env)
        if loty != "int" or hity != "int" or vty not in BYTESLIKE:
            raise Unsupported("slice assignment types", s)
        # python evaluates the value first, then the bounds
        p, c, _ = self.lift([(vp, v), (lp, lo), (hp, hi)],
                            lambda x: "(py_slice_assign %s %s %s %s)" % (cname(name), x[1], x[2], x[0]), var.ty)
        env2 = dict(env)
        env2[name] = Var(var.ty, var.alias)
        return self.bindv(name, p, c, mon, cont(env2))

    # -- if -------------------------------------------------------------------------------
    def if_stmt(self, s, rest, env, tail, mon, ret):
        t = s.test
        # pattern:  if X is None: X = e      (X : opt_int)
        if (isinstance(t, ast.Compare) and len(t.ops) == 1 and isinstance(t.ops[0], ast.Is)
                and isinstance(t.comparators[0], ast.Constant) and t.comparators[0].value is None):
            if (isinstance(t.left, ast.Name) and t.left.id in env and env[t.left.id].ty == "opt_int"
                    and not s.orelse and len(s.body) == 1 and isinstance(s.body[0], ast.Assign)
                    and len(s.body[0].targets) == 1 and isinstance(s.body[0].targets[0], ast.Name)
                    and s.body[0].targets[0].id == t.left.id):
                x = t.left.id
                envb = dict(env)
                del envb[x]
                p, c, ty = self.expr(s.body[0].value, envb)
                if ty != "int":
                    raise Unsupported("None-default of type %s" % ty, s)
                tv = self.tmp()
                env2 = dict(env)
                env2[x] = Var("int")
                body = self.block(rest, env2, tail, mon, ret)
                if p:
                    if not mon:
                        raise NeedMon()
                    return "bind (match %s with None =>\n%s\n| Some %s => Ok %s end) (fun %s =>\n%s)" % (
                        cname(x), self.wrap(p, "Ok %s" % c), tv, tv, cname(x), body)
                return "let %s := match %s with None => %s | Some %s => %s end in\n%s" % (
                    cname(x), cname(x), c, tv, tv, body)
            raise Unsupported("`is None` test in this form", s)
        tp, tc = self.truth(s.test, env)
        if tp and not mon:
            raise NeedMon()
        bt, ot = terminates(s.body), terminates(s.orelse)
        if bt or ot:
            def dead(_env):
                raise Unsupported("internal: fallthrough of a terminating branch", s)
            if bt and ot:
                if rest:
                    raise Unsupported("dead code after if", rest[0])
                b = self.block(s.body, env, dead, mon, ret)
                o = self.block(s.orelse, env, dead, mon, ret)
            elif bt:
                b = self.block(s.body, env, dead, mon, ret)
                o = self.block(list(s.orelse) + list(rest), env, tail, mon, ret)
            else:
                b = self.block(list(s.body) + list(rest), env, tail, mon, ret)
                o = self.block(s.orelse, env, dead, mon, ret)
            return self.wrap(tp, "if %s then\n%s\nelse\n%s" % (tc, b, o))
        # join
        av = assigned_vars(list(s.body) + list(s.orelse))
        ends = {}

        def probe(key):
            def k(e2):
                ends[key] = e2
                return "tt"
            return k
        self.block(s.body, env, probe("b"), True, None)
        self.block(s.orelse, env, probe("o"), True, None)
        join, coerce_b, coerce_o, jty = [], {}, {}, {}
        for v in av:
            if v in ends["b"] and v in ends["o"]:
                tb, to = ends["b"][v].ty, ends["o"][v].ty
                if tb == to:
                    join.append(v)
                    jty[v] = tb
                elif {tb, to} <= {"int", "bool", "val"}:
                    join.append(v)
                    jty[v] = "val"
                    w = {"int": "(VI %s)", "bool": "(VB %s)", "val": "%s"}
                    coerce_b[v], coerce_o[v] = w[tb], w[to]
                elif "list_unknown" in (tb, to) and tb.startswith("list") and to.startswith("list"):
                    join.append(v)
                    jty[v] = tb if to == "list_unknown" else to
                # else incompatible: the variable is unbound after the if (a later read is rejected)

        def mk_tail(coerce, want_mon):
            def k(e2):
                if not join:
                    tup = "tt"
                elif len(join) == 1:
                    tup = coerce.get(join[0], "%s") % cname(join[0])
                else:
                    tup = "(" + ", ".join((coerce.get(v, "%s") % cname(v)) for v in join) + ")"
                return ("Ok %s" % tup) if want_mon else tup
            return k
        env2 = dict(env)
        for v in av:
            if v in join:
                env2[v] = Var(jty[v], ends["b"][v].alias and ends["o"][v].alias)
            elif v in env2:
                del env2[v]
        after = self.block(rest, env2, tail, mon, ret)
        pat = lam_pat(join)
        try:
            if tp:
                raise NeedMon()
            b = self.block(s.body, env, mk_tail(coerce_b, False), False, None)
            o = self.block(s.orelse, env, mk_tail(coerce_o, False), False, None)
            return "let %s := (if %s then\n%s\nelse\n%s) in\n%s" % (pat, tc, b, o, after)
        except NeedMon:
            if not mon:
                raise
        b = self.block(s.body, env, mk_tail(coerce_b, True), True, None)
        o = self.block(s.orelse, env, mk_tail(coerce_o, True), True, None)
        return self.wrap(tp, "bind (if %s then\n%s\nelse\n%s) (fun %s =>\n%s)" % (tc, b, o, pat, after))

    # -- loops ----------------------------------------------------------------------------
    def loop_state(self, body, env, extra_bound, node, ret=None):
        """state variables of a loop and the entry environment with list_unknown resolved"""
        av = assigned_vars(body)
        state = [v for v in av if v in env and v not in extra_bound]
        envl = dict(env)
        for _ in range(3):
            ends = {}

            def probe(e2):
                ends["e"] = e2
                return "tt"
            envb = dict(envl)
            for k, ty in extra_bound.items():
                envb[k] = Var(ty)
            self.block(body, envb, probe, True, ret)
            changed = False
            for v in state:
                if v not in ends["e"]:
                    raise Unsupported("loop variable %r is not bound at the end of the body" % v, node)
                t0, t1 = envl[v].ty, ends["e"][v].ty
                if t0 != t1:
                    if t0 == "list_unknown" and t1.startswith("list_"):
                        envl[v] = Var(t1, envl[v].alias)
                        changed = True
                    else:
                        raise Unsupported("loop variable %r changes type %s -> %s" % (v, t0, t1), node)
            if not changed:
                return state, envl, av
        raise Unsupported("loop state types do not stabilise", node)

    def for_stmt(self, s, env, cont, mon, ret=None):
        if s.orelse:
            raise Unsupported("for-else", s)
        it = s.iter
        extra = {}
        if isinstance(it, ast.Call) and isinstance(it.func, ast.Name) and it.func.id == "enumerate" \
                and "enumerate" not in env and len(it.args) == 1 and not it.keywords:
            ip, c, ty = self.expr(it.args[0], env)
            if ty not in SEQ_ELT:
                raise Unsupported("enumerate over %s" % ty, s)
            if not (isinstance(s.target, ast.Tuple) and len(s.target.elts) == 2
                    and all(isinstance(x, ast.Name) for x in s.target.elts)):
                raise Unsupported("enumerate target", s)
            extra[s.target.elts[0].id] = "int"
            extra[s.target.elts[1].id] = SEQ_ELT[ty]
            itc = "(py_enumerate %s)" % c
            pat = "'(%s, %s)" % (cname(s.target.elts[0].id), cname(s.target.elts[1].id))
        else:
            ip, c, ty = self.expr(it, env)
            if ty not in SEQ_ELT:
                raise Unsupported("iteration over %s" % ty, s)
            if not isinstance(s.target, ast.Name):
                raise Unsupported("for target", s)
            extra[s.target.id] = SEQ_ELT[ty]
            itc = c
            pat = cname(s.target.id)
            if isinstance(it, ast.Name) and env[it.id].ty in MUTABLE and it.id in assigned_vars(s.body):
                raise Unsupported("loop mutates the sequence it iterates", s)
        for k in extra:
            if k in assigned_vars(s.body):
                raise Unsupported("loop target %r reassigned in the body" % k, s)
        has_return = any(isinstance(n, ast.Return) for b in s.body for n in ast.walk(b))
        if has_return and ret is None:
            raise Unsupported("return inside a nested loop or a joined conditional", s)
        state, envl, av = self.loop_state(s.body, env, extra, s,
                                          (lambda p, c, ty, e_, n_: "tt") if has_return else None)
        envb = dict(envl)
        for k, ty in extra.items():
            envb[k] = Var(ty)
        env2 = dict(envl)
        for v in av:
            if v not in state and v in env2:
                del env2[v]
        for k in extra:   # python keeps the target bound only if the loop ran: reject any later use
            env2.pop(k, None)
        after = cont(env2)
        sp, st = lam_pat(state), tuple_pat(state)
        if has_return:
            # early exit: the body yields  inl state (go on)  |  inr value (return value)
            if not mon:
                raise NeedMon()
            rtys = []

            def inner_ret(p, c, ty, envr, node):
                rtys.append((ty, envr, node))
                return self.wrap(p, "Ok (inr %s)" % c)
            body = self.block(s.body, envb, lambda e2: "Ok (inl %s)" % st, True, inner_ret)
            tys = set(t for t, _, _ in rtys)
            if len(tys) != 1:
                raise Unsupported("returns of different types inside a loop: %s" % sorted(tys), s)
            rty, renv, rnode = rtys[0]
            rv = self.tmp()
            out = ret([], rv, rty, env2, rnode)       # type check + in/out arguments as for any return
            return self.wrap(ip, "bind (for_ret %s %s (fun %s %s =>\n%s)) (fun r_ =>\nmatch r_ with\n| inr %s => %s\n"
                                 "| inl %s => %s\nend)" % (itc, st, sp, pat, body, rv, out, sp if state else "_", after))
        try:
            if ip:
                raise NeedMon()
            body = self.block(s.body, envb, lambda e2: st, False, None)
            return "let %s := fold_left (fun %s %s =>\n%s) %s %s in\n%s" % (sp, sp, pat, body, itc, st, after)
        except NeedMon:
            if not mon:
                raise
        body = self.block(s.body, envb, lambda e2: "Ok %s" % st, True, None)
        return self.wrap(ip, "bind (for_res %s %s (fun %s %s =>\n%s)) (fun %s =>\n%s)" % (
            itc, st, sp, pat, body, sp, after))

    def while_stmt(self, s, env, cont, mon):
        if s.orelse:
            raise Unsupported("while-else", s)
        if not mon:
            raise NeedMon()
        self.uses_fuel = True
        state, envl, av = self.loop_state(s.body, env, {}, s)
        tp, tc = self.truth(s.test, envl)
        if tp:
            raise Unsupported("raising loop condition", s)
        env2 = dict(envl)
        for v in av:
            if v not in state and v in env2:
                del env2[v]
        after = cont(env2)
        sp, st = lam_pat(state), tuple_pat(state)
        body = self.block(s.body, dict(envl), lambda e2: "Ok %s" % st, True, None)
        return "bind (while_res fuel (fun %s => %s) (fun %s =>\n%s) %s) (fun %s =>\n%s)" % (
            sp, tc, sp, body, st, sp, after)

    # ---------------------------------------------------------------- function
    def translate(self):
        fd, sig = self.fdef, self.sig
        a = fd.args
        decos = [d.id for d in fd.decorator_list if isinstance(d, ast.Name)]
        if a.vararg or a.kwarg or a.kwonlyargs or a.posonlyargs or len(decos) != len(fd.decorator_list) or \
                decos != (["staticmethod"] if sig.get("staticmethod") else []):
            raise Unsupported("function signature form", fd)
        pnames = [x.arg for x in a.args]
        if pnames != [p[0] for p in sig["params"]]:
            raise Unsupported("parameters %r differ from the declared signature %r" % (pnames, sig["params"]), fd)
        defaults = [None] * (len(pnames) - len(a.defaults)) + list(a.defaults)
        env = {}
        for pn, pty in sig["params"]:
            if pty not in COQ_TYPE:
                raise Unsupported("parameter type %s" % pty, fd)
            env[pn] = Var(pty, alias=pty in MUTABLE, param=True)
        for (obj, _attr), (nm, ty) in self.attrs.items():
            if obj not in env or nm in env or ty not in COQ_TYPE:
                raise Unsupported("attrs declaration", fd)
            env[nm] = Var(ty, alias=ty in MUTABLE, param=True)
        for m_ in self.mutates:
            if m_ not in env or env[m_].ty != "bytearray":
                raise Unsupported("mutates declaration", fd)
        rty = sig["ret"]

        def mk_ret(mon):
            def ret(p, c, ty, envr, node):
                ok = (compatible(ty, rty) or (rty == "bytes" and ty == "bytearray")
                      or (rty == "bytearray" and ty == "bytes") or (rty == "int" and ty == "tok"))
                if not ok:
                    raise Unsupported("return type %s, declared %s" % (ty, rty), node)
                outs = []
                for mv in self.mutates:
                    if mv not in envr or not envr[mv].alias:
                        raise Unsupported("in/out argument %r not available at return" % mv, node)
                    outs.append(cname(mv))
                if p and not mon:
                    raise NeedMon()
                if outs:
                    c = "(%s, %s)" % (c, ", ".join(outs))
                elif p and c == p[-1][0]:
                    return self.wrap(p[:-1], p[-1][1])      # return prim(...)  (tail call)
                return self.wrap(p, "Ok %s" % c) if mon else c
            return ret

        def nofall(_e):
            raise Unsupported("function may fall off its end (returns None)", fd)
        try:
            self.fresh = 0
            body = self.block(fd.body, env, nofall, False, mk_ret(False))
            mon = False
        except NeedMon:
            self.fresh = 0
            body = self.block(fd.body, env, nofall, True, mk_ret(True))
            mon = True
        cty = coq_type(rty)
        for mv in self.mutates:
            cty = "(%s * %s)" % (cty, COQ_TYPE[env[mv].ty])
        plist = []
        for pn, pty in sig["params"]:
            for (obj, _attr), (nm, ty) in self.attrs.items():     # extra arguments precede their object
                if obj == pn:
                    plist.append("(%s : %s)" % (cname(nm), COQ_TYPE[ty]))
            plist.append("(%s : %s)" % (cname(pn), COQ_TYPE[pty]))
        params = " ".join(plist)
        fuel = "(fuel : nat) " if self.uses_fuel else ""
        text = "Definition %s %s%s : %s :=\n%s." % (
            sig.get("coq_name", self.name), fuel, params, ("res (%s)" % cty) if mon else cty, indent(body))
        return text, dict(mon=mon, fuel=self.uses_fuel, defaults=defaults)


def indent(code):
    """re-indent by parenthesis depth (cosmetic only)"""
    out, depth = [], 1
    for line in code.split("\n"):
        line = line.strip()
        out.append("  " * min(depth, 12) + line)
        depth += line.count("(") - line.count(")")
    return "\n".join(out)


class Module(object):
    def __init__(self, sigs):
        self.sigs = sigs
        self.done = {}


def translate_module(source, sigs, modname, srcpath=""):
    tree = ast.parse(source)
    mod = Module(sigs)
    fdefs = {}
    order = []
    for node in tree.body:
        if isinstance(node, ast.ClassDef):
            for sub in node.body:       # methods are addressed as "Class.method" in sigs
                key = "%s.%s" % (node.name, sub.name) if isinstance(sub, ast.FunctionDef) else None
                if key in sigs:
                    if key in fdefs:
                        raise Unsupported("method %s defined twice" % key, sub)
                    fdefs[key] = sub
                    order.append(key)
        if isinstance(node, ast.FunctionDef):
            if node.name in fdefs and node.name in sigs:
                raise Unsupported("function %s defined twice" % node.name, node)
            fdefs[node.name] = node
            if node.name in sigs:
                order.append(node.name)
        elif isinstance(node, (ast.Assign, ast.AugAssign)):
            # a module-level rebinding of a translated name or of a builtin would change meanings
            for t in ast.walk(node):
                if isinstance(t, ast.Name) and isinstance(t.ctx, ast.Store) and \
                        (t.id in sigs or t.id in ("len", "int", "str", "ord", "sum", "range", "enumerate",
                                                   "bytearray", "tuple", "struct", "string")):
                    raise Unsupported("module-level rebinding of %s" % t.id, node)
    out = ["(* GENERATED by props/C40/translate.py from %s -- DO NOT EDIT." % (srcpath or modname),
           "   source sha256 = %s *)" % hashlib.sha256(source.encode()).hexdigest(),
           "From Coq Require Import ZArith List Bool.",
           "Import ListNotations.",
           "Require Import V.Lib.C40_PyRt.",
           "Open Scope Z_scope.", ""]
    # source order (callees are defined before callers, else call_user rejects)
    missing = [n for n in sigs if n not in fdefs]
    if missing:
        raise Unsupported("functions missing from the source: %s" % missing)
    info = {}
    for nm in order:
        ft = FnTranslator(mod, fdefs[nm], sigs[nm])
        text, inf = ft.translate()
        mod.done[nm] = inf
        info[nm] = inf
        out.append(text)
        out.append("")
    return "\n".join(out), info


# ---------------------------------------------------------------------------------------------
# self test: constructs outside the whitelist must be REJECTED (fail closed), run by the checks
REJECTED = [
    ("try", "def f(n):\n    try:\n        return n\n    except Exception:\n        return 0\n", ["int"]),
    ("break", "def f(n):\n    while n:\n        break\n    return n\n", ["int"]),
    ("true division", "def f(n):\n    return n / 2\n", ["int"]),
    ("float", "def f(n):\n    return 1.5\n", ["int"]),
    ("unknown call", "def f(n):\n    return g(n)\n", ["int"]),
    ("None value", "def f(n):\n    return n if n else None\n", ["int"]),
    ("return in while loop", "def f(n):\n    while n:\n        return n\n    return 0\n", ["int"]),
    ("lambda", "def f(n):\n    return (lambda x: x)(n)\n", ["int"]),
    ("global", "def f(n):\n    global z\n    z = n\n    return n\n", ["int"]),
    ("and as value", "def f(n, m):\n    return n and m\n", ["int", "int"]),
    ("while else", "def f(n):\n    while n:\n        n -= 1\n    else:\n        n = 3\n    return n\n", ["int"]),
    ("mutating the caller's argument", "def f(b):\n    b.append(1)\n    return 0\n", ["bytearray"]),
    ("aliasing", "def f(b):\n    c = bytearray(b)\n    d = c\n    d.append(1)\n    return len(c)\n", ["bytes"]),
    ("unbound after loop", "def f(n):\n    for i in range(n):\n        k = i\n    return k\n", ["int"]),
    ("variable step range", "def f(n):\n    t = 0\n    for i in range(0, 9, n):\n        t += i\n    return t\n", ["int"]),
    ("str index", "def f(s):\n    return len(s[0])\n", ["str"]),
    ("fall off the end", "def f(n):\n    n += 1\n", ["int"]),
    ("star args", "def f(*a):\n    return 0\n", []),
    ("identity test on ints", "def f(n, m):\n    if n is m:\n        return 1\n    return 0\n", ["int", "int"]),
    ("mutating an identity list", "def f(l, x):\n    l.append(x)\n    return 0\n", ["list_frame", "frame"]),
    ("comprehension filter", "def f(n):\n    return sum([i for i in range(n) if i])\n", ["int"]),
]
ACCEPTED = [
    ("return in nested loop", "def f(n):\n    for i in range(n):\n        for j in range(i):\n            return j\n    return 0\n", ["int"]),
    ("return in for loop", "def f(n):\n    for i in range(n):\n        if i:\n            return i\n    return 0\n", ["int"]),
    ("raising operand after or", "def f(n, m):\n    if n or (1 << m):\n        return 1\n    return 0\n", ["int", "int"]),
    ("arith", "def f(n):\n    return (n << 2) | 1\n", ["int"]),
    ("loop", "def f(b):\n    t = 0\n    for x in b:\n        t += x\n    return t\n", ["bytes"]),
]


def selftest():
    """returns the list of snippet names on which the translator misbehaves"""
    bad = []
    for name, src, ptys in REJECTED + ACCEPTED:
        tree = ast.parse(src)
        params = [(a.arg, t) for a, t in zip(tree.body[0].args.args, ptys)]
        sigs = {"f": dict(params=params, ret="int")}
        try:
            translate_module(src, sigs, "selftest")
            accepted = True
        except Unsupported:
            accepted = False
        except Exception as ex:  # noqa  -- any other exception is a translator bug
            bad.append("%s: %r" % (name, ex))
            continue
        if accepted != ((name, src, ptys) in ACCEPTED):
            bad.append(name + (": accepted" if accepted else ": rejected"))
    return bad
