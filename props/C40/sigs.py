"""declared signatures (the translator's type table) for the translated functions"""

BYTING = {
    "binize": dict(params=[("n", "int"), ("size", "int")], ret="str"),
    "unbinize": dict(params=[("u", "str")], ret="int"),
    "hexize": dict(params=[("b", "bytes")], ret="str"),
    "unhexize": dict(params=[("h", "str")], ret="bytes"),
    "hexify": dict(params=[("b", "intseq")], ret="str"),
    "unhexify": dict(params=[("h", "str")], ret="bytearray"),
    "bytify": dict(params=[("n", "int"), ("size", "int"), ("reverse", "bool"), ("strict", "bool")],
                   ret="bytearray"),
    "unbytify": dict(params=[("b", "intseq"), ("reverse", "bool")], ret="int"),
    "packify": dict(params=[("fmt", "fmt"), ("fields", "list_int"), ("size", "opt_int"), ("reverse", "bool")],
                    ret="bytearray"),
    "packifyInto": dict(params=[("b", "bytearray"), ("fmt", "fmt"), ("fields", "list_int"), ("size", "opt_int"),
                                ("offset", "int"), ("reverse", "bool")], ret="int", mutates=["b"]),
    "unpackify": dict(params=[("fmt", "fmt"), ("b", "intseq"), ("boolean", "bool"), ("size", "opt_int"),
                              ("reverse", "bool")], ret="tuple_val"),
    "signExtend": dict(params=[("x", "int"), ("n", "int")], ret="int"),
    "packByte": dict(params=[("fmt", "bytes"), ("fields", "list_int")], ret="int"),
    "unpackByte": dict(params=[("fmt", "bytes"), ("byte", "int"), ("boolean", "bool")], ret="tuple_val"),
}

CHECKING = {
    "crc16": dict(params=[("inpkt", "intseq")], ret="bytes"),
    "crc64": dict(params=[("inpkt", "intseq")], ret="pair_int"),
}
