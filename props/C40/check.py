"""
C40 -- bit, byte and hex codecs round-trip  (ioflo/aid/byting.py).

Tie T: props/C40/translate.py regenerates coq/gen/Byting.v from the CURRENT byting.py on every
run (fail-closed); coq/C40/Props.v states the property about the generated definitions.
  1. gen(ctx)            translate  (failure -> tie_broken translator)
  2. coq_build           proofs     (failure -> tie_broken proof)
  3. correspondence      the generated model is evaluated (vm_compute) on the same inputs as the
                         implementation: validates translator + C40_PyRt prelude
  4. statement sampling  the implementation alone against the executable statement (stmt.py);
                         a failure is a VIOLATION even if 1-3 pass; it is also the `search`
                         that produces the concrete input when a tie is broken.
"""
import itertools
import os
import struct
import sys

sys.path.insert(0, os.path.dirname(os.path.abspath(__file__)))
import sigs  # noqa: E402
import stmt  # noqa: E402
import translate  # noqa: E402
from vlib import cz, czlist, cbool  # noqa: E402

LEVEL = "proof"

HEADER = """From Coq Require Import ZArith List Bool.
Import ListNotations.
Require Import V.Lib.C40_PyRt V.gen.Byting.
Open Scope Z_scope.
Inductive R := RZ (z : Z) | RL (l : list Z) | RV (l : list val) | RP (z : Z) (l : list Z).
Definition rmap {A} (f : A -> R) (r : res A) : res R := match r with Ok a => Ok (f a) | Err e => Err e end.
Fixpoint lz_eqb (a b : list Z) := match a, b with [], [] => true | x :: a', y :: b' => (x =? y) && lz_eqb a' b' | _, _ => false end.
Definition val_eqb (a b : val) := match a, b with VI x, VI y => x =? y | VB x, VB y => Bool.eqb x y | _, _ => false end.
Fixpoint lv_eqb (a b : list val) := match a, b with [], [] => true | x :: a', y :: b' => val_eqb x y && lv_eqb a' b' | _, _ => false end.
Definition R_eqb (a b : R) := match a, b with
  | RZ x, RZ y => x =? y | RL x, RL y => lz_eqb x y | RV x, RV y => lv_eqb x y
  | RP x l, RP y m => (x =? y) && lz_eqb l m | _, _ => false end.
Definition exc_eqb (a b : exc) := match a, b with
  | ValueError, ValueError | IndexError, IndexError | TypeError, TypeError | StructError, StructError
  | ZeroDivisionError, ZeroDivisionError => true | _, _ => false end.
(* model vs implementation; [Err Unmodelled] on the model side = input outside the modelled domain *)
Definition cmp (model impl : res R) : bool := match model, impl with
  | Err Unmodelled, _ => true
  | Ok a, Ok b => R_eqb a b
  | Err a, Err b => exc_eqb a b
  | _, _ => false end.
Definition F := Z.to_nat 4000.
"""

EXC = {ValueError: "ValueError", IndexError: "IndexError", TypeError: "TypeError",
       struct.error: "StructError", ZeroDivisionError: "ZeroDivisionError"}


def gen(ctx):
    """regenerate coq/gen/Byting.v from the implementation under test; returns True on success"""
    src = os.path.join(ctx.repo, "ioflo", "aid", "byting.py")
    try:
        text, _ = translate.translate_module(open(src).read(), sigs.BYTING, "Byting", "ioflo/aid/byting.py")
    except (translate.Unsupported, SyntaxError, KeyError) as ex:
        ctx.tie_broken("translator", "byting.py is outside the translated fragment", repr(ex))
        return False
    bad = translate.selftest()      # fail-closed behaviour of the translator itself
    if bad:
        ctx.tie_broken("translator", "translator self-test", "; ".join(bad))
        return False
    ctx.extra["translator_selftest"] = "%d rejected + %d accepted snippets behave as expected" % (
        len(translate.REJECTED), len(translate.ACCEPTED))
    ctx.write_gen("Byting.v", text)
    return True


# ------------------------------------------------------------------ rendering
def copt(x):
    return "None" if x is None else "(Some %s)" % cz(x)


def cvals(t):
    return "[" + "; ".join(("VB %s" % cbool(v)) if isinstance(v, bool) else ("VI %s" % cz(v)) for v in t) + "]" \
        if t else "(@nil val)"


def cstr(s):
    return czlist([ord(c) for c in s])


def run_impl(f, *args, **kw):
    try:
        return ("ok", f(*args, **kw))
    except Exception as ex:  # noqa
        for cls, nm in EXC.items():
            if type(ex) is cls:
                return ("err", nm)
        return ("err", "Other:" + type(ex).__name__)


def compositions(total):
    """all lists of positive ints summing to total"""
    if total == 0:
        yield []
        return
    for first in range(1, total + 1):
        for rest in compositions(total - first):
            yield [first] + rest


def fmt_str(ws):
    return " ".join(str(w) for w in ws)


def run(ctx):
    from ioflo.aid import byting
    ctx.rule = ("each translated function is run on the implementation and (vm_compute) on the model "
                "regenerated from the same source: pack/unpack over every format (composition) of total width "
                "<= W with boundary+random field values and all values for small widths, random wider formats, "
                "explicit sizes (incl. too small), reverse, boolean; bytify/unbytify/binize/unbinize/hex*/signExtend "
                "over small exhaustive grids + random; non-trivial = result is not an error and input non-empty; "
                "then the implementation alone is run against the executable statement (stmt.py)")
    ctx.assumptions = [
        "a fmt string is represented by the list of its parsed integer widths (fmt.split()/int(x) are not modelled; "
        "non-integer tokens raise ValueError in the implementation and are outside the model)",
        "field values are ints (True/False are the ints 1/0, as in Python)",
        "inputs on which the model answers Err Unmodelled (negative exponent -> float, non-ASCII digits) are skipped",
    ]
    ok = gen(ctx)
    if ok:
        ctx.coq_build("C40/Props.v")
    rng = ctx.rng
    cases, metas = [], []

    def add(fn, model, res, meta, kind):
        """res = ('ok', value) | ('err', cls)"""
        if res[0] == "ok":
            v = res[1]
            if fn in ("packify", "bytify", "unhexify", "unhexize"):
                lit = "Ok (RL %s)" % czlist(list(v))
            elif fn in ("binize", "hexify", "hexize"):
                lit = "Ok (RL %s)" % cstr(v)
            elif fn in ("unbytify", "unbinize", "signExtend", "packByte"):
                lit = "Ok (RZ %s)" % cz(v)
            elif fn in ("unpackify", "unpackByte"):
                lit = "Ok (RV %s)" % cvals(v)
            elif fn == "packifyInto":
                lit = "Ok (RP %s %s)" % (cz(v[0]), czlist(list(v[1])))
            else:
                raise RuntimeError(fn)
        else:
            if res[1].startswith("Other:"):
                lit = "Err OutOfFuel"   # never equal to a model answer (except Unmodelled)
            else:
                lit = "Err %s" % res[1]
        wrap = {"packify": "RL", "bytify": "RL", "unhexify": "RL", "unhexize": "RL", "binize": "RL", "hexify": "RL",
                "hexize": "RL", "unbytify": "RZ", "unbinize": "RZ", "signExtend": "RZ", "unpackify": "RV",
                "packByte": "RZ", "unpackByte": "RV"}.get(fn)
        if fn == "packifyInto":
            m = "rmap (fun p => RP (fst p) (snd p)) (%s)" % model
        else:
            m = "rmap %s (%s)" % (wrap, model)
        cases.append((m, lit))
        metas.append((fn, meta, res))
        ctx.case({"fn": fn, "in": meta, "out": [res[0], repr(res[1])]}, nontrivial=res[0] == "ok" and bool(meta),
                 kind=fn + ("" if res[0] == "ok" else ":" + res[1]))

    # ---- pack / unpack ------------------------------------------------------------------
    def pack_case(ws, vs, size, rev):
        r = run_impl(byting.packify, fmt_str(ws), list(vs), size, rev)
        add("packify", "packify F %s %s %s %s" % (czlist(ws), czlist([int(v) for v in vs]), copt(size), cbool(rev)),
            r, {"fmt": ws, "fields": [int(v) for v in vs], "size": size, "reverse": rev}, "pack")

    def unpack_case(ws, b, boolean, size, rev):
        r = run_impl(byting.unpackify, fmt_str(ws), bytearray(b), boolean, size, rev)
        add("unpackify", "unpackify F %s %s %s %s %s" % (czlist(ws), czlist(list(b)), cbool(boolean), copt(size),
                                                        cbool(rev)),
            r, {"fmt": ws, "b": list(b), "boolean": boolean, "size": size, "reverse": rev}, "unpack")

    def into_case(b, ws, vs, size, off, rev):
        bb = bytearray(b)
        r = run_impl(byting.packifyInto, bb, fmt_str(ws), list(vs), size, off, rev)
        if r[0] == "ok":
            r = ("ok", (r[1], bytes(bb)))
        add("packifyInto", "packifyInto F %s %s %s %s %s %s" % (
            czlist(list(b)), czlist(ws), czlist([int(v) for v in vs]), copt(size), cz(off), cbool(rev)),
            r, {"b": list(b), "fmt": ws, "fields": [int(v) for v in vs], "size": size, "offset": off, "reverse": rev},
            "into")

    def rand_vals(ws):
        mode = rng.randrange(4)
        out = []
        for w in ws:
            if mode == 0:
                out.append(rng.randrange(0, 2 ** max(w, 0) if w > 0 else 1))
            elif mode == 1:
                out.append((2 ** max(w, 0)) - 1 if w > 0 else 0)
            elif mode == 2:
                out.append(rng.randrange(-70000, 70000))          # out of range: must be masked
            else:
                out.append(rng.choice([0, 1, 2, 3, 255, 256, 2 ** max(w, 0), 2 ** max(w, 0) + 1, -1]))
        return out

    W = ctx.n(8, 12)            # exhaustive formats of total width <= W through the Coq model
    for total in range(0, W + 1):
        for ws in compositions(total):
            nv = 2 if total > 8 else 3
            for k in range(nv):
                pack_case(ws, rand_vals(ws), None, False if k else rng.random() < 0.3)
            nb = (total + 7) // 8
            for k in range(2 if total > 8 else 3):
                b = bytes(rng.randrange(256) for _ in range(nb))
                if k == 0:
                    b = bytes([255] * nb)
                unpack_case(ws, b, rng.random() < 0.5, None, rng.random() < 0.2)
    # all values for small formats
    for total in range(0, ctx.n(4, 6) + 1):
        for ws in compositions(total):
            for vs in itertools.product(*[range(2 ** w) for w in ws]):
                pack_case(ws, list(vs), None, False)
    # every byte value for all formats of total width <= 5 (pad field, boolean)
    for total in range(0, ctx.n(3, 5) + 1):
        for ws in compositions(total):
            for byte in range(256):
                if ctx.thorough or byte % 3 == 0 or byte > 250:
                    unpack_case(ws, bytes([byte]), byte % 2 == 0, None, False)
    # random wider formats, explicit sizes, zero/negative widths, short field lists
    for _ in range(ctx.n(300, 4000)):
        nf = rng.randint(0, 9)
        ws = [rng.choice([1, 1, 2, 3, 4, 5, 7, 8, 9, 12, 16, 17, 24, 31, 32, 33]) for _ in range(nf)]
        r = rng.random()
        if r < 0.06 and ws:
            ws[rng.randrange(nf)] = 0
        elif r < 0.10 and ws:
            ws[rng.randrange(nf)] = -rng.randint(1, 3)
        total = sum(ws)
        need = (total + 7) // 8
        size = rng.choice([None, None, need, need + 1, need + 2, max(need - 1, 0), 0])
        vs = rand_vals(ws)
        if rng.random() < 0.05 and vs:
            vs = vs[:-1]                                            # IndexError path
        rev = rng.random() < 0.4
        pack_case(ws, vs, size, rev)
        sz = need if size is None else size
        blen = max(0, sz + rng.choice([0, 0, 0, 1, -1, 3]))
        b = bytes(rng.randrange(256) for _ in range(blen))
        unpack_case(ws, b, rng.random() < 0.5, size, rev)
        if rng.random() < 0.5:
            pre = bytes(rng.randrange(256) for _ in range(rng.randint(0, 12)))
            into_case(pre, ws, vs, size, rng.randint(0, 10), rev)
    # ---- packByte / unpackByte (format = bytes of digits) -----------------------------------
    def byte_cases(fmtb, vs, byte, boolean):
        r = run_impl(byting.packByte, fmtb, list(vs))
        add("packByte", "packByte %s %s" % (czlist(list(fmtb)), czlist([int(v) for v in vs])), r,
            {"fmt": fmtb.decode("latin1"), "fields": [int(v) for v in vs]}, "packByte")
        r = run_impl(byting.unpackByte, fmtb, byte, boolean)
        add("unpackByte", "unpackByte %s %s %s" % (czlist(list(fmtb)), cz(byte), cbool(boolean)), r,
            {"fmt": fmtb.decode("latin1"), "byte": byte, "boolean": boolean}, "unpackByte")

    for total in range(0, 9):
        for ws in compositions(total):
            fmtb = "".join(str(w) for w in ws).encode()
            for k in range(ctx.n(2, 6)):
                byte_cases(fmtb, rand_vals(ws), rng.choice([0, 255, rng.randrange(256), rng.randrange(-300, 70000)]),
                           rng.random() < 0.5)
    for _ in range(ctx.n(150, 1500)):     # malformed: digits 0/9, letters, sums > 8, short field lists
        ln = rng.randint(0, 6)
        fmtb = bytes(rng.choice(b"1111222334567890a +") for _ in range(ln))
        vs = [rng.randrange(-5, 300) for _ in range(max(0, ln - (rng.random() < 0.1)))]
        byte_cases(fmtb, vs, rng.randrange(256), rng.random() < 0.5)
    # ---- bytify / unbytify ----------------------------------------------------------------
    ns = list(range(-3, 4)) + [127, 128, 255, 256, 257, 65535, 65536, 2 ** 24 - 1, 2 ** 32, -255, -256, -257, -65536]
    for n in ns:
        for size in (0, 1, 2, 3, 5):
            for rev in (False, True):
                for strict in (False, True):
                    r = run_impl(byting.bytify, n, size, rev, strict)
                    add("bytify", "bytify F %s %s %s %s" % (cz(n), cz(size), cbool(rev), cbool(strict)), r,
                        {"n": n, "size": size, "reverse": rev, "strict": strict}, "bytify")
    for _ in range(ctx.n(300, 3000)):
        n = rng.randrange(-2 ** 70, 2 ** 70) >> rng.randrange(0, 70)
        size, rev, strict = rng.randint(-1, 10), rng.random() < 0.5, rng.random() < 0.5
        r = run_impl(byting.bytify, n, size, rev, strict)
        add("bytify", "bytify F %s %s %s %s" % (cz(n), cz(size), cbool(rev), cbool(strict)), r,
            {"n": n, "size": size, "reverse": rev, "strict": strict}, "bytify")
    bl = [[]] + [[a] for a in range(256)]
    if ctx.thorough:
        bl += [[a, b] for a in range(0, 256, 5) for b in range(0, 256, 7)]
    for _ in range(ctx.n(300, 3000)):
        bl.append([rng.randrange(256) for _ in range(rng.randint(0, 12))])
    bl += [[256], [-1], [1, 2, 300]]
    for b in bl:
        rev = rng.random() < 0.5
        r = run_impl(byting.unbytify, list(b), rev)
        add("unbytify", "unbytify F %s %s" % (czlist(b), cbool(rev)), r, {"b": b, "reverse": rev}, "unbytify")
    # ---- binize / unbinize ----------------------------------------------------------------
    for n in list(range(-2, 20)) + [255, 256, 1023, -128]:
        for size in range(-1, 7):
            r = run_impl(byting.binize, n, size)
            add("binize", "binize %s %s" % (cz(n), cz(size)), r, {"n": n, "size": size}, "binize")
    for ln in range(0, ctx.n(6, 9) + 1):
        for bits in itertools.product("01", repeat=ln):
            u = "".join(bits)
            r = run_impl(byting.unbinize, u)
            add("unbinize", "unbinize %s" % cstr(u), r, {"u": u}, "unbinize")
    for u in ["2", "19", "a", "1 0", "10x", "-1", "+", "_"]:
        r = run_impl(byting.unbinize, u)
        add("unbinize", "unbinize %s" % cstr(u), r, {"u": u}, "unbinize")
    # ---- hex ------------------------------------------------------------------------------
    alphabet = "0123456789abcdefABCDEF" * 3 + "gxz -:_\n"
    for i in range(ctx.n(150, 1500)):
        b = bytes(rng.randrange(256) for _ in range(rng.randint(0, 9)))
        if i < 256:
            b = bytes([i])
        add("hexify", "hexify %s" % czlist(list(b)), run_impl(byting.hexify, bytearray(b)), {"b": list(b)}, "hexify")
        add("hexize", "hexize %s" % czlist(list(b)), run_impl(byting.hexize, b), {"b": list(b)}, "hexize")
        h = "".join(rng.choice(alphabet) for _ in range(rng.randint(0, 12)))
        add("unhexify", "unhexify %s" % cstr(h), run_impl(byting.unhexify, h), {"h": h}, "unhexify")
        add("unhexize", "unhexize %s" % cstr(h), run_impl(byting.unhexize, h), {"h": h}, "unhexize")
    # hex text with separators / prefixes (unhexify's documented domain: non-hex characters are stripped)
    shapes = ["", ":", "0", "0:", ":0", "0x", "1:2", "0x1f", "01:02", "de ad be ef", "DE-AD", "a\nb", "0xg1"]
    for b in ([0], [1, 2], [0xde, 0xad, 0xbe]):
        shapes += stmt.hex_texts(b)
    for h in shapes:
        add("unhexify", "unhexify %s" % cstr(h), run_impl(byting.unhexify, h), {"h": h}, "unhexify")
        add("unhexize", "unhexize %s" % cstr(h), run_impl(byting.unhexize, h), {"h": h}, "unhexize")
    # ---- signExtend -----------------------------------------------------------------------
    for n in range(-1, 8):
        for x in range(0, 2 ** max(n, 0) + 2):
            r = run_impl(byting.signExtend, x, n)
            add("signExtend", "signExtend %s %s" % (cz(x), cz(n)), r, {"x": x, "n": n}, "signExtend")
    for _ in range(ctx.n(100, 1000)):
        n = rng.randint(1, 70)
        x = rng.randrange(-5, 2 ** n + 5)
        r = run_impl(byting.signExtend, x, n)
        add("signExtend", "signExtend %s %s" % (cz(x), cz(n)), r, {"x": x, "n": n}, "signExtend")

    if ok:
        bad = ctx.coq_cases(HEADER, "cmp", cases, shard=ctx.n(400, 1500))
        for i in bad[:5]:
            fn, meta, res = metas[i]
            ctx.tie_broken("correspondence", "generated model vs byting.%s" % fn,
                           "input=%r implementation=%r model=%s" % (meta, res, cases[i][0]))
        ctx.extra["mismatches"] = len(bad)
    ctx.exhaustive = False

    # ---- the implementation alone against the executable statement ----------------------------
    fail = stmt.search(byting, ctx.rng, ctx.n(10, 16), ctx.n(2000, 20000), count=ctx.case)
    ctx.extra["statement_checks"] = stmt.COUNT[0]
    if fail is not None and not ctx.broken:
        ctx.tie_broken("statement", fail["contradicts"], "implementation fails the executable statement: %r" % fail)
    ctx.settle(lambda: fail)
