"""C06 -- kernel property (see coq/C06/Props.v, coq/Kernel/*.v, lib/kernel.py, lib/kprops.py)."""
import kprops

LEVEL = "proof"
RUNS = [{'label': 'trans', 'quick': 45, 'thorough': 450, 'features': {'slave': False}, 'ticks': (0.125,), 'crash': 'none'}, {'label': 'stop', 'quick': 20, 'thorough': 200, 'features': {}, 'ticks': (0.125, 0.1), 'crash': 'some'}]


def run(ctx):
    import json, os
    corpus = [(c["prog"], c["crash_at"]) for c in json.load(open(os.path.join(os.path.dirname(__file__), "..", "C06", "corpus.json")))]
    for r in RUNS:
        r["ticks"] = tuple(r["ticks"])
    import sys
    sys.path.insert(0, os.path.join(os.path.dirname(__file__), "..", "C06x"))
    import exen      # T-tie: Framer.ExEn / Uncommon translated from the source on every run (props/C06x)
    kprops.kernel_check(ctx, "C06", runs=RUNS, extra_checks=[exen.check_exen], preds=['C06', 'C06t', 'C05'], corpus=corpus,
                        rule="random kernel programs (frame forests, transitions to self/ancestor/descendant/other subtree, plain and conditional auxiliaries, stop/abort, crashes) with a recorder first in every frame's enter and exit context; traces compared with the Coq model; implementation-only statement: per frame enter/exit alternate starting with enter, and every entered frame of a scheduled framer is exited when a run ends without a crash. Two corpus programs replay the open findings. Non-trivial = outline change and > 6 events")
