"""
C02 -- scheduler runs each due tasker once per tick, on its period, in declared order.

Theorems: coq/C02/Props.v (about coq/Kernel/Model.v : Skedder.run tick loop), generic in the time
type.  Tie H: correspondence of whole runs (model instantiated with binary64, bit exact) on a grid
of tick periods x tasker periods x placements, plus random programs with period-changing bids.
"""
import itertools

import kernel

LEVEL = "proof"

TICKS = [0.0625, 0.125, 0.1, 0.05, 0.2, 0.3, 1.0]


def grid_prog(tick, periods, orders, bid=None, ctl="run"):
    """one framer per tasker: a single frame with a recorder in recur; optional period-changing bid"""
    fms = []
    tag = 0
    for i, (p, o) in enumerate(zip(periods, orders)):
        tag += 3
        fr = {"name": "f0", "over": None, "under": None, "beacts": [], "enacts": [["rec", tag]],
              "renacts": [], "preacts": [], "reacts": [["rec", tag + 1]], "exacts": [["rec", tag + 2]],
              "rexacts": [], "auxes": []}
        fms.append({"name": "m%d" % i, "sched": "active", "order": o, "period": p, "first": "f0", "frames": [fr]})
    if bid is not None:
        who, when, newp, target = bid
        fr = fms[who]["frames"][0]
        # after `when` recurs, rebid run with a new period for target (period change by a bid)
        fr["preacts"].append(["go", [["recurred", ">=", when]], "f1"])
        f1 = {"name": "f1", "over": None, "under": None, "beacts": [],
              "enacts": [["rec", 900 + who], ["bid", ctl, ["m%d" % target], newp]],   # recorder announces the bid
              "renacts": [], "preacts": [], "reacts": [["rec", 950 + who]], "exacts": [], "rexacts": [], "auxes": []}
        fms[who]["frames"].append(f1)
    return {"tick": tick, "nvars": 1, "framers": fms}


def sked_statement(prog, ob):
    """the property's statement, executable, on the implementation's observations alone.
    returns None if it holds, else a description"""
    ix = kernel.Index(prog)
    order = ix.taskables(prog)
    pos = {t: i for i, t in enumerate(order)}
    by_tick = {}
    for e in ob["trace"]:
        if e[0] == "send":
            by_tick.setdefault(e[1], []).append(e)
    aborted = set()
    queue = list(order)
    for tk in sorted(by_tick):
        sent = [e[2] for e in by_tick[tk]]
        if len(set(sent)) != len(sent) and tk < max(by_tick):   # the last tick also holds the abort sweep
            return "tasker sent twice in tick %d: %r" % (tk, sent)
        main = [t for t in sent if t in pos]
        first_pass = main[:len(set(main))]
        if [t for t in queue if t in first_pass] != first_pass and tk < max(by_tick):
            return "run order in tick %d is %r, queue order %r" % (tk, first_pass, queue)
        for e in by_tick[tk]:
            if e[2] in aborted and e[3] != 3:
                return "aborted tasker %d sent control %d in tick %d" % (e[2], e[3], tk)
            if e[4] == 3:
                aborted.add(e[2])
    return None


def period_statement(prog, ob, maxticks):
    """k-th run at the first tick whose stamp has reached the scheduler's own t0 + k*p (iterated
    binary64 additions, the stamps the taskers see); only for constant periods (grid programs)"""
    tick = prog["tick"]
    stamps = [0.0]
    for _ in range(maxticks + 2):
        stamps.append(stamps[-1] + tick)
    last_tick = max([e[1] for e in ob["trace"]] or [0])
    for t, fm in enumerate(prog["framers"]):
        runs = [e[1] for e in ob["trace"] if e[0] == "send" and e[2] == t and e[3] in (1, 2)]
        retime, exp = 0.0, []
        for j in range(last_tick + 1):
            if not (retime > stamps[j]):
                exp.append(j)
                retime = retime + fm["period"]
        # the run may have been cut by the tick limit: compare the common prefix, all but the last tick
        runs = [j for j in runs if j < last_tick]
        exp = [j for j in exp if j < last_tick]
        if runs != exp[:len(runs)] or (len(runs) < len(exp) and not any(
                e[0] == "send" and e[2] == t and e[4] in (0, 3) for e in ob["trace"])):
            return "tasker %d period %r ran at ticks %r, expected %r" % (t, fm["period"], runs, exp)
    return None


def replay_statement(prog, ob):
    """replay of the due test on the implementation's trace alone, with period changes: every scheduler send
    must go to a tasker that is due (retime <= stamp), every due live tasker must be sent in that tick, and after
    a run retime advances by the period the tasker has at that moment (a bid's period applies from the next
    reschedule).  Bids are announced by the recorder placed in front of them (tags 900+who in grid programs)."""
    ix = kernel.Index(prog)
    order = ix.taskables(prog)
    tick = prog["tick"]
    stamps, s = [], 0.0
    for _ in range(4096):
        stamps.append(s)
        s += tick
    period = {ix.tid[fm["name"]]: abs(fm["period"]) for fm in prog["framers"]}
    retime = {t: 0.0 for t in order}
    alive = set(order)
    bids = {}
    for fm in prog["framers"]:
        for fr in fm["frames"]:
            acts = fr.get("enacts", [])
            for i in range(len(acts) - 1):
                if acts[i][0] == "rec" and acts[i + 1][0] == "bid" and acts[i + 1][3] is not None \
                        and acts[i + 1][1] not in ("stop", "abort"):
                    bids[acts[i][1]] = ([ix.tid[n] for n in acts[i + 1][2]], max(0.0, acts[i + 1][3]))
    last_tick = max([e[1] for e in ob["trace"]] or [0])
    sent = {}
    for e in ob["trace"]:
        if e[0] == "rec":
            if e[2] in bids:
                for t in bids[e[2]][0]:
                    period[t] = bids[e[2]][1]
            continue
        tk, t, c, r = e[1], e[2], e[3], e[4]
        if t not in retime:
            continue
        if tk == last_tick and c == 3:
            continue            # the final sweep
        if t not in alive:
            return "tasker %d sent control %d at tick %d after it had aborted" % (t, c, tk)
        if retime[t] > stamps[tk]:
            return "tasker %d ran at tick %d (stamp %r) before its retime %r" % (t, tk, stamps[tk], retime[t])
        # every earlier tick at which it was due must have had a send
        j = sent.get(t, -1) + 1
        while j < tk:
            if not (retime[t] > stamps[j]):
                return "tasker %d was due at tick %d (retime %r) but first ran at tick %d" % (t, j, retime[t], tk)
            j += 1
        sent[t] = tk
        retime[t] = retime[t] + period[t]
        if r == 3 or r is None:
            alive.discard(t)
    return None


def run(ctx):
    ctx.rule = ("(a) grid: tick period in %r x 1-3 taskers with periods from {0, tick/2, tick, 2*tick, 3*tick, 0.1, "
                "0.15, 0.4, 0.7} in every front/mid/back placement (sampled in quick, exhaustive for <=2 taskers in "
                "thorough), optionally one period-changing bid; (b) random kernel programs with periods and bids. "
                "Whole-run traces compared with the Coq model (binary64 instance, vm_compute). Non-trivial = at "
                "least one tasker with a non-zero period or an outline change" % (TICKS,))
    ctx.assumptions = [
        "real=False (simulated time): wall-clock pacing with MonoTimer/time.sleep is not covered",
        "decimal periods: the k-th run threshold is the scheduler's own binary64 accumulation t0 (+) p ... (+) p "
        "(DESIGN.md C02: documented interpretation); the exact-arithmetic statement is proved for Q",
    ]
    ctx.coq_build("C02/Props.v")

    maxticks = ctx.n(24, 48)
    progs = []
    for tick in TICKS:
        pers = [0.0, tick / 2, tick, 2 * tick, 3 * tick, 0.1, 0.15, 0.4, 0.7]
        combos = []
        for n in (1, 2, 3):
            for ps in itertools.product(pers, repeat=n):
                combos.append(ps)
        ctx.rng.shuffle(combos)
        take = combos[:ctx.n(6, 60)]
        for ps in take:
            orders = [ctx.rng.choice(["front", "mid", "back"]) for _ in ps]
            bid = None
            if ctx.rng.random() < 0.6:
                bid = (ctx.rng.randrange(len(ps)), ctx.rng.randint(1, 4), ctx.rng.choice(pers + [0.0, 0.0]),
                       ctx.rng.randrange(len(ps)))
            # every period-carrying control (start / run / ready), incl. a new period of exactly 0
            progs.append(grid_prog(tick, list(ps), orders, bid, ctl=ctx.rng.choice(["run", "start", "run", "ready"])))
    cases, metas = [], []
    for i, p in enumerate(progs):
        ob = kernel.run_impl(p, None, ctx.work, "g%d" % i, maxticks=maxticks)
        if "error" in ob:
            ctx.tie_broken("correspondence", "grid program raised %s" % ob["error"], kernel.json_dumps(ob))
            continue
        ctx.case({"tick": p["tick"], "periods": [f["period"] for f in p["framers"]],
                  "orders": [f["order"] for f in p["framers"]], "events": len(ob["trace"])},
                 nontrivial=any(f["period"] for f in p["framers"]), kind="grid,tick=%s" % p["tick"])
        cases.append((kernel.coq_run_expr(p, None, maxticks), kernel.coq_obs(ob)))
        metas.append((p, ob))
    bad = ctx.coq_cases(kernel.COQ_HEADER, "(obs_eqb FOps)", cases, shard=12, name="grid")
    for i in bad[:3]:
        p, ob = metas[i]
        ctx.tie_broken("correspondence", "grid: model and implementation traces differ",
                       kernel.json_dumps({"flo": kernel.render_flo(p), "impl": ob}))
    rnd = kernel.correspond(ctx, ctx.n(25, 250), features={"aux": False, "slave": False, "condaux": False},
                            ticks=(0.125, 0.1, 0.05, 0.3), maxticks=maxticks, label="periods")
    ctx.extra["mismatches"] = ctx.extra.get("mismatches", 0) + len(bad)

    def search():
        for p, ob in metas:
            why = sked_statement(p, ob)
            if why is None and not any(pa for f in p["framers"] for fr in f["frames"] for pa in fr["preacts"]):
                why = period_statement(p, ob, maxticks)
            if why is None:
                why = replay_statement(p, ob)
            if why:
                return {"key": "sked:" + why.split(" ")[0], "flo": kernel.render_flo(p), "why": why,
                        "impl_trace": ob["trace"][:80], "contradicts": "C02.Props"}
        for p, ca, ob, _ in rnd:
            if "error" in ob:
                continue
            why = sked_statement(p, ob)
            if why:
                return {"key": "sked:" + why.split(" ")[0], "flo": kernel.render_flo(p), "why": why,
                        "impl_trace": ob["trace"][:80], "contradicts": "C02.Props"}
        return None

    ctx.settle(search)
