"""
C38 translator (fail-closed): extracts from ioflo/aio/proto/exchanging.py, class Exchange,
method __init__ :
  * the parameter list,
  * for `self.timeout = A if B is not None else self.C` and the same statement assigning
    `self.redoTimeout` : the names A, B, C,
  * checks that self.timer / self.redoTimer are StoreTimer(stack.stamper, duration=self.timeout /
    self.redoTimeout) and that process() has the two guarded tests the hand model describes.
Anything of another shape raises TranslateError.  Output: coq/gen/C38_Ctor.v
"""
import ast
import os


class TranslateError(Exception):
    pass


def _need(cond, what):
    if not cond:
        raise TranslateError(what)


def _self_attr(node, name=None):
    ok = (isinstance(node, ast.Attribute) and isinstance(node.value, ast.Name) and node.value.id == "self")
    return ok and (name is None or node.attr == name)


def _assign_to_self(fn, attr):
    found = [st for st in fn.body if isinstance(st, ast.Assign) and len(st.targets) == 1
             and _self_attr(st.targets[0], attr)]
    _need(len(found) == 1, "expected exactly one top-level assignment to self.%s in __init__" % attr)
    return found[0]


def _ifexp_src(st, attr):
    v = st.value
    _need(isinstance(v, ast.IfExp), "self.%s is not assigned a conditional expression" % attr)
    t = v.test
    _need(isinstance(t, ast.Compare) and isinstance(t.left, ast.Name) and len(t.ops) == 1
          and isinstance(t.ops[0], ast.IsNot) and len(t.comparators) == 1
          and isinstance(t.comparators[0], ast.Constant) and t.comparators[0].value is None,
          "self.%s: test is not `NAME is not None`" % attr)
    _need(isinstance(v.body, ast.Name), "self.%s: value is not a plain name" % attr)
    _need(_self_attr(v.orelse), "self.%s: default is not self.ATTR" % attr)
    return v.body.id, t.left.id, v.orelse.attr


def _timer_check(st, attr, durattr):
    v = st.value
    _need(isinstance(v, ast.Call) and isinstance(v.func, ast.Name) and v.func.id == "StoreTimer",
          "self.%s is not StoreTimer(...)" % attr)
    _need(len(v.args) == 1 and isinstance(v.args[0], ast.Attribute) and v.args[0].attr == "stamper"
          and isinstance(v.args[0].value, ast.Name) and v.args[0].value.id == "stack",
          "self.%s: first argument is not stack.stamper" % attr)
    _need(len(v.keywords) == 1 and v.keywords[0].arg == "duration" and _self_attr(v.keywords[0].value, durattr),
          "self.%s: duration is not self.%s" % (attr, durattr))


def _process_check(cls):
    fns = [n for n in cls.body if isinstance(n, ast.FunctionDef) and n.name == "process"]
    _need(len(fns) == 1, "no process method")
    body = [st for st in fns[0].body if not (isinstance(st, ast.Expr) and isinstance(st.value, ast.Constant))]
    _need(len(body) == 2 and all(isinstance(st, ast.If) for st in body), "process is not two if-statements")

    def guard(st, vattr, tattr):
        t = st.test
        _need(isinstance(t, ast.BoolOp) and isinstance(t.op, ast.And) and len(t.values) == 2,
              "process guard is not `a and b`")
        a, b = t.values
        _need(isinstance(a, ast.Compare) and _self_attr(a.left, vattr) and len(a.ops) == 1
              and isinstance(a.ops[0], ast.Gt) and isinstance(a.comparators[0], ast.Constant)
              and a.comparators[0].value == 0.0, "process guard: not self.%s > 0.0" % vattr)
        _need(isinstance(b, ast.Attribute) and b.attr == "expired" and _self_attr(b.value, tattr),
              "process guard: not self.%s.expired" % tattr)
        _need(not st.orelse, "process if has an else")
    guard(body[0], "timeout", "timer")
    guard(body[1], "redoTimeout", "redoTimer")
    _need(isinstance(body[0].body[-1], ast.Return), "timeout branch does not return")
    calls0 = [n.func.attr for n in ast.walk(body[0]) if isinstance(n, ast.Call) and _self_attr(n.func)]
    _need(calls0 == ["fail"], "timeout branch does not just call self.fail(): %r" % calls0)
    calls1 = [ast.unparse(n.func) for n in ast.walk(body[1]) if isinstance(n, ast.Call)
              and isinstance(n.func, ast.Attribute) and ast.unparse(n.func).startswith("self.")]
    _need(calls1 == ["self.redoTimer.restart", "self.send"], "redo branch calls %r" % calls1)


def translate(repo):
    path = os.path.join(repo, "ioflo", "aio", "proto", "exchanging.py")
    tree = ast.parse(open(path).read())
    cls = [n for n in tree.body if isinstance(n, ast.ClassDef) and n.name == "Exchange"]
    _need(len(cls) == 1, "class Exchange not found")
    cls = cls[0]
    fn = [n for n in cls.body if isinstance(n, ast.FunctionDef) and n.name == "__init__"]
    _need(len(fn) == 1, "Exchange.__init__ not found")
    fn = fn[0]
    a = fn.args
    _need(not a.vararg and not a.kwarg and not a.kwonlyargs and not a.posonlyargs,
          "unsupported parameter kinds in Exchange.__init__")
    params = [x.arg for x in a.args]
    tsrc = _ifexp_src(_assign_to_self(fn, "timeout"), "timeout")
    rsrc = _ifexp_src(_assign_to_self(fn, "redoTimeout"), "redoTimeout")
    _timer_check(_assign_to_self(fn, "timer"), "timer", "timeout")
    _timer_check(_assign_to_self(fn, "redoTimer"), "redoTimer", "redoTimeout")
    _process_check(cls)
    defaults = {}
    for st in cls.body:
        if isinstance(st, ast.Assign) and len(st.targets) == 1 and isinstance(st.targets[0], ast.Name) \
                and isinstance(st.value, ast.Constant) and isinstance(st.value.value, (int, float)):
            defaults[st.targets[0].id] = st.value.value
    _need(tsrc[2] in defaults and rsrc[2] in defaults, "class defaults %s/%s not numeric constants" % (tsrc[2], rsrc[2]))

    def s(x):
        _need(x.isidentifier(), "bad identifier %r" % x)
        return '"%s"' % x

    def rec(t):
        return "{| a_val := %s; a_test := %s; a_default := %s |}" % (s(t[0]), s(t[1]), s(t[2]))
    text = ("(* GENERATED by props/C38/translate.py from %s -- do not edit *)\n"
            "From Coq Require Import List String.\nImport ListNotations.\nRequire Import V.C38.Model.\n"
            "Open Scope string_scope.\n"
            "Definition gen_params : list string := [%s].\n"
            "Definition gen_timeout_src : asrc := %s.\n"
            "Definition gen_redo_src : asrc := %s.\n"
            % ("ioflo/aio/proto/exchanging.py", "; ".join(s(p) for p in params), rec(tsrc), rec(rsrc)))
    return text, {"params": params, "timeout": tsrc, "redo": rsrc, "defaults": defaults}
