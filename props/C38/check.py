"""
C38 -- Exchanges time out and retransmit on schedule.

Tie H (+ a small T part):
  coq/C38/Model.v   hand model of Exchange.__init__ timers / process / send / start / finish
                    (StoreTimer from coq/Lib/C42_StoreTimer.v), time = Q
  coq/gen/C38_Ctor.v GENERATED on every run by props/C38/translate.py (fail-closed) from
                    Exchange.__init__: parameter list + names read by the two timeout assignments;
                    theorem ctor_total is stated about these generated definitions
  correspondence  : op histories (advance stamp / process / send / start / finish) for every
                    (timeout, redo) on a grid incl. 0, None, negative, run on the real
                    Exchange/Exchanger/Exchangent with a stack double (real Stamper) and on the
                    model; dyadic times (k/8) so floats are exact.
  messages        : the model interns messages as Z tokens and does not look at them; "a .tx is present"
                    is `Some _` = Python `is not None`.  The harness maps tokens to message OBJECTS:
                    plain ints (truthy) or, in the falsy families (a directed one that runs FIRST in
                    every tier + every 3rd random history), present-but-falsy objects (packeting.Packet(),
                    b'', odict(), bytearray(), Packet(packed=b''), {}, '', deque(), [], 0); what the stack
                    double recorded is mapped back to tokens BY IDENTITY.
"""
import inspect
import itertools
from fractions import Fraction

from vlib import clist, cq, cbool, copt, cz

import translate

LEVEL = "proof"

GRID = [None, 0.0, 0.5, 1.0, 2.0, -1.0]


def _falsy_kinds():
    from collections import deque
    from ioflo.aio.proto import packeting
    from ioflo.aid.odicting import odict
    return [("packeting.Packet()", lambda: packeting.Packet()),
            ("b''", lambda: b""),
            ("odict()", lambda: odict()),
            ("bytearray()", lambda: bytearray()),
            ("packeting.Packet(packed=b'')", lambda: packeting.Packet(packed=b"")),
            ("dict()", lambda: dict()),
            ("''", lambda: ""),
            ("deque()", lambda: deque()),
            ("[]", lambda: []),
            ("0", lambda: 0)]


N_FALSY = 10


class Msgs(object):
    """token (int, what the Coq model sees) <-> message object handed to the implementation.
    rot None: the token itself (a truthy int, or whatever int the history names).
    rot k   : every token of the history gets its own PRESENT BUT FALSY object, kinds taken in order of first
              use from the falsy list rotated by k (each kind at most once per history, so mapping the
              objects recorded by the stack double back to tokens by identity is unambiguous even for
              singletons like b'' or 0)."""
    def __init__(self, rot=None):
        self.rot = rot
        self.assigned = []      # (token, kind name, object)
        self.kinds = _falsy_kinds() if rot is not None else None

    def obj(self, tok):
        if tok is None or self.rot is None:
            return tok
        for t, _, o in self.assigned:
            if t == tok:
                return o
        if len(self.assigned) >= len(self.kinds):
            raise RuntimeError("C38 harness: more message tokens in one history than falsy kinds")
        name, mk = self.kinds[(self.rot + len(self.assigned)) % len(self.kinds)]
        o = mk()
        if o is None or bool(o):
            raise RuntimeError("C38 harness: %s is not a present-but-falsy message" % name)
        self.assigned.append((tok, name, o))
        return o

    def tok(self, o):
        if self.rot is None:
            return o if isinstance(o, int) and not isinstance(o, bool) else -999
        for t, _, x in self.assigned:
            if x is o:
                return t
        return -999             # an object the history never handed to the exchange

    def describe(self):
        return None if self.rot is None else dict((str(t), n) for t, n, _ in self.assigned)


class StackDouble(object):
    def __init__(self, stamp0):
        from ioflo.aid.timing import Stamper
        self.stamper = Stamper(stamp=stamp0)
        self.name = "stackdouble"
        self.sent = []

    def transmit(self, pkt, ha=None):
        self.sent.append(pkt)

    def message(self, msg, remote=None):
        self.sent.append(msg)


class DeviceDouble(object):
    name = "dev"
    ha = ("127.0.0.1", 1)


def redo_param():
    """the constructor's redo-timeout parameter as actually spelled in the signature"""
    from ioflo.aio.proto import exchanging
    ps = [p for p in inspect.signature(exchanging.Exchange.__init__).parameters if p.lower().startswith("redotim")]
    if len(ps) != 1:
        raise RuntimeError("cannot identify the redo timeout parameter of Exchange.__init__: %r" % ps)
    return ps[0]


def make(cls, stamp0, timeout, redo, tx):
    from ioflo.aio.proto import exchanging
    stack = StackDouble(stamp0)
    kw = {}
    if timeout is not None:
        kw["timeout"] = timeout
    if redo is not None:
        kw[redo_param()] = redo
    if tx is not None:
        kw["tx"] = tx
    ex = getattr(exchanging, cls)(stack=stack, device=DeviceDouble(), uid="u", **kw)
    return stack, ex


def run_impl(cls, stamp0, timeout, redo, tx, ops, rot=None):
    """returns (obs list, final timer fields) or ('ctor-error', class name).  Messages in tx/ops are tokens;
    the implementation gets Msgs(rot).obj(token), the observation lists tokens again."""
    msgs = Msgs(rot)
    try:
        stack, ex = make(cls, stamp0, timeout, redo, msgs.obj(tx))
    except Exception as e:
        return ("ctor-error", type(e).__name__)
    obs = []
    for op in ops:
        n0 = len(stack.sent)
        err = False
        try:
            if op[0] == "adv":
                stack.stamper.advance(op[1])
            elif op[0] == "proc":
                ex.process()
            elif op[0] == "send":
                ex.send(msgs.obj(op[1]))
            elif op[0] == "transmit":
                ex.transmit(msgs.obj(op[1]))
            elif op[0] == "message":
                ex.message(msgs.obj(op[1]))
            elif op[0] == "start":
                ex.start(msgs.obj(op[1]))
            elif op[0] == "finish":
                ex.finish()
        except ValueError:
            err = True
        obs.append(([msgs.tok(m) for m in stack.sent[n0:]], bool(ex.done), bool(ex.failed), err))
    fin = [Fraction(ex.timer.start), Fraction(ex.timer.stop), Fraction(ex.redoTimer.start), Fraction(ex.redoTimer.stop)]
    return obs, fin


def drive_impl(cls, stamp0, timeout, redo, msg, sched):
    """the property's driver on the implementation: start(msg); after every advance process while
    not done.  returns (failed, done, [(stamp, msg) retransmissions], final stamp)"""
    stack, ex = make(cls, stamp0, timeout, redo, None)
    ex.start(msg)
    base = len(stack.sent)
    log = []
    for d in sched:
        stack.stamper.advance(d)
        if not ex.done:
            n0 = len(stack.sent)
            ex.process()
            for m in stack.sent[n0:]:
                log.append((Fraction(stack.stamper.stamp), m))
    return bool(ex.failed), bool(ex.done), log, Fraction(stack.stamper.stamp), base


def prop_check(cls, stamp0, timeout, redo, sched):
    """property statement, executable, implementation alone.  None or a description."""
    defaults = {"Exchange": (2.0, 0.5), "Exchanger": (2.0, 0.5), "Exchangent": (0.5, 0.1)}[cls]
    try:
        failed, done, log, sf, base = drive_impl(cls, stamp0, timeout, redo, 7, sched)
    except Exception as e:
        return "%s: %s (creating/driving an exchange with timeout=%r redo=%r)" % (type(e).__name__, e, timeout, redo)
    T = Fraction(timeout if timeout is not None else defaults[0])
    R = Fraction(redo if redo is not None else defaults[1])
    s = Fraction(stamp0)
    # reference: walk the schedule
    exp_log, exp_failed, last = [], False, s
    for d in sched:
        s += Fraction(d)
        if exp_failed:
            continue
        if T > 0 and s >= Fraction(stamp0) + T:
            exp_failed = True
            continue
        if R > 0 and s >= last + R:
            exp_log.append((s, 7))
            last = s
    if T <= 0 and failed:
        return "timeout %s <= 0 but the exchange failed" % T
    if failed != exp_failed:
        return "failed=%r but timeout %s elapsed first=%r" % (failed, T, exp_failed)
    if log != exp_log:
        return "retransmissions %r, expected %r" % (log, exp_log)
    return None


def lifecycle_messages(items, rot):
    """token -> kind name of the falsy objects a lifecycle uses (None for plain int messages)"""
    if rot is None:
        return None
    msgs = Msgs(rot)
    for it in items:
        if it == "S":
            msgs.obj(7)
        elif isinstance(it, tuple):
            msgs.obj(it[1])
    return msgs.describe()


def lifecycle_check(cls, stamp0, timeout, redo, items, rot=None):
    """Executable statement over a whole lifecycle, implementation alone.  items: a number d = advance the
    stamp by d and (the driver) process the exchange if it is started and not done; "S" = start(7)
    (again).  Statement: a started, unfinished exchange fails exactly at the first processing stamp at
    which its timeout (> 0) has elapsed SINCE IT WAS LAST STARTED (never for a timeout <= 0), and
    otherwise retransmits its message exactly when the redo interval (> 0) has elapsed since the last
    (re)transmission/start.  The message is whatever object was handed over (rot: present-but-falsy objects,
    see Msgs; identity is compared).  Returns None or a description."""
    msgs = Msgs(rot)
    why = _lifecycle_check(cls, stamp0, timeout, redo, items, msgs)
    if why and rot is not None:
        why += "  [messages are present (not None) but falsy objects: %s]" % (
            ", ".join("%s = %s" % (t, n) for t, n, _ in msgs.assigned))
    return why


def _lifecycle_check(cls, stamp0, timeout, redo, items, msgs):
    defaults = {"Exchange": (2.0, 0.5), "Exchanger": (2.0, 0.5), "Exchangent": (0.5, 0.1)}[cls]
    T = Fraction(timeout if timeout is not None else defaults[0])
    R = Fraction(redo if redo is not None else defaults[1])
    try:
        stack, ex = make(cls, stamp0, timeout, redo, None)
    except Exception as e:
        return "%s: %s (creating an exchange with timeout=%r redo=%r)" % (type(e).__name__, e, timeout, redo)
    s = Fraction(stamp0)
    started = ref_done = ref_failed = False
    last_start = last_redo = s
    latest = None
    for i, it in enumerate(items):
        try:
            if it == "S":
                ex.start(msgs.obj(7))
                started, ref_failed = True, False
                ref_done = (cls == "Exchangent")     # Exchangent.start responds and finishes at once
                last_start = last_redo = s
                latest = 7
            elif isinstance(it, tuple):
                # follow-up message through one of the sending entry points: goes on the wire now and
                # becomes the exchange's latest message (what a redo must retransmit)
                n0 = len(stack.sent)
                getattr(ex, {"X": "send", "T": "transmit", "M": "message"}[it[0]])(msgs.obj(it[1]))
                latest = it[1]
                onwire = [msgs.tok(m) for m in stack.sent[n0:]]
                if onwire != [it[1]]:
                    return "item %d %r: put %r on the wire, expected [%r]" % (i, it, onwire, it[1])
            else:
                stack.stamper.advance(it)
                s += Fraction(it)
                n0 = len(stack.sent)
                if started and not ex.done:
                    ex.process()
                got = [msgs.tok(m) for m in stack.sent[n0:]]
                want = []
                if started and not ref_done:
                    if T > 0 and s >= last_start + T:
                        ref_failed = ref_done = True
                    elif R > 0 and s >= last_redo + R:
                        want, last_redo = [latest], s
                if got != want:
                    return ("item %d: at stamp %s retransmitted %r, expected %r = the most recently transmitted "
                            "message (redo timer last restarted at %s, redo %s)" % (i, s, got, want, last_redo, R))
        except Exception as e:
            return "%s: %s at item %d %r" % (type(e).__name__, e, i, it)
        if started and bool(ex.failed) != ref_failed:
            return ("item %d %r: at stamp %s failed=%r, but timeout %s since last start at %s %s elapsed"
                    % (i, it, s, bool(ex.failed), T, last_start, "has" if ref_failed else "has not"))
        if started and T <= 0 and ex.failed:
            return "timeout %s <= 0 but the exchange failed" % T
    return None


# --------------------------------------------------------------------------- Coq rendering
def cqf(x):
    return cq(Fraction(x))


def c_op(op):
    if op[0] == "adv":
        return "Adv %s" % cqf(op[1])
    if op[0] == "proc":
        return "Proc"
    if op[0] == "send":
        return "Send %s" % copt(op[1], cz)
    if op[0] == "transmit":
        return "Transmit %s" % copt(op[1], cz)
    if op[0] == "message":
        return "Message %s" % copt(op[1], cz)
    if op[0] == "start":
        return "Start %s" % copt(op[1], cz)
    return "Finish"


def c_obs(o):
    return "(%s, %s, %s, %s)" % (clist([cz(m) for m in o[0]], "Z"), cbool(o[1]), cbool(o[2]), cbool(o[3]))


HEADER = """From Coq Require Import List ZArith QArith Bool.
Import ListNotations.
Require Import V.Lib.C42_StoreTimer V.C38.Model.
Open Scope Q_scope.
Fixpoint zl_eqb (a b : list Z) : bool := match a, b with
  | [], [] => true | x :: a', y :: b' => Z.eqb x y && zl_eqb a' b' | _, _ => false end.
Definition obs_eqb (a b : obs) : bool :=
  let '(s1, d1, f1, e1) := a in let '(s2, d2, f2, e2) := b in
  zl_eqb s1 s2 && Bool.eqb d1 d2 && Bool.eqb f1 f2 && Bool.eqb e1 e2.
Fixpoint ol_eqb (a b : list obs) : bool := match a, b with
  | [], [] => true | x :: a', y :: b' => obs_eqb x y && ol_eqb a' b' | _, _ => false end.
Fixpoint ql_eqb (a b : list Q) : bool := match a, b with
  | [], [] => true | x :: a', y :: b' => Qeq_bool x y && ql_eqb a' b' | _, _ => false end.
Definition res_eqb (a b : list obs * list Q) : bool := ol_eqb (fst a) (fst b) && ql_eqb (snd a) (snd b).
"""


def dy(rng, lo, hi):
    return rng.randint(int(lo * 8), int(hi * 8)) / 8.0


def gen(ctx):
    """regenerate coq/gen/C38_Ctor.v from the implementation under test (fail-closed)"""
    try:
        text, info = translate.translate(ctx.repo)
    except translate.TranslateError as e:
        ctx.tie_broken("translator", "props/C38/translate.py", str(e))
        # keep the build well-defined: a description that cannot satisfy ctor_total
        text = ("From Coq Require Import List String.\nImport ListNotations.\nRequire Import V.C38.Model.\n"
                "Open Scope string_scope.\nDefinition gen_params : list string := [].\n"
                "Definition gen_timeout_src : asrc := {| a_val := \"?\"; a_test := \"?\"; a_default := \"?\" |}.\n"
                "Definition gen_redo_src : asrc := gen_timeout_src.\n")
        info = None
    ctx.write_gen("C38_Ctor.v", text)
    return info


def histories(ctx):
    """yield (cls, stamp0, timeout, redo, tx, ops, label[, rot]); messages are tokens, rot selects the
    present-but-falsy objects standing for them (see Msgs), absent = plain ints"""
    classes = {"Exchange": (2.0, 0.5), "Exchanger": (2.0, 0.5), "Exchangent": (0.5, 0.1)}
    # 0. DIRECTED, FIRST, EVERY TIER: the exchange's message is present (not None) but falsy -- every falsy
    #    kind as the started/constructed .tx and as a follow-up through every sending entry point
    steps8 = []
    for i in range(8):
        steps8 += [("adv", 0.25), ("proc",)]
    for rot in range(N_FALSY):
        for t, r in [(2.0, 0.5), (0.0, 0.25), (1.0, 0.25), (None, None), (0.5, 1.0)]:
            yield ("Exchanger", 0.0, t, r, None, [("start", 7)] + steps8 + steps8[:8], "falsy-message", rot)
            yield ("Exchanger", 1.0, t, r, 5, [("adv", 0.5), ("start", None)] + steps8, "falsy-message", rot)
            yield ("Exchange", 1.5, t, r, 5, list(steps8), "falsy-message", rot)
            yield ("Exchangent", 0.0, t, r, 5, list(steps8), "falsy-message", rot)
        for ep in ("send", "transmit", "message"):
            yield ("Exchanger", 0.0, 0.0, 0.5, None,
                   [("start", 7), ("adv", 0.125), (ep, 21)] + steps8[:8] + [(ep, 22)] + steps8[:8] + [(ep, None)]
                   + steps8[:6], "falsy-message", rot)
            yield ("Exchange", 0.0, 2.0, 0.25, None, [(ep, None), (ep, 21)] + steps8[:6] + [(ep, None)] + steps8[:4],
                   "falsy-message", rot)
    # 1. grid of (timeout, redo) x schedules with constant small steps, processed each step
    for cls in ("Exchanger", "Exchange", "Exchangent"):
        for t, r in itertools.product(GRID, GRID):
            for step in (0.25, 0.375, 1.0):
                ops = []
                if cls == "Exchanger":
                    ops.append(("start", 7))
                n = ctx.n(12, 24)
                for i in range(n):
                    ops.append(("adv", step))
                    ops.append(("proc",))
                yield (cls, 0.0 if cls != "Exchange" else 1.5, t, r, 5 if cls != "Exchanger" else None, ops, "grid")
    # 1b. Exchanger lifecycles: stamp advances between construction and start; started again after
    #     a failure / long after creation (both timers must be measured from the LAST start)
    for t, r in itertools.product(GRID, GRID):
        tail = []
        for i in range(ctx.n(10, 16)):
            tail += [("adv", 0.25), ("proc",)]
        yield ("Exchanger", 1.0, t, r, None, [("adv", 0.5), ("start", 7)] + tail, "lifecycle")
        yield ("Exchanger", 0.0, t, r, None, [("adv", 3.0), ("start", 7)] + tail, "lifecycle")
        mid = []
        for i in range(5):
            mid += [("adv", 0.5), ("proc",)]
        yield ("Exchanger", 0.0, t, r, None, [("start", 7)] + mid + [("start", 8)] + tail, "lifecycle")
        for ep in ("transmit", "send", "message"):
            yield ("Exchanger", 0.0, t, r, None,
                   [("start", 7), ("adv", 0.125), (ep, 21)] + tail[:8] + [(ep, 22)] + tail[:8], "follow-up")
    # 2. small scope exhaustive op sequences
    alpha = [("adv", 0.5), ("adv", 1.0), ("proc",), ("send", 3), ("send", None), ("start", 4), ("start", None), ("finish",),
             ("transmit", 5), ("transmit", None), ("message", 6)]
    L = ctx.n(3, 4)
    for t, r in [(1.0, 0.5), (0.0, 0.5), (None, None), (1.0, 0.0)]:
        for n in range(0, L + 1):
            for ops in itertools.product(alpha, repeat=n):
                if n == 4 and ctx.rng.random() > 0.25:
                    continue
                if n == 3 and not ctx.thorough and ctx.rng.random() > 0.4:
                    continue      # quick: all sequences of length <= 2, a seeded 40% of length 3
                yield ("Exchanger", 0.0, t, r, None, list(ops), "small")
    # 3. random histories
    for k in range(ctx.n(300, 4000)):
        cls = ctx.rng.choice(["Exchanger", "Exchanger", "Exchange", "Exchangent"])
        t = ctx.rng.choice(GRID + [dy(ctx.rng, 0, 6)])
        r = ctx.rng.choice(GRID + [dy(ctx.rng, 0, 3)])
        tx = ctx.rng.choice([None, 1, 2])
        ops = []
        for _ in range(ctx.rng.randint(1, 30)):
            u = ctx.rng.random()
            if u < 0.4:
                ops.append(("adv", dy(ctx.rng, 0, 1.5)))
            elif u < 0.8:
                ops.append(("proc",))
            elif u < 0.88:
                ops.append((ctx.rng.choice(["send", "transmit", "message"]), ctx.rng.choice([None, 3, 4, 5])))
            elif u < 0.95 and cls == "Exchanger":
                ops.append(("start", ctx.rng.choice([None, 8, 9])))
            else:
                ops.append(("finish",))
        if k % 3 == 2:       # every 3rd random history with falsy message objects (no extra rng draws)
            yield (cls, dy(ctx.rng, 0, 4), t, r, tx, ops, "random-falsy", (k // 3) % N_FALSY)
        else:
            yield (cls, dy(ctx.rng, 0, 4), t, r, tx, ops, "random")


def decimal_histories(ctx):
    """Exchangent with its class defaults Timeout 0.5 / RedoTimeout 0.1 (0.1 is NOT a dyadic float).
    Times are decimal ticks (multiples of 1/200 s): the model computes with the exact rationals, the
    implementation with binary64.  A history is kept only if every comparison the code makes
    (stamp >= timer.stop, stamp >= redoTimer.stop) has an exact margin >= 1/1000 s, far above the
    accumulated float error (< 1e-12), so both must take the same branches.
    yields (timeout, redo, ops, exact_steps)"""
    steps = ["0.03", "0.07", "0.015", "0.045", "0.125", "0.15", "0.035", "0.26", "0.005"]
    n_ok = 0
    for _ in range(ctx.n(4000, 40000)):
        if n_ok >= ctx.n(250, 2500):
            break
        t = ctx.rng.choice([None, None, 0.0, 0.3, 0.7])
        r = ctx.rng.choice([None, None, None, 0.2])
        T = Fraction(str(t)) if t is not None else Fraction(1, 2)
        R = Fraction(str(r)) if r is not None else Fraction(1, 10)
        seq = [ctx.rng.choice(steps) for _ in range(ctx.rng.randint(1, 14))]
        st, last, ok = Fraction(0), Fraction(0), True
        for d in seq:
            st += Fraction(d)
            if T > 0 and abs(st - T) < Fraction(1, 1000):
                ok = False
            if R > 0:
                if abs(st - (last + R)) < Fraction(1, 1000):
                    ok = False
                if st >= last + R and not (T > 0 and st >= T):
                    last = st
        if not ok:
            continue
        n_ok += 1
        ops = []
        for d in seq:
            ops.append(("adv", float(d)))
            ops.append(("proc",))
        yield t, r, ops, seq


def lifecycles(ctx):
    """(cls, stamp0, timeout, redo, items) for the implementation-only search: plain start-then-schedule,
    stamp advancing between construction and start, and start again after a failure / long after creation.
    A 6th element rot = the messages are present-but-falsy objects (see Msgs); that family comes first."""
    for rot in range(N_FALSY):
        for t, r in [(2.0, 0.5), (0.0, 0.25), (1.0, 0.25), (None, None), (-1.0, 0.5)]:
            yield ("Exchanger", 0.0, t, r, ["S"] + [0.25] * 10, rot)
            yield ("Exchanger", 1.0, t, r, [0.5, "S", 0.375, 0.0, 0.625, 1.0, 0.125, 0.5], rot)
            yield ("Exchangent", 0.0, t, r, ["S"] + [0.25] * 4, rot)
        for ep in ("T", "X", "M"):
            yield ("Exchanger", 0.0, 0.0, 0.5, ["S", 0.125, (ep, 21), 0.25, 0.25, 0.25, 0.25, (ep, 22), 0.5, 0.5], rot)
    for cls in ("Exchanger", "Exchangent"):
        for t, r in itertools.product(GRID, GRID):
            yield (cls, 0.0, t, r, ["S"] + [0.25] * 12)
            yield (cls, 1.0, t, r, ["S", 0.375, 0.0, 0.625, 1.0, 0.125, 0.5, 2.0])
            yield (cls, 1.0, t, r, [0.5, "S"] + [0.25] * 10)                      # advance before start
            yield (cls, 0.0, t, r, [3.0, "S", 0.125, 0.25, 0.5, 1.0, 1.0])         # long after creation
            yield (cls, 0.0, t, r, ["S"] + [0.5] * 5 + ["S"] + [0.25] * 10)        # start again (after failure)
            yield (cls, 0.0, t, r, ["S", 0.25, "S", 0.25, 0.25, "S"] + [0.5] * 5)
            if cls == "Exchanger":   # follow-up messages through every entry point between redo expiries
                for ep in ("T", "X", "M"):
                    yield (cls, 0.0, t, r, ["S", 0.125, (ep, 21), 0.25, 0.25, 0.25, 0.25, (ep, 22), 0.5, 0.5, 0.5])
                yield (cls, 0.0, t, r, ["S", 0.125, ("T", 31), 0.5, ("X", 32), 0.5, ("M", 33), 0.5, ("T", 34), 0.5])
    for _ in range(300):
        items = []
        for _ in range(ctx.rng.randint(0, 16)):
            u = ctx.rng.random()
            if u < 0.15:
                items.append("S")
            elif u < 0.3 and "S" in items:
                items.append((ctx.rng.choice("TXM"), ctx.rng.randint(20, 29)))
            else:
                items.append(dy(ctx.rng, 0, 1.25))
        if ctx.rng.random() < 0.5:
            items.insert(0, "S")
        yield (ctx.rng.choice(["Exchanger", "Exchanger", "Exchangent"]), dy(ctx.rng, 0, 3),
               ctx.rng.choice(GRID), ctx.rng.choice(GRID), items)


def run(ctx):
    ctx.rule = ("histories = Exchange/Exchanger/Exchangent constructed with every (timeout, redo) of the grid "
                "{None,0,0.5,1,2,-1}^2 (+ random dyadics), then ops advance/process/send/start/finish; messages are "
                "tokens standing for plain ints or (directed family run first in every tier + every 3rd random history) "
                "for present-but-falsy objects (Packet(), b'', odict(), bytearray(), {}, '', deque(), [], 0) mapped back "
                "by identity; run on "
                "the real classes with a stack double (real Stamper) and on the Coq model; compared per op "
                "(messages queued on the stack, done, failed, ValueError) and on the final timer fields; "
                "non-trivial = at least one process call after an advance")
    ctx.assumptions = [
        "stack double: .stamper is a real ioflo Stamper, transmit()/message() record the packet; device double has .name/.ha "
        "(Exchange.process formats self.device.name, so device=None would raise AttributeError: outside the statement)",
        "dyadic times (k/8): binary64 arithmetic exact = Q.  Exchangent's class default redo 0.1 is not dyadic: "
        "it is covered by decimal-tick histories (steps multiples of 1/200 s, model exact in Q, every comparison "
        "margin >= 1/1000 s checked with exact rationals in the harness, discrete observations compared)",
        "the driver of the property (who calls process) is the harness: after every stamp advance, while not done",
    ]
    info = gen(ctx)
    ctx.coq_build("C38/Props.v")
    if info is not None:
        ctx.extra["ctor"] = {"params": info["params"], "timeout_src": info["timeout"], "redo_src": info["redo"]}

    classes = {"Exchange": (2.0, 0.5), "Exchanger": (2.0, 0.5), "Exchangent": (0.5, 0.1)}
    cases, metas = [], []
    ctor_errors = []
    n_falsy = n_falsy_redo = 0
    for h in histories(ctx):
        cls, s0, t, r, tx, ops, label = h[:7]
        rot = h[7] if len(h) > 7 else None
        if cls == "Exchangent" and r is None:
            continue   # its default RedoTimeout 0.1 is not dyadic: float rounding would differ from Q
        res = run_impl(cls, s0, t, r, tx, ops, rot)
        nt = any(a[0] == "adv" and b[0] == "proc" for a, b in zip(ops, ops[1:]))
        cj = {"cls": cls, "stamp0": s0, "timeout": t, "redo": r, "tx": tx, "ops": ops}
        if rot is not None:
            cj["falsy_messages_rot"] = rot
        ctx.case(cj, nontrivial=nt, kind="%s/%s" % (cls, label))
        if res[0] == "ctor-error":
            ctor_errors.append((cls, s0, t, r, tx, res[1]))
            continue
        obs, fin = res
        if rot is not None:
            n_falsy += 1
            n_falsy_redo += sum(len(o[0]) for o, p in zip(obs, ops) if p[0] == "proc")
        dt, dr = classes[cls]
        cases.append(("x_run %s %s %s %s %s %s %s" % (cqf(dt), cqf(dr), cqf(s0), copt(t, cqf), copt(r, cqf),
                                                     copt(tx, cz), clist([c_op(o) for o in ops], "op")),
                      "(%s, %s)" % (clist([c_obs(o) for o in obs], "obs"), clist([cq(x) for x in fin], "Q"))))
        metas.append((cls, s0, t, r, tx, ops if rot is None else (ops, "falsy message objects, rotation %d" % rot),
                      obs, fin))
    for c in ctor_errors[:3]:
        ctx.tie_broken("correspondence", "C38 constructor",
                       "%s(timeout=%r, redo=%r) raised %s; the model constructs it" % (c[0], c[2], c[3], c[5]))
    bad = ctx.coq_cases(HEADER, "res_eqb", cases, shard=200)
    for i in bad[:5]:
        ctx.tie_broken("correspondence", "C38 model vs ioflo.aio.proto.exchanging",
                       "history=%r impl=%r" % (metas[i][:6], metas[i][6:]))
    # Exchangent class defaults (non-dyadic 0.1): decimal tick model, discrete observations only
    dcases, dmetas = [], []
    for t, r, ops, seq in decimal_histories(ctx):
        res = run_impl("Exchangent", 0.0, t, r, 5, ops)
        ctx.case({"cls": "Exchangent", "timeout": t, "redo": r, "steps": seq}, nontrivial=True,
                 kind="Exchangent/decimal-defaults")
        if res[0] == "ctor-error":
            ctx.tie_broken("correspondence", "C38 constructor", "Exchangent(timeout=%r, redo=%r) raised %s" % (t, r, res[1]))
            continue
        cops = []
        for o, d in zip(ops[0::2], seq):
            cops += ["Adv %s" % cq(Fraction(d)), "Proc"]
        cases_expr = ("fst (x_run (1#2) (1#10) 0 %s %s (Some 5%%Z) %s)"
                      % (copt(t, lambda v: cq(Fraction(str(v)))), copt(r, lambda v: cq(Fraction(str(v)))),
                         clist(cops, "op")))
        dcases.append((cases_expr, clist([c_obs(o) for o in res[0]], "obs")))
        dmetas.append((t, r, seq, res[0]))
    dbad = ctx.coq_cases(HEADER, "ol_eqb", dcases, shard=200, name="dcases")
    for i in dbad[:3]:
        ctx.tie_broken("correspondence", "C38 model vs Exchangent with class defaults (decimal ticks)",
                       "timeout=%r redo=%r steps=%r impl=%r" % dmetas[i])
    ctx.extra["mismatches"] = len(bad) + len(dbad)
    ctx.extra["decimal_default_histories"] = len(dcases)
    ctx.extra["decimal_retransmissions_seen"] = sum(len(o[0]) for m in dmetas for o in m[3])
    ctx.extra["decimal_failed_seen"] = sum(1 for m in dmetas if m[3] and m[3][-1][2])
    ctx.extra["ctor_errors"] = len(ctor_errors)
    ctx.extra["falsy_message_histories"] = n_falsy
    ctx.extra["falsy_message_retransmissions_seen"] = n_falsy_redo
    ctx.exhaustive = False

    def search():
        best = None
        for lc in lifecycles(ctx):
            cls, s0, t, r, items = lc[:5]
            rot = lc[5] if len(lc) > 5 else None
            why = lifecycle_check(cls, s0, t, r, items, rot)
            if why and (best is None or len(items) < len(best["lifecycle"])):
                best = {"class": cls, "stamp0": s0, "timeout": t, "redo_timeout": r, "lifecycle": items,
                        "falsy_messages_rot": rot,
                        "redo_parameter_name": redo_param(), "why": why,
                        "legend": "number = advance the stamp, then process() if started and not done; 'S' = start(7); "
                                  "('T'|'X'|'M', m) = transmit(m) | send(m) | message(m)",
                        "contradicts": "C38.Props ctor_total / lifetime_fails_iff_timeout_first / "
                                       "lifetime_redo_once_per_interval / lifetime_is_schedule_walk",
                        "key": "exchange-" + ("ctor" if "creating" in why else "schedule")}
                if not items:
                    break
        if best is not None:
            items = list(best["lifecycle"])     # greedy shrink
            i = 0
            while i < len(items):
                cand = items[:i] + items[i + 1:]
                if lifecycle_check(best["class"], best["stamp0"], best["timeout"], best["redo_timeout"], cand,
                                   best["falsy_messages_rot"]):
                    items = cand
                else:
                    i += 1
            best["lifecycle"] = items
            best["why"] = lifecycle_check(best["class"], best["stamp0"], best["timeout"], best["redo_timeout"], items,
                                          best["falsy_messages_rot"])
            best["messages"] = (lifecycle_messages(items, best["falsy_messages_rot"])
                                or "plain ints: start(7), follow-ups as written")
        return best

    ctx.settle(search)
