"""
C32 -- malformed HTTP input only affects its own connection.

Tie H: coq/Lib/C29_Http.v (parser machine with one [err] constructor per failure site) +
coq/C32/Model.v (class raised at each site, catch sets, outcome, multi-connection server).
  theorems       : coq/C32/Props.v  (all byte strings, all splits, all interleavings)
  static tie     : the `except` clauses of Parsent.parseMessage / Valet.serviceReqs /
                   Patron.serviceResponse and every `raise` in the parsing functions are read from
                   the source AST on every run and compared with Model.v (fail closed)
  correspondence : (1) byte-level mutations, site-targeted malformations and random bytes are fed to
                   the REAL Requestant / Respondent generators (random splits); outcome class, failure
                   site and unconsumed bytes are compared with the model inside Coq;
                   (2) a REAL Valet (WSGI app + socket doubles) with 3 concurrent connections gets
                   interleaved pieces of good and malformed requests; (3) a REAL Patron (connector
                   double) gets malformed responses.
"""
import ast
import io
import os
import sys
from collections import deque

sys.path.insert(0, os.path.join(os.path.dirname(os.path.abspath(__file__)), "..", "C29"))
import httpharn as H  # noqa: E402
import httpgen as G  # noqa: E402

LEVEL = "proof"

PARSE_FUNCS = {
    "httping.py": ["findEol", "parseLine", "parseLeader", "parseChunk", "parseStatusLine", "parseRequestLine",
                   "Parsent.parseHead", "Parsent.parseBody", "Parsent.parseMessage", "Parsent.parse"],
    "serving.py": ["Requestant.parseHead", "Requestant.parseBody", "Requestant.checkPersisted"],
    "clienting.py": ["Respondent.parseHead", "Respondent.parseBody", "Respondent.checkPersisted"],
}
CATCHERS = {"httping.py": ["Parsent.parseMessage"], "serving.py": ["Valet.serviceReqs"],
            "clienting.py": ["Patron.serviceResponse"]}
# raise statements that cannot execute, with the reason (the only ones tolerated outside the family)
DEAD_RAISES = {
    ("serving.py", "Requestant.parseBody", "ValueError"):
        "guarded by `self.length and self.length < 0`; parseHead stores None for negative lengths "
        "(Coq: C32.Proofs.request_length_nonneg)",
    ("clienting.py", "Respondent.parseBody", "ValueError"):
        "guarded by `self.length and self.length < 0`; parseHead stores None for negative lengths "
        "(Coq: C32.Proofs.response_length_nonneg)",
}


def funcs_of(tree):
    out = {}
    for node in tree.body:
        if isinstance(node, ast.FunctionDef):
            out[node.name] = node
        elif isinstance(node, ast.ClassDef):
            for sub in node.body:
                if isinstance(sub, ast.FunctionDef):
                    out[node.name + "." + sub.name] = sub
    return out


def name_of(expr):
    if isinstance(expr, ast.Call):
        expr = expr.func
    if isinstance(expr, ast.Attribute):
        return expr.attr
    if isinstance(expr, ast.Name):
        return expr.id
    return None


def static_tie(ctx):
    """fail-closed reading of the raise sites and except clauses"""
    from ioflo.aio.http import httping
    base = os.path.join(ctx.repo, "ioflo", "aio", "http")
    problems = []
    for fname in PARSE_FUNCS:
        tree = ast.parse(open(os.path.join(base, fname)).read())
        fs = funcs_of(tree)
        for fn in PARSE_FUNCS[fname]:
            if fn not in fs:
                if fn == "findEol":
                    continue
                problems.append("%s: function %s not found" % (fname, fn))
                continue
            handlers = []   # (ExceptHandler node, caught names)
            for node in ast.walk(fs[fn]):
                if isinstance(node, ast.ExceptHandler):
                    handlers.append(node)
            for node in ast.walk(fs[fn]):
                if not isinstance(node, ast.Raise):
                    continue
                if node.exc is None:   # bare re-raise: class is what the enclosing handler caught
                    encl = [h for h in handlers if any(n is node for n in ast.walk(h))]
                    nm = name_of(encl[0].type) if encl and encl[0].type is not None else None
                else:
                    nm = name_of(node.exc)
                cls = getattr(httping, nm, None) if nm else None
                if isinstance(cls, type) and issubclass(cls, httping.HTTPException):
                    continue
                if (fname, fn, nm) in DEAD_RAISES:
                    continue
                problems.append("%s:%d %s raises %s which is not an HTTPException" % (fname, node.lineno, fn, nm))
        for fn in CATCHERS.get(fname, []):
            if fn not in fs:
                problems.append("%s: function %s not found" % (fname, fn))
                continue
            caught = sorted(set(name_of(h.type) for h in ast.walk(fs[fn])
                                if isinstance(h, ast.ExceptHandler) and h.type is not None))
            if caught != ["HTTPException"]:
                problems.append("%s %s catches %r, Model.v says [HTTPException]" % (fname, fn, caught))
    return problems


# ---------------------------------------------------------------- decode / parse guards
GUARD_FUNCS = {
    "httping.py": ["parseLine", "parseLeader", "parseChunk", "parseStatusLine", "parseRequestLine",
                   "EventSource.parseEvents", "EventSource.parse", "Parsent.parseMessage", "Parsent.parse",
                   "Parsent.dictify"],
    "serving.py": ["Requestant.parseHead", "Requestant.parseBody", "Requestant.checkPersisted",
                   "Valet.buildEnviron", "Valet.serviceReqs"],
    "clienting.py": ["Respondent.parseHead", "Respondent.parseBody", "Respondent.checkPersisted",
                     "Patron.serviceResponse"],
}
SAFE_CODECS = ("iso-8859-1", "latin-1", "latin1")


def raisers_in(node):
    """[(what, exception class, line)] for calls in node that can raise on arbitrary bytes / text"""
    import json as _json
    out = []
    for n in ast.walk(node):
        if not isinstance(n, ast.Call):
            continue
        f = n.func
        if isinstance(f, ast.Attribute) and f.attr == "decode":
            args = [a.value for a in n.args if isinstance(a, ast.Constant)]
            kws = dict((k.arg, k.value.value) for k in n.keywords if isinstance(k.value, ast.Constant))
            codec = (args[0] if args else kws.get("encoding", "utf-8"))
            errors = (args[1] if len(args) > 1 else kws.get("errors", "strict"))
            if str(codec).lower() in SAFE_CODECS or errors in ("replace", "ignore", "backslashreplace"):
                continue
            out.append((".decode(%r)" % codec, UnicodeDecodeError, n.lineno))
        elif isinstance(f, ast.Attribute) and f.attr == "loads" and name_of(f.value) == "json":
            out.append(("json.loads", _json.JSONDecodeError, n.lineno))
        elif isinstance(f, ast.Name) and f.id == "int" and n.args and not isinstance(n.args[0], ast.Constant):
            out.append(("int()", ValueError, n.lineno))
        elif isinstance(f, ast.Name) and f.id == "urlsplit":
            out.append(("urlsplit()", ValueError, n.lineno))
    for n in ast.walk(node):
        if isinstance(n, ast.Attribute) and n.attr == "port" and name_of(n.value) == "pathSplits":
            out.append((".port", ValueError, n.lineno))
    return out


def resolve_exc(expr):
    import builtins
    import json as _json
    from ioflo.aio.http import httping
    if expr is None:
        return [BaseException]
    if isinstance(expr, ast.Tuple):
        return [c for e in expr.elts for c in resolve_exc(e)]
    nm = name_of(expr)
    for ns in (httping, builtins, _json):
        c = getattr(ns, nm, None) if nm else None
        if isinstance(c, type) and issubclass(c, BaseException):
            return [c]
    return []


def decode_guard_scan(ctx):
    """every call in the parse / post-processing path that can raise on arbitrary input (strict
    .decode, json.loads, int(), urlsplit / .port) must sit in a try whose handlers catch the class it
    raises (and do not bare re-raise it)"""
    base = os.path.join(ctx.repo, "ioflo", "aio", "http")
    problems = []
    for fname, fns in GUARD_FUNCS.items():
        tree = ast.parse(open(os.path.join(base, fname)).read())
        fs = funcs_of(tree)
        for fn in fns:
            if fn not in fs:
                problems.append("%s: function %s not found" % (fname, fn))
                continue
            tries = [t for t in ast.walk(fs[fn]) if isinstance(t, ast.Try)]
            for what, exc, line in raisers_in(fs[fn]):
                guarded = False
                for t in tries:
                    inside = any(getattr(n, "lineno", None) == line and isinstance(n, ast.Call) or
                                 (isinstance(n, ast.Attribute) and getattr(n, "lineno", None) == line and n.attr == "port")
                                 for b in t.body for n in ast.walk(b))
                    if not inside:
                        continue
                    for h in t.handlers:
                        bare = any(isinstance(x, ast.Raise) and x.exc is None for x in ast.walk(h))
                        if not bare and any(issubclass(exc, c) for c in resolve_exc(h.type)):
                            guarded = True
                if not guarded:
                    problems.append("%s:%d %s: %s can raise %s, which no enclosing except clause catches"
                                    % (fname, line, fn, what, exc.__name__))
    return problems


# ---------------------------------------------------------------- Valet / Patron doubles
class Timer(object):
    expired = False

    def restart(self, *a, **k):
        pass


class IxDouble(object):
    def __init__(self, ca):
        self.ca = ca
        self.rxbs = bytearray()
        self.cutoff = False
        self.timeout = 5.0
        self.timer = Timer()
        self.txes = deque()
        self.sent = bytearray()
        self.closed = False

    def tx(self, data):
        self.txes.append(data)

    def serviceTxes(self):
        while self.txes:
            self.sent.extend(self.txes.popleft())

    def serviceReceives(self):
        pass

    def shutclose(self):
        self.closed = True

    def refresh(self):
        pass


def make_valet():
    from ioflo.aid.odicting import odict
    from ioflo.aio.http import serving
    from ioflo.aio.tcp import Server

    class Srv(Server):
        def __init__(self):
            self.ixes = odict()
            self.name = "double"
            self.eha = ("127.0.0.1", 8080)
            self.ha = ("0.0.0.0", 8080)

        def serviceConnects(self):
            pass

        def reopen(self):
            return True

    def app(environ, start_response):
        body = b"ok:" + environ["REQUEST_METHOD"].encode("latin-1")
        start_response("200 OK", [("Content-Type", "text/plain"), ("Content-Length", str(len(body)))])
        return [body]

    serving.console.reinit(verbosity=0)   # no "Parsed Request" chatter (harness process only)
    srv = Srv()
    return serving.Valet(app=app, servant=srv), srv


def follow_up_hits_c31_defect(msg):
    """A non-persistent request WITH A BODY that follows an answered request on the same connection is
    dropped by Valet.serviceReps as soon as its head is parsed (it looks at the new .persisted while
    the previous responder is still .ended) -- a keep-alive sequencing defect (C31's subject, reported),
    not a malformed-input one; such follow-ups are not generated here."""
    _, v = H.http_impl("req", [msg])
    return bool(v.get("headed") and not v.get("persisted") and (v.get("chunked") or (v.get("length") or 0) > 0))


def run_valet(nconn, sched, extra_passes=3):
    """sched: [(conn index, piece)].  returns per connection (responses, closed) + escape"""
    valet, srv = make_valet()
    ixs = []
    for i in range(nconn):
        ix = IxDouble(("10.0.0.%d" % (i + 1), 5000 + i))
        srv.ixes[ix.ca] = ix
        ixs.append(ix)
    esc = None
    err, sys.stderr = sys.stderr, io.StringIO()
    try:
        try:
            valet.serviceAll()
            for i, piece in sched:
                if not ixs[i].closed:
                    ixs[i].rxbs.extend(piece)
                valet.serviceAll()
            for _ in range(extra_passes):
                valet.serviceAll()
        except Exception as ex:
            esc = "%s: %s" % (type(ex).__name__, str(ex)[:120])
    finally:
        sys.stderr = err
    out = []
    for ix in ixs:
        sent = bytes(ix.sent)
        out.append({"responses": sent.count(b"HTTP/1.1 200 OK") + sent.count(b"HTTP/1.0 200 OK"),
                    "closed": ix.closed, "first": sent[:15].decode("latin-1"),
                    "body": sent.split(b"\r\n\r\n", 1)[1][:12].decode("latin-1") if b"\r\n\r\n" in sent else ""})
    return out, esc


def run_valet_tls(nconn, sched, extra_passes=6):
    """https Valet over a real ServerTls whose accepted-but-not-handshaked incomers (.cxes) are doubles.
    sched: [(conn, 'hs', 'want'|'done'|'fail') | (conn, 'bytes', piece)]"""
    import ssl
    from ioflo.aid.odicting import odict
    from ioflo.aio.http import serving
    from ioflo.aio.tcp import ServerTls

    class Cx(IxDouble):
        def __init__(self, ca):
            IxDouble.__init__(self, ca)
            self.script = deque()
            self.connected = False
            self.cs = object()

        def serviceHandshake(self):
            if self.cs is None:      # what the real IncomerTls does on a closed socket
                raise AttributeError("'NoneType' object has no attribute 'do_handshake'")
            if self.connected:
                return True
            r = self.script.popleft() if self.script else "want"
            if r == "fail":
                self.cs = None
                self.closed = True
                raise ssl.SSLError(1, "[SSL: HTTP_REQUEST] http request")
            if r == "done":
                self.connected = True
            return self.connected

    class Srv(ServerTls):
        def __init__(self):
            self.ixes, self.cxes, self.axes = odict(), odict(), deque()
            self.name, self.eha, self.ha = "double", ("127.0.0.1", 8443), ("0.0.0.0", 8443)

        def serviceAxes(self):
            pass

        def reopen(self):
            return True

    def app(environ, start_response):
        start_response("200 OK", [("Content-Type", "text/plain"), ("Content-Length", "2")])
        return [b"ok"]

    serving.console.reinit(verbosity=0)
    srv = Srv()
    valet = serving.Valet(app=app, servant=srv)
    cxs = []
    for i in range(nconn):
        cx = Cx(("10.0.1.%d" % (i + 1), 6000 + i))
        srv.cxes[cx.ca] = cx
        cxs.append(cx)
    esc = None
    err, sys.stderr = sys.stderr, io.StringIO()
    try:
        try:
            for i, kind, val in sched:
                cx = cxs[i]
                if kind == "hs":
                    if cx.ca in srv.cxes:
                        cx.script.append(val)
                elif cx.ca in srv.ixes and not cx.closed:
                    cx.rxbs.extend(val)
                valet.serviceAll()
            for _ in range(extra_passes):
                valet.serviceAll()
        except Exception as ex:
            esc = "%s: %s" % (type(ex).__name__, str(ex)[:120])
    finally:
        sys.stderr = err
    out = []
    for cx in cxs:
        sent = bytes(cx.sent)
        phase = 0 if cx.ca in srv.cxes else (1 if cx.connected else 2)
        out.append({"phase": phase, "responses": sent.count(b" 200 OK\r\n"), "closed": cx.closed})
    return out, esc


class ConnDouble(object):
    def __init__(self):
        self.ha = ("127.0.0.1", 8080)       # host / port are properties over .ha
        self.hostname = "127.0.0.1"
        self.rxbs = bytearray()
        self.txes = deque()
        self.cutoff = False
        self._accepted = True               # .connected is a property over .accepted
        self.reconnectable = False
        self.timeout = 0.0
        self.timer = Timer()
        self.name = "double"

    def tx(self, data):
        self.txes.append(data)

    def serviceTxes(self):
        self.txes.clear()

    def serviceReceives(self):
        pass

    def serviceConnect(self):
        pass


def run_patron(pieces, close, method="GET", dictable=None):
    from ioflo.aio.http import clienting
    from ioflo.aio.tcp import Client

    class Conn(ConnDouble, Client):
        def __init__(self):
            ConnDouble.__init__(self)

    conn = Conn()
    patron = clienting.Patron(connector=conn, hostname="127.0.0.1", port=8080, redirectable=False,
                              dictable=dictable)
    patron.request(method=method, path="/x")
    esc = None
    try:
        patron.serviceAll()
        for p in pieces:
            conn.rxbs.extend(p)
            patron.serviceAll()
        if close:
            conn.cutoff = True
            patron.serviceAll()
    except Exception as ex:
        esc = "%s: %s" % (type(ex).__name__, str(ex)[:120])
    rs = list(patron.responses)
    return {"responses": len(rs), "errored": bool(rs and rs[0]["errored"]),
            "error": rs[0]["error"] if rs else None, "escaped": esc,
            "data": repr(rs[0]["data"])[:60] if rs else None}


OUT = {"OMessage": 0, "ONeedMore": 1, "OFailed": 2, "OEscapes": 3}


def run(ctx):
    ctx.rule = ("(1) direct: byte-level mutations (replace/delete/insert/truncate/duplicate/swap, 1-3 per "
                "message) of generated well-formed requests and responses, 16 site-targeted malformations "
                "(chunk size, chunk terminator, header line, content-length, start line, url, header count "
                "and line length with lowered limits, trailers, extensions, 100-continue, truncation) and "
                "random bytes, each under a random split (+ close for responses); (2) Valet with 3 "
                "connections fed interleaved pieces of good / malformed requests; (3) Patron fed malformed "
                "responses.  non-trivial = the message is not accepted as is (failure, need-more or changed "
                "content); distinct by bytes+split")
    ctx.assumptions = [
        "socket / server / connector doubles: bytes are placed in the incomer's rxbs, sends are recorded",
        "model covers a connection up to its first outcome; keep-alive sequencing is C31's",
        "WSGI app double always answers 200 with a fixed-length body; Patron(redirectable=False)",
        "text/event-stream responses are only checked for 'nothing escapes Patron.serviceAll'",
    ]
    res = ctx.coq_build("C32/Props.v")
    problems = static_tie(ctx)
    for p in problems[:6]:
        ctx.tie_broken("translator", "raise sites / except clauses vs C32.Model", p)
    ctx.extra["static_raise_except_problems"] = problems
    gproblems = decode_guard_scan(ctx)
    for p in gproblems[:6]:
        ctx.tie_broken("translator", "decode / parse calls are guarded by a wide enough except clause", p)
    ctx.extra["static_decode_guard_problems"] = gproblems

    rng = ctx.rng
    cases, metas = [], []

    def add_direct(kind, data, label, close=False, headreq=False, maxline=None, maxhdrs=None):
        pieces = H.random_split(rng, data, 5)
        flat, view = H.http_impl(kind, pieces, headreq, close, maxline, maxhdrs)
        nontriv = flat[0] != 2
        ctx.case({"kind": kind, "pieces": [p.decode("latin-1") for p in pieces], "close": close, "obs": view},
                 nontrivial=nontriv, kind="direct/%s/%s" % (label, {0: "needmore", 1: "needmore", 2: "message"}.get(
                     flat[0], "escaped" if flat[0] == 200 else "failed-%d" % (flat[0] - 100))))
        cases.append((H.http_model_expr(kind, pieces, headreq, close,
                                        maxline if maxline is not None else 65536,
                                        maxhdrs if maxhdrs is not None else 100), H.zl(flat)))
        metas.append(("direct", kind, pieces, close, headreq, view))

    for _ in range(ctx.n(1200, 9000)):
        kind = rng.choice(["req", "resp"])
        m = G.gen_msg(rng, kind)
        add_direct(kind, G.mutate(rng, m.data), "mutated", close=(kind == "resp" and rng.random() < 0.5),
                   headreq=m.headreq)
    for _ in range(ctx.n(1000, 7000)):
        kind = rng.choice(["req", "resp"])
        data = G.targeted(rng, kind)
        small = rng.random() < 0.3
        add_direct(kind, data, "targeted", close=(kind == "resp" and rng.random() < 0.5),
                   maxline=rng.choice([8, 16, 30]) if small else None,
                   maxhdrs=rng.choice([2, 3, 4]) if small else None)
    bad = ctx.coq_cases(H.HEADER, "beq", cases, name="c32", shard=700)
    for i in bad[:5]:
        _, kind, pieces, close, headreq, view = metas[i]
        ctx.tie_broken("correspondence", "C32 model vs %s" % ("Requestant" if kind == "req" else "Respondent"),
                       "pieces=%r close=%r head=%r impl=%r" % (pieces, close, headreq, view))

    # (2) Valet with 3 keep-alive connections: each gets 1-3 successive / pipelined messages (good,
    #     good-but-not-persistent, malformed), cut into pieces and interleaved
    vcases, vmetas = [], []
    good = [b"GET / HTTP/1.1\r\nHost: a\r\n\r\n", b"POST /p HTTP/1.1\r\nContent-Length: 3\r\n\r\nabc",
            b"PUT /c HTTP/1.1\r\nTransfer-Encoding: chunked\r\n\r\n2\r\nhi\r\n0\r\n\r\n",
            b"GET /k HTTP/1.0\r\nConnection: Keep-Alive\r\n\r\n"]
    final = [b"GET /old HTTP/1.0\r\n\r\n", b"GET /bye HTTP/1.1\r\nConnection: close\r\n\r\n"]
    for _ in range(ctx.n(250, 1500)):
        msgs = []
        for j in range(3):
            seq = b""
            for _k in range(rng.choice([1, 1, 2, 3])):
                r = rng.random()
                if r < 0.5:
                    nxt = rng.choice(good)
                elif r < 0.62:
                    nxt = rng.choice(final)
                elif r < 0.85:
                    nxt = G.targeted(rng, "req")
                else:
                    nxt = G.mutate(rng, rng.choice(good))
                if seq and follow_up_hits_c31_defect(nxt):
                    nxt = b"BREW / HTTP/1.1\r\n\r\n"
                seq += nxt
            msgs.append(seq)
        queues = [H.random_split(rng, m, 5) if m else [] for m in msgs]
        sched = []
        while any(queues):
            j = rng.choice([k for k in range(3) if queues[k]])
            sched.append((j, queues[j].pop(0)))
        obs, esc = run_valet(3, sched, extra_passes=10)
        ctx.case({"sched": [(j, p.decode("latin-1")) for j, p in sched], "obs": obs, "escaped": esc},
                 nontrivial=any(o["closed"] for o in obs) or esc is not None,
                 kind="valet/" + ("escaped" if esc else "responses=%d,closed=%d" % (
                     min(sum(o["responses"] for o in obs), 6), sum(1 for o in obs if o["closed"]))))
        bad_urls = sorted(set(u for m in msgs for u in H.bad_urls(m)))
        expr = ("flat_map (fun k => [Z.of_nat (ka_responses k); if ka_closed k then 1 else 0]) "
                "(grun ka_conn bytes (ka_deliver (mkcfg 65536 100 %s)) %s [ka_init; ka_init; ka_init])"
                % (H.zll(bad_urls), "[" + ";".join("(%d%%nat, %s)" % (j, H.zl(p)) for j, p in sched) + "]"))
        flat = [9] * 6 if esc else sum(([o["responses"], 1 if o["closed"] else 0] for o in obs), [])
        vcases.append((expr, H.zl(flat)))
        vmetas.append((msgs, sched, obs, esc))
    vheader = H.HEADER.replace("Require Import V.Lib.C29_Http V.Lib.C29_HttpObs.",
                               "Require Import V.Lib.C29_Http V.Lib.C29_HttpObs V.C32.Model.")
    vbad = ctx.coq_cases(vheader, "beq", vcases, name="c32valet")
    for i in vbad[:3]:
        msgs, sched, obs, esc = vmetas[i]
        ctx.tie_broken("correspondence", "C32 keep-alive server model vs Valet.serviceAll",
                       "sched=%r impl=%r escaped=%r" % (sched, obs, esc))

    # (2b) https Valet: real ServerTls.serviceCxes / serviceConnects with incomer doubles whose
    #      handshake result is scripted (want / done / fail = shutclose + raise ssl.SSLError)
    tcases, tmetas = [], []
    for _ in range(ctx.n(150, 1200)):
        evs = []
        for j in range(3):
            es = [("hs", "want")] * rng.randint(0, 2)
            r = rng.random()
            es.append(("hs", "fail" if r < 0.35 else "done"))
            if rng.random() < 0.2:
                es.append(("hs", rng.choice(["fail", "done"])))
            for p in H.random_split(rng, rng.choice(good + final + [G.targeted(rng, "req")]), 3):
                es.append(("bytes", p))
            evs.append(es)
        sched = []
        while any(evs):
            j = rng.choice([k for k in range(3) if evs[k]])
            sched.append((j,) + evs[j].pop(0))
        obs, esc = run_valet_tls(3, sched)
        ctx.case({"sched": [(j, k, v if k == "hs" else v.decode("latin-1")) for j, k, v in sched], "obs": obs,
                  "escaped": esc}, nontrivial=True,
                 kind="valet-tls/" + ("escaped" if esc else "dropped=%d" % sum(1 for o in obs if o["phase"] == 2)))
        def cev(k, v):
            return ("TlsHandshake %s" % {"want": "HsWant", "done": "HsDone", "fail": "HsFail"}[v]) if k == "hs" \
                else "TlsBytes %s" % H.zl(v)
        bad_urls = sorted(set(u for j in range(3)
                              for u in H.bad_urls(b"".join(v for i, k, v in sched if i == j and k == "bytes"))))
        expr = ("flat_map (fun c => [match fst c with Handshaking => 0 | Established => 1 | Dropped => 2 end; "
                "Z.of_nat (ka_responses (snd c))]) (grun tls_conn tls_event (tls_deliver (mkcfg 65536 100 %s)) %s "
                "[(Handshaking, ka_init); (Handshaking, ka_init); (Handshaking, ka_init)])"
                % (H.zll(bad_urls), "[" + ";".join("(%d%%nat, %s)" % (j, cev(k, v)) for j, k, v in sched) + "]"))
        flat = [9] * 6 if esc else sum(([o["phase"], o["responses"]] for o in obs), [])
        tcases.append((expr, H.zl(flat)))
        tmetas.append((sched, obs, esc))
    tbad = ctx.coq_cases(vheader, "beq", tcases, name="c32tls")
    for i in tbad[:3]:
        sched, obs, esc = tmetas[i]
        ctx.tie_broken("correspondence", "C32 TLS server model vs Valet(https).serviceAll",
                       "sched=%r impl=%r escaped=%r" % (sched, obs, esc))

    # (3) Patron
    pcases, pmetas = [], []
    for _ in range(ctx.n(400, 2500)):
        r = rng.random()
        if r < 0.3:
            data = G.gen_msg(rng, "resp").data
        elif r < 0.7:
            data = G.targeted(rng, "resp")
        else:
            data = G.mutate(rng, G.gen_msg(rng, "resp").data)
        close = rng.random() < 0.5
        pieces = H.random_split(rng, data, 4)
        ob = run_patron(pieces, close)
        ctx.case({"pieces": [p.decode("latin-1") for p in pieces], "close": close, "obs": ob},
                 nontrivial=ob["errored"] or ob["responses"] == 0 or ob["escaped"] is not None,
                 kind="patron/" + ("escaped" if ob["escaped"] else "errored" if ob["errored"] else
                                   "response" if ob["responses"] else "needmore"))
        expr = ("[match outcome_of patron_catch (let k := http_feed_all (mkcfg 65536 100 []) (init_pst true false, []) %s "
                "in if %s then http_close (mkcfg 65536 100 []) k else k) with OMessage => 0 | ONeedMore => 1 "
                "| OFailed => 2 | OEscapes => 3 end]" % (H.zll(pieces), "true" if close else "false"))
        flat = [9] if ob["escaped"] else [2 if ob["errored"] else 0 if ob["responses"] else 1]
        pcases.append((expr, H.zl(flat)))
        pmetas.append((pieces, close, ob))
    # (3a) WELL-FRAMED responses with malformed CONTENT for every content type the client post-processes:
    #      application/json (any case, with charset parameter) or a dictable Patron -> Parsent.dictify
    #      (utf-8 decode + json.loads); bodies: valid json, ascii non-json, invalid utf-8, truncated
    #      multi-byte sequence, BOM, utf-16, empty
    def bad_content(r):
        k = r.randrange(9)
        if k == 0:
            return b'{"a": [1, 2, {"b": null}]}'
        if k == 1:
            return r.choice([b"{", b"[1,", b"nope", b'{"a": }', b"\x00", b"1 2"])
        if k == 2:
            return bytes(r.randrange(256) for _ in range(r.randint(1, 24)))
        if k == 3:
            return b'{"k": "' + r.choice([b"\xff", b"\xc3", b"\xe2\x82", b"\xf0\x9f\x98", b"\xc0\xaf", b"\xed\xa0\x80"]) + b'"}'
        if k == 4:
            return b"\xef\xbb\xbf" + b'{"a": 1}'
        if k == 5:
            return '{"a": "\u00e9"}'.encode(r.choice(["utf-16", "utf-16-le", "latin-1", "utf-32"]))
        if k == 6:
            return b""
        if k == 7:
            return G.mutate(r, b'{"name": "caf\xc3\xa9", "n": [1, 2, 3]}')
        return '{"s": "\u20ac\ud83d\ude00"}'.encode("utf-8", "surrogatepass")
    for _ in range(ctx.n(300, 2500)):
        body = bad_content(rng)
        ctype = rng.choice([b"application/json", b"Application/JSON", b"application/json; charset=utf-8",
                            b"application/json;charset=latin-1", b"text/plain", b"application/x-www-form-urlencoded",
                            b"multipart/form-data; boundary=x", b"application/octet-stream"])
        dictable = rng.random() < 0.3
        framing = rng.choice(["length", "chunked", "close"])
        head = b"HTTP/1.1 200 OK\r\nContent-Type: " + ctype + b"\r\n"
        if rng.random() < 0.2:
            head += b"Content-Encoding: " + rng.choice([b"gzip", b"deflate", b"br"]) + b"\r\n"
        if framing == "length":
            data = head + b"Content-Length: %d\r\n\r\n" % len(body) + body
        elif framing == "chunked":
            data = head + b"Transfer-Encoding: chunked\r\n\r\n" + (b"%x\r\n" % len(body) + body + b"\r\n" if body else b"") + b"0\r\n\r\n"
        else:
            data = head + b"\r\n" + body
        close = framing == "close"
        pieces = H.random_split(rng, data, 4)
        ob = run_patron(pieces, close, dictable=dictable)
        ctx.case({"pieces": [p.decode("latin-1") for p in pieces], "close": close, "dictable": dictable, "obs": ob},
                 nontrivial=True, kind="patron-content/%s/%s" % (
                     "escaped" if ob["escaped"] else "data" if ob["data"] not in (None, "None") else "nodata",
                     "json" if b"json" in ctype.lower() or dictable else "other"))
        expr = ("[match outcome_of patron_catch (let k := http_feed_all (mkcfg 65536 100 []) (init_pst true false, []) %s "
                "in if %s then http_close (mkcfg 65536 100 []) k else k) with OMessage => 0 | ONeedMore => 1 "
                "| OFailed => 2 | OEscapes => 3 end]" % (H.zll(pieces), "true" if close else "false"))
        flat = [9] if ob["escaped"] else [2 if ob["errored"] else 0 if ob["responses"] else 1]
        pcases.append((expr, H.zl(flat)))
        pmetas.append((pieces, close, ob))
    # (3b) text/event-stream responses with arbitrary (also non UTF-8) bytes: the finer outcome is
    # not compared (evented responses are not appended to .responses); the theorem's claim checked
    # here is only "never escapes"
    emetas = []
    for _ in range(ctx.n(250, 1500)):
        body = bytes(rng.choice(b"data: idevnr\r\n\n:0\xff\xfe\xc3\xa9{}[]\"1,") for _ in range(rng.randint(0, 40)))
        head = (b"HTTP/1.1 200 OK\r\nContent-Type: text/event-stream\r\n" +
                rng.choice([b"", b"Transfer-Encoding: chunked\r\n"]) + b"\r\n")
        if b"chunked" in head:
            body = b"%x\r\n" % len(body) + body + b"\r\n" if body else b"0\r\n\r\n"
        pieces = H.random_split(rng, head + body, 4)
        ob = run_patron(pieces, rng.random() < 0.5, dictable=rng.random() < 0.4)
        ctx.case({"pieces": [p.decode("latin-1") for p in pieces], "obs": ob}, nontrivial=True,
                 kind="patron-evented/" + ("escaped" if ob["escaped"] else "ok"))
        emetas.append((pieces, ob))
    eesc = [(p, o) for p, o in emetas if o["escaped"]]
    for pieces, ob in eesc[:2]:
        ctx.tie_broken("correspondence", "C32 client_records_error vs Patron on text/event-stream",
                       "pieces=%r impl=%r" % (pieces, ob))
        pmetas.append((pieces, False, ob))
    pbad = ctx.coq_cases(vheader, "beq", pcases, name="c32patron")
    for i in pbad[:3]:
        pieces, close, ob = pmetas[i]
        ctx.tie_broken("correspondence", "C32 client model vs Patron.serviceAll",
                       "pieces=%r close=%r impl=%r" % (pieces, close, ob))
    ctx.extra["mismatches"] = len(bad) + len(vbad) + len(tbad) + len(pbad)
    ctx.exhaustive = False

    def search():
        """implementation alone: nothing escapes a service loop / a parse; a well-formed request on
        another connection is answered exactly as when served alone"""
        best = None

        def consider(size, cand):
            nonlocal best
            if best is None or size < best[0]:
                best = (size, cand)

        for msgs, sched, obs, esc in vmetas:
            size = sum(len(p) for _, p in sched)
            if esc is not None:
                # shrink: the offending connection alone next to one good neighbour
                for j in range(3):
                    alone = [(0, good[0])] + [(1, p) for k, p in sched if k == j]
                    o2, e2 = run_valet(2, alone)
                    if e2 is not None:
                        consider(sum(len(p) for _, p in alone),
                                 {"key": "valet-escape", "server": "Valet.serviceAll, 2 connections",
                                  "receives": [(k, p.decode("latin-1")) for k, p in alone],
                                  "observed": "exception out of serviceAll: " + e2,
                                  "expected": "request failed, that connection closed, neighbour answered",
                                  "contradicts": "C32.Props.server_parse_total"})
                        break
                else:
                    consider(size, {"key": "valet-escape", "receives": [(k, p.decode("latin-1")) for k, p in sched],
                                    "observed": "exception out of serviceAll: " + esc,
                                    "expected": "no exception", "contradicts": "C32.Props.server_parse_total"})
                continue
            for j in range(3):
                own = [p for k, p in sched if k == j]
                _, dv = H.http_impl("req", own)
                if "failed" in dv and not (obs[j]["closed"] and obs[j]["responses"] == 0):
                    consider(size, {"key": "valet-failed-request-not-closed",
                                    "receives": [(k, p.decode("latin-1")) for k, p in sched], "connection": j,
                                    "observed": obs[j], "request_parse_alone": dv,
                                    "expected": "failed request: no response, connection closed",
                                    "contradicts": "C32.Props.server_parse_total (OFailed -> closeConnection)"})
                if msgs[j] in good:
                    o1, _ = run_valet(1, [(0, msgs[j])])
                    if (obs[j]["responses"], obs[j]["body"]) != (o1[0]["responses"], o1[0]["body"]):
                        consider(size, {"key": "valet-neighbour-disturbed",
                                        "receives": [(k, p.decode("latin-1")) for k, p in sched], "connection": j,
                                        "observed": obs[j], "expected_as_when_alone": o1[0],
                                        "contradicts": "C32.Props.conn_sees_only_its_own_receives"})
        for sched, obs, esc in tmetas:
            if esc is not None:
                # shrink: one connection whose handshake fails next to one that completes and sends a request
                small = [(0, "hs", "fail"), (1, "hs", "done"), (1, "bytes", good[0])]
                o2, e2 = run_valet_tls(2, small)
                use, uo, ue = (small, o2, e2) if e2 is not None else (sched, obs, esc)
                consider(sum(len(v) for _, k, v in use if k == "bytes"),
                         {"key": "valet-tls-handshake-wedge", "server": "Valet(scheme https) over ServerTls.serviceCxes",
                          "events": [(j, k, v if k == "hs" else v.decode("latin-1")) for j, k, v in use],
                          "observed": "exception out of serviceAll: " + ue, "connections": uo,
                          "expected": "failed handshake drops that connection only; the other one is answered",
                          "contradicts": "C32.Props.tls_other_conns_untouched / tls_failed_handshake_drops_only_itself"})
        for pieces, close, ob in pmetas:
            if ob["escaped"] is not None:
                consider(sum(len(p) for p in pieces),
                         {"key": "patron-escape", "client": "Patron.serviceAll",
                          "response_pieces": [p.decode("latin-1") for p in pieces], "close_after": close,
                          "observed": "exception out of serviceAll: " + ob["escaped"],
                          "expected": "response with errored=True appended to .responses",
                          "contradicts": "C32.Props.client_records_error"})
        for _, kind, pieces, close, headreq, view in metas:
            if "escaped" in view:
                consider(sum(len(p) for p in pieces) + 1000,
                         {"key": "parse-escape", "parser": "Requestant" if kind == "req" else "Respondent",
                          "pieces": [p.decode("latin-1") for p in pieces], "close_after": close,
                          "observed": "parse() raised %s: %s" % (view["escaped"], view.get("text")),
                          "expected": "errored/error set, ended", "contradicts": "C32.Props.server_parse_total"})
        return best[1] if best else None

    ctx.settle(search)
