"""
C39 -- odict / lodict / modict / oset behave like their models.

Tie H: coq/C39/Model.v mirrors the classes' internal representation (_keys list + dict as
association list; oset = traversal order of its linked list).
  theorems       : coq/C39/Props.v (invariants over ALL op sequences, refinement to the
                   abstract insertion-ordered dictionary, copy/pickle round trip, lodict
                   case-insensitivity, modict keeps-all/newest, oset algebra)
  correspondence : op sequences (bounded-exhaustive + random) are run on the REAL classes
                   (pickle / copy through the real modules) and on the Coq model; result,
                   exception class, _keys and items are compared after every step.
"""
import contextlib
import copy
import itertools
import operator
import pickle
import signal

LEVEL = "proof"


# --------------------------------------------------------------------------- hang guard
class Hang(BaseException):
    """raised by the timers below inside a call into the implementation that does not return
    (BaseException: the `except Exception` clauses that classify implementation errors let it through)"""


HANG = [9, 77]          # result class "Hang" of a step; the model never produces it
HANG_CPU_S = 1.0        # CPU seconds for ONE whole history (a normal history takes milliseconds);
HANG_WALL_S = 30.0      # CPU time, not wall time, decides first so that a loaded machine cannot fake a hang


@contextlib.contextmanager
def hang_guard(cpu=HANG_CPU_S, wall=HANG_WALL_S):
    """every call into the real classes (constructor, each op, iteration / list() / reversed() / pickle /
    copy, and the state observation) runs inside this guard"""
    def _alarm(sig, frm):
        raise Hang()
    o1 = signal.signal(signal.SIGVTALRM, _alarm)
    o2 = signal.signal(signal.SIGALRM, _alarm)
    signal.setitimer(signal.ITIMER_VIRTUAL, cpu)
    signal.setitimer(signal.ITIMER_REAL, wall)
    try:
        yield
    finally:
        signal.setitimer(signal.ITIMER_VIRTUAL, 0)
        signal.setitimer(signal.ITIMER_REAL, 0)
        signal.signal(signal.SIGVTALRM, o1)
        signal.signal(signal.SIGALRM, o2)

KEYS = "aAbBcCdDeE"          # code 2i = lower-case spelling, 2i+1 = upper-case spelling


def K(c):
    return KEYS[c]


def code(k):
    return KEYS.index(k) if isinstance(k, str) and len(k) == 1 and k in KEYS else -7


# --------------------------------------------------------------------------- encodings
def enc_l(l):
    l = list(l)
    return [len(l)] + l


def enc_ps(ps):
    out = [len(ps)]
    for k, v in ps:
        out += [k, v]
    return out


def enc_lps(ps):
    out = [len(ps)]
    for k, l in ps:
        out += [k] + enc_l(l)
    return out


def enc_exc(ex):
    if isinstance(ex, KeyError):
        return [8, 0]
    if isinstance(ex, ValueError):
        return [8, 1]
    if isinstance(ex, IndexError):
        return [9, 3]
    return [9, 100 + (sum(map(ord, type(ex).__name__)) % 100)]   # never produced by the model


def ival(v):
    """values are small ints; anything else is encoded so that it cannot match the model"""
    return v if isinstance(v, int) and not isinstance(v, bool) else -9999


# --------------------------------------------------------------------------- odict / lodict
def obs_od(o):
    """observable internal state: _keys, items through dict.__getitem__, + structural invariant"""
    ks = list(getattr(o, "_keys", ["<no _keys>"]))
    its = []
    for k in ks:
        try:
            its.append((code(k), ival(dict.__getitem__(o, k))))
        except KeyError:
            pass
    out = enc_l([code(k) for k in ks]) + enc_ps(its)
    if len(set(ks)) != len(ks) or set(dict.keys(o)) != set(ks) or dict.__len__(o) != len(ks):
        out += [-99]           # _keys and the dict disagree: never matches the model
    try:
        if o.keys() != ks or [code(k) for k, _ in o.items()] != [code(k) for k in ks] or list(iter(o)) != ks:
            out += [-98]
    except Exception:
        out += [-98]
    return out


def enc_obj(c, cls):
    if type(c) is not cls:
        return [9, 50]
    return [7] + enc_l([code(k) for k in c._keys]) + enc_ps([(code(k), ival(v)) for k, v in c.items()]) + \
        ([] if set(dict.keys(c)) == set(c._keys) else [-97])


def dec_ps(ps):
    return [(K(k), v) for k, v in ps]


def roundtrip(o, variant):
    v = variant % 6
    if v < 4:
        return pickle.loads(pickle.dumps(o, 2 + v))
    if v == 4:
        return copy.copy(o)
    return copy.deepcopy(o)


def apply_od(o, op, i, odict):
    """apply one op to the real object; return the flat encoding of its result"""
    t = op[0]
    cls = type(o)
    try:
        if t == "set":
            o[K(op[1])] = op[2]
            return [0]
        if t == "del":
            del o[K(op[1])]
            return [0]
        if t == "get":
            return [2, ival(o[K(op[1])])]
        if t == "getd":
            return [2, ival(o.get(K(op[1]), op[2]))]
        if t == "has":
            return [1, 1 if K(op[1]) in o else 0]
        if t == "len":
            return [2, len(o)]
        if t == "keys":
            return [3] + enc_l([code(k) for k in o.keys()])
        if t == "values":
            a, b = o.values(), list(o.itervalues())
            return [4] + enc_l([ival(v) for v in a]) + ([] if a == b else [-96])
        if t == "items":
            a, b = o.items(), list(o.iteritems())
            return [5] + enc_ps([(code(k), ival(v)) for k, v in a]) + ([] if a == b else [-96])
        if t == "append":
            o.append(K(op[1]), op[2])
            return [0]
        if t == "clear":
            o.clear()
            return [0]
        if t == "copy":
            c = o.copy()
            r = enc_obj(c, cls)
            if c is o:
                r += [-95]
            c["zz"] = 1          # a copy is independent: the state observation that follows shows it
            if c._keys and c._keys[0] != "zz":
                del c[c._keys[0]]
            return r
        if t == "create":
            ps = dec_ps(op[1])
            if i % 3 == 1 and len(set(k for k, _ in ps)) == len(ps):
                o.create(dict(ps))
            elif i % 3 == 2:
                o.create(odict(ps[:1]), ps[1:])
            else:
                o.create(ps)
            return [0]
        if t == "sift":
            c = o.sift() if op[1] is None else o.sift([K(k) for k in op[1]])
            r = enc_obj(c, cls)
            c["zz"] = 1
            return r
        if t == "insert":
            o.insert(op[1], K(op[2]), op[3])
            return [0]
        if t == "pop":
            return [2, ival(o.pop(K(op[1])))]
        if t == "popd":
            return [2, ival(o.pop(K(op[1]), op[2]))]
        if t == "popitem":
            k, v = o.popitem() if op[1] else o.popitem(last=False)
            return [6, code(k), ival(v)]
        if t == "reorder":
            o.reorder(odict(dec_ps(op[1])))
            return [0]
        if t == "reorderself":
            o.reorder(o)
            return [0]
        if t == "setdefault":
            return [2, ival(o.setdefault(K(op[1]), op[2]))]
        if t == "update":
            ps = dec_ps(op[1])
            if i % 3 == 1 and len(set(k for k, _ in ps)) == len(ps):
                o.update(dict(ps))
            elif i % 3 == 2:
                o.update(odict(ps[:1]), ps[1:])
            else:
                o.update(ps)
            return [0]
        if t == "pickle":
            c = roundtrip(o, i)
            r = enc_obj(c, cls)
            c["zz"] = 1
            return r
        if t == "ior":
            ps = dec_ps(op[1])
            uniq = len(set(k for k, _ in ps)) == len(ps)
            o2 = operator.ior(o, odict(ps) if (i % 2 == 0 and uniq) else ps)
            return [0] if o2 is o else [9, 51]
        if t == "reversed":
            return [3] + enc_l([code(k) for k in reversed(o)])
        raise RuntimeError("unknown op %r" % (op,))
    except RuntimeError:
        raise
    except Exception as ex:
        return enc_exc(ex)


def run_od(cls, odict, ps0, ops):
    out = []
    try:
        with hang_guard():
            o = cls(dec_ps(ps0))
            for i, op in enumerate(ops):
                r = apply_od(o, op, i, odict)
                out += r + obs_od(o)
    except Hang:
        out += HANG          # the step in progress did not terminate; the history stops here
    return out


def z(n):
    return str(n) if n >= 0 else "(%d)" % n


def c_l(l):
    return "[" + ";".join(z(x) for x in l) + "]" if l else "(@nil Z)"


def c_ps(ps):
    return "[" + ";".join("(%s,%s)" % (z(a), z(b)) for a, b in ps) + "]" if ps else "(@nil (Z*Z))"


def c_op(op):
    t = op[0]
    if t == "set": return "OSet %s %s" % (z(op[1]), z(op[2]))
    if t == "del": return "ODel %s" % z(op[1])
    if t == "get": return "OGet %s" % z(op[1])
    if t == "getd": return "OGetD %s %s" % (z(op[1]), z(op[2]))
    if t == "has": return "OHas %s" % z(op[1])
    if t == "len": return "OLen"
    if t == "keys": return "OKeys"
    if t == "values": return "OValues"
    if t == "items": return "OItems"
    if t == "append": return "OAppend %s %s" % (z(op[1]), z(op[2]))
    if t == "clear": return "OClear"
    if t == "copy": return "OCopy"
    if t == "create": return "OCreate %s" % c_ps(op[1])
    if t == "sift": return "OSift None" if op[1] is None else "OSift (Some %s)" % c_l(op[1])
    if t == "insert": return "OInsert %s %s %s" % (z(op[1]), z(op[2]), z(op[3]))
    if t == "pop": return "OPop %s" % z(op[1])
    if t == "popd": return "OPopD %s %s" % (z(op[1]), z(op[2]))
    if t == "popitem": return "OPopItem %s" % ("true" if op[1] else "false")
    if t == "reorder": return "OReorder %s" % c_ps(op[1])
    if t == "reorderself": return "OReorderSelf"
    if t == "setdefault": return "OSetDefault %s %s" % (z(op[1]), z(op[2]))
    if t == "update": return "OUpdate %s" % c_ps(op[1])
    if t == "pickle": return "OPickle"
    if t == "ior": return "OIor %s" % c_ps(op[1])
    if t == "reversed": return "OReversed"
    raise RuntimeError(op)


def c_ops(ops, f=c_op, ty="op"):
    return "[" + ";".join(f(o) for o in ops) + "]" if ops else "(@nil %s)" % ty


# reference (the property's executable statement): ONE list of [key, value] with distinct keys
def ref_od(ps0, ops, low):
    """returns list of (result, items) per step; low: key normaliser (identity or lower)"""
    L = []

    def find(k):
        for j, p in enumerate(L):
            if p[0] == k:
                return j
        return -1

    def rset(k, v):
        j = find(k)
        if j >= 0:
            L[j][1] = v
        else:
            L.append([k, v])

    def mk(ps):
        M = []
        for k, v in ps:
            k = low(k)
            for p in M:
                if p[0] == k:
                    p[1] = v
                    break
            else:
                M.append([k, v])
        return M

    for k, v in ps0:
        rset(low(k), v)
    out = []
    for op in ops:
        t = op[0]
        r = None
        k = low(op[1]) if t in ("set", "del", "get", "getd", "has", "append", "pop", "popd", "setdefault") else None
        if t == "set": rset(k, op[2])
        elif t == "del":
            j = find(k)
            if j < 0: r = "KeyError"
            else: L.pop(j)
        elif t == "get":
            j = find(k); r = "KeyError" if j < 0 else L[j][1]
        elif t == "getd":
            j = find(k); r = op[2] if j < 0 else L[j][1]
        elif t == "has": r = find(k) >= 0
        elif t == "len": r = len(L)
        elif t == "keys": r = [p[0] for p in L]
        elif t == "values": r = [p[1] for p in L]
        elif t == "items": r = [tuple(p) for p in L]
        elif t == "append":
            if find(k) >= 0: r = "KeyError"
            else: L.append([k, op[2]])
        elif t == "clear": del L[:]
        elif t in ("copy", "pickle"): r = ("obj", [tuple(p) for p in L])
        elif t == "create":
            for a, v in op[1]:
                if find(low(a)) < 0: L.append([low(a), v])
        elif t == "sift":
            if op[1] is None: r = ("obj", [tuple(p) for p in L])
            else:
                fs = [low(f) for f in op[1]]
                if any(find(f) < 0 for f in fs): r = "KeyError"
                else: r = ("obj", [tuple(p) for p in mk([(f, L[find(f)][1]) for f in fs])])
        elif t == "insert":
            k = low(op[2])
            if find(k) >= 0: r = "KeyError"
            else: L.insert(op[1], [k, op[3]])
        elif t == "pop":
            j = find(k)
            if j < 0: r = "KeyError"
            else: r = L.pop(j)[1]
        elif t == "popd":
            j = find(k); r = op[2] if j < 0 else L.pop(j)[1]
        elif t == "popitem":
            if not L: r = "KeyError"
            else: r = tuple(L.pop(-1 if op[1] else 0))
        elif t == "reorder":
            # other = odict(pairs) (case-sensitive), then normalised key by key
            other = []
            for a, v in op[1]:
                for p in other:
                    if p[0] == a:
                        p[1] = v
                        break
                else:
                    other.append([a, v])
            for a, v in mk(other):
                j = find(a)
                if j >= 0: L.pop(j)
                L.append([a, v])
        elif t == "reorderself": pass
        elif t == "setdefault":
            j = find(k)
            if j < 0: L.append([k, op[2]]); r = op[2]
            else: r = L[j][1]
        elif t in ("update", "ior"):
            for a, v in op[1]: rset(low(a), v)
        elif t == "reversed": r = [p[0] for p in reversed(L)]
        out.append((r, [tuple(p) for p in L]))
    return out


def dec_od(flat):
    """decode implementation trace (best effort) for replays"""
    return flat


def impl_steps_od(cls, odict, ps0, ops):
    """(result-encoding, items) per step from the implementation, for the search"""
    out = []
    try:
        with hang_guard():
            o = cls(dec_ps(ps0))
            for i, op in enumerate(ops):
                r = apply_od(o, op, i, odict)
                try:
                    its = [(code(k), v) for k, v in o.items()]
                    ok = set(dict.keys(o)) == set(o._keys) and len(o) == len(o._keys)
                except Exception as ex:
                    its, ok = repr(ex), False
                out.append((r, its, ok))
    except Hang:
        out.append((list(HANG), "hang", False))
    return out


def enc_ref(r):
    if r is None: return [0]
    if r == "KeyError": return [8, 0]
    if isinstance(r, bool): return [1, int(r)]
    if isinstance(r, int): return [2, r]
    if isinstance(r, tuple) and r and r[0] == "obj":
        return [7] + enc_l([k for k, _ in r[1]]) + enc_ps(r[1])
    if isinstance(r, tuple): return [6, r[0], r[1]]
    if isinstance(r, list) and r and isinstance(r[0], tuple): return [5] + enc_ps(r)
    return None   # keys / values: compare by payload only


def od_violation(cls, odict, ps0, ops, low):
    """first step at which the implementation departs from the reference ordered dict"""
    ref = ref_od(ps0, ops, low)
    imp = impl_steps_od(cls, odict, ps0, ops)
    for j, ((rr, rits), (ir, iits, ok)) in enumerate(zip(ref, imp)):
        want = enc_ref(rr)
        bad = None
        if ir == HANG:
            bad = "the implementation did not terminate (Hang)"
        elif not ok:
            bad = "_keys and underlying dict disagree"
        elif iits != rits:
            bad = "contents/order differ"
        elif want is not None and ir != want:
            bad = "result differs"
        elif want is None and ir[2:2 + len(rr)] != list(rr) and ir[0] in (3, 4):
            bad = "result differs"
        elif want is None and ir[0] not in (3, 4, 5):
            bad = "result differs"
        if bad:
            return {"step": j, "op": ops[j], "why": bad, "impl_result": ir, "impl_items": iits,
                    "expected_result": rr if want is None else want, "expected_items": rits}
    return None


# --------------------------------------------------------------------------- modict
def obs_mo(m):
    ks = list(m._keys)
    its = []
    for k in ks:
        try:
            v = dict.__getitem__(m, k)
            its.append((code(k), [ival(x) for x in v] if isinstance(v, list) else [-9999]))
        except KeyError:
            pass
    out = enc_l([code(k) for k in ks]) + enc_lps(its)
    if len(set(ks)) != len(ks) or set(dict.keys(m)) != set(ks):
        out += [-99]
    return out


def enc_mobj(c, cls):
    if type(c) is not cls:
        return [9, 50]
    return [11] + enc_lps([(code(k), [ival(x) for x in l]) for k, l in c.listitems()])


def apply_mo(m, op, i, modict, odict):
    t = op[0]
    cls = type(m)
    try:
        if t == "add":
            k, v = K(op[1]), op[2]
            if i % 3 == 0: m[k] = v
            elif i % 3 == 1: m.append(k, v)
            else: m.add(k, v)
            return [0]
        if t == "get": return [2, ival(m[K(op[1])])]
        if t == "getd":
            a = m.get(K(op[1]), op[2])
            b = m.getone(K(op[1]), op[2])
            return [2, ival(a)] + ([] if a == b else [-96])
        if t == "getidx": return [2, ival(m.get(K(op[1]), op[2], index=op[3]))]
        if t == "getlist": return [3] + enc_l([ival(x) for x in m.getlist(K(op[1]))])
        if t == "replace":
            m.replace(K(op[1]), op[2]); return [0]
        if t == "setdefault": return [2, ival(m.setdefault(K(op[1]), op[2]))]
        if t == "pop": return [2, ival(m.pop(K(op[1])))]
        if t == "popd": return [2, ival(m.pop(K(op[1]), op[2]))]
        if t == "poplist":
            l = m.poplist(K(op[1])) if i % 2 else m.popall(K(op[1]))
            return [3] + enc_l([ival(x) for x in l])
        if t == "popitem":
            k, v = m.popitem() if op[1] else m.popitem(last=False)
            return [7, code(k), ival(v)]
        if t == "poplistitem":
            k, l = m.poplistitem() if op[1] else m.poplistitem(last=False)
            return [10, code(k)] + enc_l([ival(x) for x in l])
        if t == "del":
            del m[K(op[1])]; return [0]
        if t == "has":
            a, b = K(op[1]) in m, m.has_key(K(op[1]))
            return [1, int(a)] + ([] if a == b else [-96])
        if t == "len": return [2, len(m)]
        if t == "keys": return [4] + enc_l([code(k) for k in m.keys()])
        if t == "values":
            a, b = m.values(), list(m.itervalues())
            return [3] + enc_l([ival(x) for x in a]) + ([] if a == b else [-96])
        if t == "items":
            a, b = m.items(), list(m.iteritems())
            return [5] + enc_ps([(code(k), ival(v)) for k, v in a]) + ([] if a == b else [-96])
        if t == "listitems":
            a, b = m.listitems(), list(m.iterlistitems())
            return [6] + enc_lps([(code(k), [ival(x) for x in l]) for k, l in a]) + ([] if a == b else [-96])
        if t == "allitems":
            a, b = m.allitems(), list(m.iterallitems())
            return [5] + enc_ps([(code(k), ival(v)) for k, v in a]) + ([] if a == b else [-96])
        if t == "update":
            ps = dec_ps(op[1])
            uniq = len(set(k for k, _ in ps)) == len(ps)
            if i % 4 == 1 and uniq: m.update(dict(ps))
            elif i % 4 == 2 and uniq: m.update(**dict(ps))
            elif i % 4 == 3 and uniq: m.update(odict(ps))
            else: m.update(ps)
            return [0]
        if t == "updatem":
            m.update(modict(dec_ps(op[1]))); return [0]
        if t == "clear":
            m.clear(); return [0]
        if t == "copy":
            c = m.copy()
            r = enc_mobj(c, cls)
            c["zz"] = 1
            for l in dict.values(c):
                l.append(77)         # value lists of a copy are independent too
            return r
        if t == "pickle":
            c = roundtrip(m, i)
            r = enc_mobj(c, cls)
            c["zz"] = 1
            return r
        if t == "sift":
            c = m.sift() if op[1] is None else m.sift([K(k) for k in op[1]])
            r = enc_mobj(c, cls)
            if c is m:
                r += [-95]
            c["zz"] = 1
            for l in dict.values(c):
                if isinstance(l, list):
                    l.append(77)     # the sifted modict owns its value lists
            return r
        if t == "insert":
            m.insert(op[1], K(op[2]), op[3]); return [0]
        if t == "reorder":
            m.reorder(modict(dec_ps(op[1]))); return [0]
        if t == "reordero":
            m.reorder(odict(dec_ps(op[1]))); return [0]
        raise RuntimeError("unknown op %r" % (op,))
    except RuntimeError:
        raise
    except Exception as ex:
        return enc_exc(ex)


def run_mo(modict, odict, ps0, ops):
    out = []
    try:
        with hang_guard():
            m = modict(dec_ps(ps0))
            for i, op in enumerate(ops):
                r = apply_mo(m, op, i, modict, odict)
                out += r + obs_mo(m)
    except Hang:
        out += HANG
    return out


def c_mop(op):
    t = op[0]
    b = lambda x: "true" if x else "false"
    if t == "add": return "MAdd %s %s" % (z(op[1]), z(op[2]))
    if t == "get": return "MGet %s" % z(op[1])
    if t == "getd": return "MGetD %s %s" % (z(op[1]), z(op[2]))
    if t == "getidx": return "MGetIdx %s %s %s" % (z(op[1]), z(op[2]), z(op[3]))
    if t == "getlist": return "MGetList %s" % z(op[1])
    if t == "replace": return "MReplace %s %s" % (z(op[1]), z(op[2]))
    if t == "setdefault": return "MSetDefault %s %s" % (z(op[1]), z(op[2]))
    if t == "pop": return "MPop %s" % z(op[1])
    if t == "popd": return "MPopD %s %s" % (z(op[1]), z(op[2]))
    if t == "poplist": return "MPopList %s" % z(op[1])
    if t == "popitem": return "MPopItem %s" % b(op[1])
    if t == "poplistitem": return "MPopListItem %s" % b(op[1])
    if t == "del": return "MDel %s" % z(op[1])
    if t == "has": return "MHas %s" % z(op[1])
    if t == "len": return "MLen"
    if t == "keys": return "MKeys"
    if t == "values": return "MValues"
    if t == "items": return "MItems"
    if t == "listitems": return "MListItems"
    if t == "allitems": return "MAllItems"
    if t == "update": return "MUpdate %s" % c_ps(op[1])
    if t == "updatem": return "MUpdateM %s" % c_ps(op[1])
    if t == "clear": return "MClear"
    if t == "copy": return "MCopy"
    if t == "pickle": return "MPickle"
    if t == "sift": return "MSift None" if op[1] is None else "MSift (Some %s)" % c_l(op[1])
    if t == "insert": return "MInsert %s %s %s" % (z(op[1]), z(op[2]), z(op[3]))
    if t == "reorder": return "MReorder %s" % c_ps(op[1])
    if t == "reordero": return "MReorderO %s" % c_ps(op[1])
    raise RuntimeError(op)


def ref_mo_step(L, op):
    """reference multi-dict (the property's statement): ordered list of [key, [values...]]; newest = last.
    Applies op to L in place and returns the expected result encoding"""
    def find(k):
        for j, p in enumerate(L):
            if p[0] == k:
                return j
        return -1

    def add(k, v):
        j = find(k)
        if j < 0: L.append([k, [v]])
        else: L[j][1].append(v)

    t = op[0]
    want = "skip"
    k = op[1] if len(op) > 1 and isinstance(op[1], int) and t not in ("popitem", "poplistitem", "insert") else None
    j = find(k) if k is not None else -1
    if t == "add": add(k, op[2]); want = [0]
    elif t == "get": want = [8, 0] if j < 0 else [2, L[j][1][-1]]
    elif t == "getd": want = [2, op[2]] if j < 0 else [2, L[j][1][-1]]
    elif t == "getidx":
        want = [2, op[2]]
        if j >= 0 and -len(L[j][1]) <= op[3] < len(L[j][1]): want = [2, L[j][1][op[3]]]
    elif t == "getlist": want = [3] + enc_l([] if j < 0 else L[j][1])
    elif t == "replace":
        if j < 0: L.append([k, [op[2]]])
        else: L[j][1] = [op[2]]
        want = [0]
    elif t == "setdefault":
        if j < 0: add(k, op[2]); want = [2, op[2]]
        else: want = [2, L[j][1][-1]]
    elif t == "pop": want = [8, 0] if j < 0 else [2, L.pop(j)[1][-1]]
    elif t == "popd": want = [2, op[2]] if j < 0 else [2, L.pop(j)[1][-1]]
    elif t == "poplist": want = [8, 0] if j < 0 else [3] + enc_l(L.pop(j)[1])
    elif t == "popitem":
        if not L: want = [8, 0]
        else:
            p = L.pop(-1 if op[1] else 0); want = [7, p[0], p[1][-1]]
    elif t == "poplistitem":
        if not L: want = [8, 0]
        else:
            p = L.pop(-1 if op[1] else 0); want = [10, p[0]] + enc_l(p[1])
    elif t == "del":
        if j < 0: want = [8, 0]
        else: L.pop(j); want = [0]
    elif t == "has": want = [1, int(j >= 0)]
    elif t == "len": want = [2, len(L)]
    elif t == "keys": want = [4] + enc_l([p[0] for p in L])
    elif t == "values": want = [3] + enc_l([p[1][-1] for p in L])
    elif t == "items": want = [5] + enc_ps([(p[0], p[1][-1]) for p in L])
    elif t == "listitems": want = [6] + enc_lps([(p[0], p[1]) for p in L])
    elif t == "allitems": want = [5] + enc_ps([(p[0], v) for p in L for v in p[1]])
    elif t in ("update", "updatem"):
        for a, v in op[1]: add(a, v)
        want = [0]
    elif t == "clear": del L[:]; want = [0]
    elif t in ("copy", "pickle"): want = [11] + enc_lps([(p[0], p[1]) for p in L])
    elif t == "sift":
        if op[1] is None: want = [11] + enc_lps([(p[0], p[1]) for p in L])
        elif any(find(f) < 0 for f in op[1]): want = [8, 0]
        else:
            fs = []
            for f in op[1]:
                if f not in fs: fs.append(f)
            want = [11] + enc_lps([(f, L[find(f)][1]) for f in fs])     # every value of every field kept
    elif t == "insert":
        if find(op[2]) >= 0: want = [8, 0]
        else: L.insert(op[1], [op[2], [op[3]]]); want = [0]
    elif t in ("reorder", "reordero"):
        other = []
        for a, v in op[1]:
            for p in other:
                if p[0] == a:
                    if t == "reorder": p[1].append(v)
                    else: p[1] = [v]
                    break
            else:
                other.append([a, [v]])
        for a, vl in other:
            jj = find(a)
            if jj >= 0: L.pop(jj)
            L.append([a, list(vl)])
        want = [0]
    return want


def mo_violation(modict, odict, ps0, ops):
    L = []
    for k, v in ps0:
        ref_mo_step(L, ("add", k, v))
    try:
        with hang_guard():
            m = modict(dec_ps(ps0))
    except Hang:
        return {"step": 0, "op": ("modict",) + tuple(ps0), "impl_result": list(HANG), "why": "constructor did not terminate"}
    for i, op in enumerate(ops):
        want = ref_mo_step(L, op)
        try:
            with hang_guard():
                got = apply_mo(m, op, i, modict, odict)
                try:
                    state = [(code(a), list(l)) for a, l in m.listitems()]
                except Exception as ex:
                    state = repr(ex)
        except Hang:
            got, state = list(HANG), "hang: the implementation did not terminate"
        exp_state = [(p[0], list(p[1])) for p in L]
        if got != want or state != exp_state:
            return {"step": i, "op": op, "impl_result": got, "expected_result": want,
                    "impl_listitems": state, "expected_listitems": exp_state}
    return None


# --------------------------------------------------------------------------- two live modicts
def apply_mo2(a, b, op, i, modict, odict):
    t = op[0]
    try:
        if t == "a": return apply_mo(a, op[1], i, modict, odict)
        if t == "b": return apply_mo(b, op[1], i, modict, odict)
        if t == "arb": a.reorder(b); return [0]
        if t == "bra": b.reorder(a); return [0]
        if t == "aub": a.update(b); return [0]
        if t == "bua": b.update(a); return [0]
        raise RuntimeError("unknown op %r" % (op,))
    except RuntimeError:
        raise
    except Exception as ex:
        return enc_exc(ex)


def run_mo2(modict, odict, psa, psb, ops):
    out = []
    try:
        with hang_guard():
            a, b = modict(dec_ps(psa)), modict(dec_ps(psb))
            for i, op in enumerate(ops):
                r = apply_mo2(a, b, op, i, modict, odict)
                out += r + obs_mo(a) + obs_mo(b)
    except Hang:
        out += HANG
    return out


def c_mop2(op):
    t = op[0]
    if t == "a": return "OnA (%s)" % c_mop(op[1])
    if t == "b": return "OnB (%s)" % c_mop(op[1])
    return {"arb": "AReorderB", "bra": "BReorderA", "aub": "AUpdateB", "bua": "BUpdateA"}[t]


def mo2_violation(modict, odict, ini, ops):
    """two reference multi-dicts; an operation on one must never change the other"""
    psa, psb = ini
    La, Lb = [], []
    for k, v in psa: ref_mo_step(La, ("add", k, v))
    for k, v in psb: ref_mo_step(Lb, ("add", k, v))
    try:
        with hang_guard():
            a, b = modict(dec_ps(psa)), modict(dec_ps(psb))
    except Hang:
        return {"step": 0, "op": ("modict",), "impl_result": list(HANG), "why": "constructor did not terminate"}
    for i, op in enumerate(ops):
        t = op[0]
        if t == "a": want = ref_mo_step(La, op[1])
        elif t == "b": want = ref_mo_step(Lb, op[1])
        else:
            (Lt, Lo) = (La, Lb) if t in ("arb", "aub") else (Lb, La)
            for k, vl in [(p[0], list(p[1])) for p in Lo]:
                if t in ("arb", "bra"):
                    for j, p in enumerate(Lt):
                        if p[0] == k:
                            Lt.pop(j)
                            break
                    Lt.append([k, list(vl)])
                else:
                    for v in vl:
                        ref_mo_step(Lt, ("add", k, v))
            want = [0]
        try:
            with hang_guard():
                got = apply_mo2(a, b, op, i, modict, odict)
                try:
                    sa = [(code(x), list(l)) for x, l in a.listitems()]
                    sb = [(code(x), list(l)) for x, l in b.listitems()]
                except Exception as ex:
                    sa = sb = repr(ex)
        except Hang:
            got, sa, sb = list(HANG), "hang", "hang"
        ea = [(p[0], list(p[1])) for p in La]
        eb = [(p[0], list(p[1])) for p in Lb]
        if got != want or sa != ea or sb != eb:
            target_is_a = t in ("a", "arb", "aub")
            other_changed = (sb != eb) if target_is_a else (sa != ea)
            v = {"step": i, "op": op, "impl_result": got, "expected_result": want,
                 "impl_listitems_a": sa, "expected_listitems_a": ea, "impl_listitems_b": sb, "expected_listitems_b": eb}
            if other_changed and got == want:
                v["why"] = "an operation on one modict changed the OTHER modict (they share a value list)"
                v["aliasing"] = True
            return v
    return None


# --------------------------------------------------------------------------- oset
def apply_os(s, op, i, oset):
    t = op[0]
    try:
        if t == "add": s.add(op[1]); return [0]
        if t == "discard": s.discard(op[1]); return [0]
        if t == "remove": s.remove(op[1]); return [0]
        if t == "pop": return [2, s.pop() if op[1] else s.pop(last=False)]
        if t == "has": return [1, int(op[1] in s)]
        if t == "len": return [2, len(s)]
        if t == "iter": return [3] + enc_l(list(s))
        if t == "reversed": return [3] + enc_l(list(reversed(s)))
        if t == "clear": s.clear(); return [0]
        if t in ("or", "and", "sub", "xor"):
            f = {"or": operator.or_, "and": operator.and_, "sub": operator.sub, "xor": operator.xor}[t]
            r = f(s, oset(op[1]))
            return ([3] + enc_l(list(r))) if type(r) is oset else [9, 50]
        if t in ("ior", "iand", "isub", "ixor"):
            f = {"ior": operator.ior, "iand": operator.iand, "isub": operator.isub, "ixor": operator.ixor}[t]
            r = f(s, oset(op[1]))
            return [0] if r is s else [9, 51]
        if t == "eq": return [1, int(s == oset(op[1]))]
        if t == "le": return [1, int(s <= oset(op[1]))]
        if t == "disjoint": return [1, int(s.isdisjoint(oset(op[1])))]
        if t == "pickle":
            c = pickle.loads(pickle.dumps(s, 2 + i % 4)) if i % 5 else copy.deepcopy(s)
            r = ([3] + enc_l(list(c))) if type(c) is oset else [9, 50]
            c.add(99)
            return r
        raise RuntimeError("unknown op %r" % (op,))
    except RuntimeError:
        raise
    except Exception as ex:
        return enc_exc(ex)


def obs_os(s):
    l = list(s)
    out = enc_l(l)
    if len(s) != len(l) or set(s.map.keys()) != set(l) or list(reversed(s)) != l[::-1] or len(set(l)) != len(l):
        out += [-99]
    return out


def run_os(oset, l0, ops):
    out = []
    try:
        with hang_guard():
            s = oset(l0)
            for i, op in enumerate(ops):
                r = apply_os(s, op, i, oset)
                out += r + obs_os(s)
    except Hang:
        out += HANG
    return out


def c_sop(op):
    t = op[0]
    nm = {"add": "SAdd", "discard": "SDiscard", "remove": "SRemove", "has": "SHas"}
    if t in nm: return "%s %s" % (nm[t], z(op[1]))
    if t == "pop": return "SPop %s" % ("true" if op[1] else "false")
    n0 = {"len": "SLen", "iter": "SIter", "reversed": "SReversed", "clear": "SClear", "pickle": "SPickle"}
    if t in n0: return n0[t]
    n1 = {"or": "SOr", "and": "SAnd", "sub": "SSub", "xor": "SXor", "ior": "SIor", "iand": "SIand",
          "isub": "SIsub", "ixor": "SIxor", "eq": "SEq", "le": "SLe", "disjoint": "SDisjoint"}
    return "%s %s" % (n1[t], c_l(op[1]))


def os_violation(oset, l0, ops):
    """reference ordered set: list without duplicates; algebra per Python set semantics + order rule"""
    def of(it):
        r = []
        for x in it:
            if x not in r: r.append(x)
        return r
    L = of(l0)
    try:
        with hang_guard():
            s = oset(l0)
    except Hang:
        return {"step": 0, "op": ("oset", list(l0)), "impl_result": list(HANG), "why": "constructor did not terminate"}
    for i, op in enumerate(ops):
        t = op[0]
        b = of(op[1]) if t in ("or", "and", "sub", "xor", "ior", "iand", "isub", "ixor", "eq", "le", "disjoint") else None
        want = [0]
        if t == "add":
            if op[1] not in L: L.append(op[1])
        elif t == "discard":
            if op[1] in L: L.remove(op[1])
        elif t == "remove":
            if op[1] in L: L.remove(op[1])
            else: want = [8, 0]
        elif t == "pop":
            want = [8, 0] if not L else [2, L.pop(-1 if op[1] else 0)]
        elif t == "has": want = [1, int(op[1] in L)]
        elif t == "len": want = [2, len(L)]
        elif t == "iter": want = [3] + enc_l(L)
        elif t == "reversed": want = [3] + enc_l(L[::-1])
        elif t == "clear": del L[:]
        elif t == "or": want = [3] + enc_l(of(L + b))
        elif t == "and": want = [3] + enc_l([x for x in b if x in L])
        elif t == "sub": want = [3] + enc_l([x for x in L if x not in b])
        elif t == "xor": want = [3] + enc_l([x for x in L if x not in b] + [x for x in b if x not in L])
        elif t == "ior": L[:] = of(L + b)
        elif t == "iand": L[:] = [x for x in L if x in b]
        elif t == "isub": L[:] = [x for x in L if x not in b]
        elif t == "ixor": L[:] = [x for x in L if x not in b] + [x for x in b if x not in L]
        elif t == "eq": want = [1, int(L == b)]
        elif t == "le": want = [1, int(set(L) <= set(b))]
        elif t == "disjoint": want = [1, int(not (set(L) & set(b)))]
        elif t == "pickle": want = [3] + enc_l(L)
        try:
            with hang_guard():
                got = apply_os(s, op, i, oset)
                state = list(s)
                n = len(s)
        except Hang:
            got, state, n = list(HANG), "hang: the implementation did not terminate", -1
        if got != want or state != L or n != len(L):
            return {"step": i, "op": op, "impl_result": got, "expected_result": want,
                    "impl_elements": state, "expected_elements": list(L)}
    return None


# --------------------------------------------------------------------------- generators
def gen_od_ops(rng, nk, lo):
    """one random op; nk = number of key codes in use"""
    k = lambda: rng.randrange(nk)
    v = lambda: rng.randrange(1, 9)
    ps = lambda: [(k(), v()) for _ in range(rng.randint(0, 4))]
    c = rng.randrange(28)
    if c < 3: return ("set", k(), v())
    if c == 3: return ("del", k())
    if c == 4: return ("get", k())
    if c == 5: return ("getd", k(), v())
    if c == 6: return ("has", k())
    if c == 7: return rng.choice([("len",), ("keys",), ("values",), ("items",)])
    if c == 8: return ("append", k(), v())
    if c == 9: return ("clear",) if rng.random() < 0.3 else ("reversed",)
    if c == 10: return ("copy",)
    if c in (11, 12): return ("create", ps())
    if c in (13, 14): return ("sift", None if rng.random() < 0.2 else [k() for _ in range(rng.randint(0, 3))])
    if c in (15, 16): return ("insert", rng.randint(-4, 5), k(), v())
    if c == 17: return ("pop", k())
    if c == 18: return ("popd", k(), v())
    if c == 19: return ("popitem", rng.random() < 0.6)
    if c in (20, 21): return ("reorder", ps())
    if c == 22: return ("reorderself",)
    if c == 23: return ("setdefault", k(), v())
    if c in (24, 25): return ("update", ps())
    if c == 26: return ("pickle",)
    return ("ior", ps())


def od_alphabet(nk):
    """instantiated alphabet for the bounded-exhaustive part"""
    A = []
    for k in range(nk):
        A += [("set", k, 7), ("del", k), ("get", k), ("getd", k, 9), ("has", k), ("append", k, 6),
              ("pop", k), ("popd", k, 9), ("setdefault", k, 5), ("insert", 0, k, 4), ("insert", -1, k, 4),
              ("insert", 1, k, 4), ("sift", [k]), ("create", [(k, 3)]), ("reorder", [(k, 2)]),
              ("update", [(k, 8)]), ("ior", [(k, 8)])]
    A += [("len",), ("keys",), ("values",), ("items",), ("clear",), ("copy",), ("sift", None),
          ("popitem", True), ("popitem", False), ("reorderself",), ("pickle",), ("reversed",),
          ("create", [(0, 3), (1, 4), (2, 5)]), ("reorder", [(2, 1), (1, 2)]), ("reorder", [(1, 1), (0, 2)]),
          ("update", [(1, 1), (0, 2), (1, 3)]), ("sift", [2, 0]), ("sift", [1, 0, 1]), ("sift", []), ("sift", [9])]
    return A


def gen_mo_op(rng, nk):
    k = lambda: 2 * rng.randrange(nk)
    v = lambda: rng.randrange(1, 9)
    ps = lambda: [(k(), v()) for _ in range(rng.randint(0, 4))]
    c = rng.randrange(27)
    if c < 5: return ("add", k(), v())
    if c == 5: return ("get", k())
    if c == 6: return ("getd", k(), v())
    if c == 7: return ("getidx", k(), v(), rng.randint(-3, 3))
    if c == 8: return ("getlist", k())
    if c == 9: return ("replace", k(), v())
    if c == 10: return ("setdefault", k(), v())
    if c == 11: return ("pop", k())
    if c == 12: return ("popd", k(), v())
    if c == 13: return ("poplist", k())
    if c == 14: return ("popitem", rng.random() < 0.6)
    if c == 15: return ("poplistitem", rng.random() < 0.6)
    if c == 16: return ("del", k())
    if c == 17: return ("has", k())
    if c == 18: return rng.choice([("len",), ("keys",), ("values",), ("items",)])
    if c == 19: return rng.choice([("listitems",), ("allitems",)])
    if c in (20, 21): return ("update", ps())
    if c in (22, 23): return ("updatem", ps())
    if c == 24: return ("clear",) if rng.random() < 0.25 else ("copy",)
    if c == 25: return rng.choice([("copy",), ("sift", None), ("sift", [k() for _ in range(rng.randint(0, 3))])])
    if c == 26 and rng.random() < 0.6:
        return rng.choice([("sift", [k() for _ in range(rng.randint(0, 3))]), ("insert", rng.randint(-3, 4), k(), v()),
                           ("reorder", ps()), ("reordero", ps())])
    return ("pickle",)


def mo_alphabet(nk):
    A = []
    for k in range(0, 2 * nk, 2):
        A += [("add", k, 7), ("get", k), ("getd", k, 9), ("getidx", k, 9, 0), ("getidx", k, 9, -2), ("getlist", k),
              ("replace", k, 6), ("setdefault", k, 5), ("pop", k), ("popd", k, 9), ("poplist", k), ("del", k),
              ("has", k), ("update", [(k, 1), (k, 2)]), ("updatem", [(k, 1), (k, 2)])]
    A += [("popitem", True), ("popitem", False), ("poplistitem", True), ("poplistitem", False), ("len",), ("keys",),
          ("values",), ("items",), ("listitems",), ("allitems",), ("clear",), ("copy",), ("pickle",),
          ("update", [(2, 1), (0, 2), (2, 3)]), ("updatem", [(2, 1), (0, 2), (2, 3)]),
          ("update", [(0, 4)]), ("update", [(2, 5), (0, 6)]),     # distinct keys: also passed as dict / kwargs / odict
          ("sift", None), ("sift", []), ("sift", [0]), ("sift", [2, 0]), ("sift", [0, 0]), ("sift", [8]),
          ("insert", 0, 4, 5), ("insert", -1, 0, 5), ("insert", 1, 2, 5),
          ("reorder", [(0, 7), (0, 8)]), ("reorder", [(2, 1), (0, 2)]), ("reordero", [(0, 7), (4, 8)])]
    return A


def gen_os_op(rng, nk):
    k = lambda: rng.randrange(nk)
    l = lambda: [k() for _ in range(rng.randint(0, 4))]
    c = rng.randrange(24)
    if c < 4: return ("add", k())
    if c == 4: return ("discard", k())
    if c == 5: return ("remove", k())
    if c == 6: return ("pop", True)
    if c == 7: return ("pop", False)
    if c == 8: return ("has", k())
    if c == 9: return rng.choice([("len",), ("iter",), ("reversed",)])
    if c == 10: return ("clear",) if rng.random() < 0.3 else ("pickle",)
    return (["or", "and", "sub", "xor", "ior", "iand", "isub", "ixor", "eq", "le", "disjoint", "ior", "ixor"][c - 11], l())


def os_alphabet(nk):
    A = []
    for k in range(nk):
        A += [("add", k), ("discard", k), ("remove", k), ("has", k)]
    A += [("pop", True), ("pop", False), ("len",), ("iter",), ("reversed",), ("clear",), ("pickle",)]
    for b in ([], [0], [1, 0], [2, 1], [0, 2, 1], [3, 0], [2, 2, 3]):
        for t in ("or", "and", "sub", "xor", "ior", "iand", "isub", "ixor", "eq", "le", "disjoint"):
            A.append((t, b))
    return A


HEADER = ("From Coq Require Import List ZArith Bool.\nImport ListNotations.\n"
          "Require Import V.C39.Model V.C39.Enc.\nOpen Scope Z_scope.\n")


def sequences(ctx, alphabet, inits, genop, nrand, lmax):
    seqs = []
    # bounded-exhaustive: every sequence of length 1 and 2 over the instantiated alphabet from each
    # initial state (quick: pairs are sampled 1-in-k to keep the tier short; thorough: all)
    for ini in inits:
        for a in alphabet:
            seqs.append((ini, [a]))
    pairs_ = [(ini, [a, b]) for ini in inits for a in alphabet for b in alphabet]
    keep = ctx.n(700, 60000)
    if len(pairs_) > keep:
        ctx.exhaustive = False
        pairs_ = ctx.rng.sample(pairs_, keep)
    seqs += pairs_
    for _ in range(nrand):
        ini = ctx.rng.choice(inits)
        seqs.append((ini, [genop() for _ in range(ctx.rng.randint(3, lmax))]))
    return seqs


MO2_ALPHABET = [("arb",), ("bra",), ("aub",), ("bua",),
                ("a", ("add", 0, 5)), ("b", ("add", 0, 6)), ("a", ("add", 2, 5)), ("b", ("add", 4, 6)),
                ("a", ("getlist", 0)), ("b", ("getlist", 0)), ("a", ("listitems",)), ("b", ("allitems",)),
                ("a", ("copy",)), ("b", ("sift", [0])), ("a", ("pop", 0)), ("b", ("replace", 0, 9)),
                ("a", ("pickle",)), ("b", ("updatem", [(0, 4)])), ("a", ("setdefault", 4, 3)), ("b", ("poplist", 0))]

STATE = {}
MAX_HANGS = 3          # per class in the correspondence run, 4x that in the search


def run(ctx):
    from ioflo.aid.odicting import odict, lodict, modict
    from ioflo.aid.osetting import oset
    ctx.rule = ("op sequences (all length-1, sampled/all length-2 over an instantiated alphabet of every method from "
                "several initial states, plus seeded random sequences of length 3..25) run on the real odict / lodict "
                "/ modict / oset (pickle protocols 2-5, copy.copy, copy.deepcopy through the real modules) and on the "
                "Coq model; after every step the return value or exception class, _keys, and the items read through "
                "dict.__getitem__ are compared; non-trivial = the sequence mutates the container at least twice")
    ctx.assumptions = [
        "keys are one-character strings interned as integers (2i lower case, 2i+1 upper case); values small ints",
        "pickle protocols >= 2 only (the class documents that protocol 2 is required)",
        "CPython's builtin dict / list / pickle / copy semantics are modelled, not verified",
        "the iteration order of the underlying builtin dict is not modelled (no modelled method reads it)",
        "odict.create applied to a modict is outside the modelled op set (it goes through modict.append)",
        "every call into the real classes runs under a CPU-time (1 s per history) and wall-clock (30 s) guard; a call "
        "that does not return is the result class Hang for that step (never produced by the model)",
    ]
    ctx.exhaustive = True
    ctx.coq_build("C39/Props.v")

    rng = ctx.rng
    nr = ctx.n(200, 6000)
    cases, metas = [], []
    hangs = {}        # class -> histories on which the implementation did not terminate
    STATE["hangs"] = hangs

    def mut(ops, names):
        return sum(1 for o in ops if o[0] in names) >= 2

    MUT_OD = ("set", "del", "append", "clear", "create", "insert", "pop", "popd", "popitem", "reorder",
              "setdefault", "update", "ior")
    # ---- odict (4 case-sensitive keys) and lodict (2 letters x 2 spellings + 1)
    od_inits = [[], [(0, 1)], [(0, 1), (1, 2), (2, 3)], [(2, 1), (0, 2), (3, 3), (1, 4)]]
    for cls, nm, low in ((odict, "odict", None), (lodict, "lodict", "lower2")):
        seqs = sequences(ctx, od_alphabet(3), od_inits, lambda: gen_od_ops(rng, 5, low), nr, 25)
        for ini, ops in seqs:
            if hangs.get(nm, 0) >= MAX_HANGS:
                break                      # the tie is already broken; do not burn a CPU second per history
            flat = run_od(cls, odict, ini, ops)
            hangs[nm] = hangs.get(nm, 0) + (flat[-2:] == HANG)
            if low:
                expr = "enc_trace (lo_trace lower2 (lo_init lower2 %s) %s)" % (c_ps(ini), c_ops(ops))
            else:
                expr = "enc_trace (trace (init %s) %s)" % (c_ps(ini), c_ops(ops))
            cases.append((expr, c_l(flat)))
            metas.append((nm, ini, ops, flat))
            ctx.case({"class": nm, "init": ini, "ops": ops}, nontrivial=mut(ops, MUT_OD), kind=nm)
    # ---- modict
    MUT_MO = ("add", "replace", "setdefault", "pop", "popd", "poplist", "popitem", "poplistitem", "del",
              "update", "updatem", "clear", "insert", "reorder", "reordero")
    mo_inits = [[], [(0, 1)], [(0, 1), (0, 2), (2, 3)], [(2, 1), (0, 2), (2, 3), (4, 4)]]
    for ini, ops in sequences(ctx, mo_alphabet(2), mo_inits, lambda: gen_mo_op(rng, 3), nr, 25):
        if hangs.get("modict", 0) >= MAX_HANGS:
            break
        flat = run_mo(modict, odict, ini, ops)
        hangs["modict"] = hangs.get("modict", 0) + (flat[-2:] == HANG)
        cases.append(("enc_mtrace (m_trace (m_adds %s empty) %s)" % (c_ps(ini), c_ops(ops, c_mop, "mop")), c_l(flat)))
        metas.append(("modict", ini, ops, flat))
        ctx.case({"class": "modict", "init": ini, "ops": ops}, nontrivial=mut(ops, MUT_MO), kind="modict")
    # ---- two live modicts: operations on one never change the other
    m2_inits = [([(0, 1), (0, 2), (2, 3)], [(0, 7), (4, 8)]), ([], [(0, 1)]), ([(2, 1)], [(2, 2), (2, 3)])]
    seqs2 = [(ini, [x]) for ini in m2_inits for x in MO2_ALPHABET]
    seqs2 += [(ini, [x, y]) for ini in m2_inits for x in MO2_ALPHABET for y in MO2_ALPHABET]
    tri2 = [(ini, [x, y, w]) for ini in m2_inits[:1] for x in MO2_ALPHABET[:4] for y in MO2_ALPHABET for w in MO2_ALPHABET]
    seqs2 += tri2 if ctx.thorough else rng.sample(tri2, 300)
    for _ in range(ctx.n(150, 3000)):
        ops = []
        for _ in range(rng.randint(4, 15)):
            r = rng.random()
            if r < 0.25: ops.append((rng.choice(["arb", "bra", "aub", "bua"]),))
            else: ops.append((rng.choice("ab"), gen_mo_op(rng, 3)))
        seqs2.append((rng.choice(m2_inits), ops))
    for ini, ops in seqs2:
        if hangs.get("modict2", 0) >= MAX_HANGS:
            break
        flat = run_mo2(modict, odict, ini[0], ini[1], ops)
        hangs["modict2"] = hangs.get("modict2", 0) + (flat[-2:] == HANG)
        cases.append(("enc_m2trace (m2_trace (m_adds %s empty, m_adds %s empty) %s)"
                      % (c_ps(ini[0]), c_ps(ini[1]), c_ops(ops, c_mop2, "mop2")), c_l(flat)))
        metas.append(("modict2", ini, ops, flat))
        ctx.case({"class": "modict2", "init": ini, "ops": ops},
                 nontrivial=any(o[0] in ("arb", "bra", "aub", "bua") for o in ops) and len(ops) >= 2, kind="modict2")
    # ---- oset
    MUT_OS = ("add", "discard", "remove", "pop", "clear", "ior", "iand", "isub", "ixor")
    os_inits = [[], [0], [2, 0, 1], [1, 3, 0, 2]]
    for ini, ops in sequences(ctx, os_alphabet(3), os_inits, lambda: gen_os_op(rng, 5), nr, 25):
        if hangs.get("oset", 0) >= MAX_HANGS:
            break
        flat = run_os(oset, ini, ops)
        hangs["oset"] = hangs.get("oset", 0) + (flat[-2:] == HANG)
        cases.append(("enc_strace (s_trace (s_of %s) %s)" % (c_l(ini), c_ops(ops, c_sop, "sop")), c_l(flat)))
        metas.append(("oset", ini, ops, flat))
        ctx.case({"class": "oset", "init": ini, "ops": ops}, nontrivial=mut(ops, MUT_OS), kind="oset")

    STATE["metas"] = metas
    if any(hangs.values()):
        ctx.extra["hung_histories"] = dict(hangs)
    bad = ctx.coq_cases(HEADER, "leqb", cases, shard=ctx.n(300, 400))
    ctx.extra["mismatches"] = len(bad)
    seen = set()
    for i in bad:
        nm, ini, ops, flat = metas[i]
        if nm in seen:
            continue
        seen.add(nm)
        ctx.tie_broken("correspondence", "C39 model vs %s" % nm,
                       "init=%r ops=%r impl_trace=%r" % (ini, ops, flat))
    STATE["bad"] = bad
    ctx.settle(lambda: search(ctx))


def shrink(viol, ini, ops):
    """greedy: cut after the failing step, then drop ops while a violation remains"""
    v = viol(ini, ops)
    ops = ops[:v["step"] + 1]
    changed = True
    while changed:
        changed = False
        for j in range(len(ops) - 1):
            cand = ops[:j] + ops[j + 1:]
            v2 = viol(ini, cand)
            if v2:
                ops, v, changed = cand[:v2["step"] + 1], v2, True
                break
    if ini and not isinstance(ini, tuple) and viol([], ops):
        ini, v = [], viol([], ops)
    return ini, ops, v


LODICT_CASE_OPS = ("pop", "popd", "insert", "create", "sift", "reorder")


def has_upper(op):
    """does the op carry an upper-case (odd code) key argument"""
    t = op[0]
    if t in ("create", "reorder"):
        return any(k % 2 for k, _ in op[1])
    if t == "sift":
        return op[1] is not None and any(k % 2 for k in op[1])
    if t == "insert":
        return op[2] % 2 == 1
    return len(op) > 1 and isinstance(op[1], int) and op[1] % 2 == 1


def family_key(nm, v):
    """finding key per defect family (one key per fix in fixes/C39-*.patch), so that an unaccepted fix can
    be listed as an open known finding without hiding the others; anything else gets a generic key"""
    op = v.get("op") or ("?",)
    if nm == "modict2":
        if v.get("aliasing"):
            return "modict-aliasing"           # an operation on one modict changed another one
        if op[0] in ("a", "b"):
            return family_key("modict", dict(v, op=op[1]))
        if list(v.get("impl_result") or []) == HANG:
            return "modict-hang"
        return "c39-modict2-%s" % op[0]
    t = op[0]
    got = v.get("impl_result") or []
    if list(got) == HANG:
        return "%s-hang" % nm               # a call into the implementation did not terminate
    raised_other = bool(got) and got[0] == 9 and got[1] >= 100      # exception class outside the model
    if nm in ("odict", "lodict"):
        if t == "ior":
            return "odict-ior"
        if t == "reversed":
            return "odict-reversed"
        if t == "reorderself":
            return "odict-reorder-self"
        if t == "popitem" and not op[1] and raised_other:
            return "modict-popitem"            # same fix: odict.popitem(last=...) parameter
    if nm == "lodict" and t in LODICT_CASE_OPS and has_upper(op):
        return "lodict-case"
    if nm == "modict":
        if t in ("popitem", "poplistitem"):
            return "modict-popitem"
        if t in ("getd", "getidx"):
            return "modict-get"
        if t == "update" and raised_other:
            return "modict-update"
        if t == "pickle":
            return "modict-pickle"
        if t == "sift":
            return "modict-sift"
        if t == "insert":
            return "modict-insert"
        if t in ("reorder", "reordero"):
            return "modict-reorder"
    return "c39-%s-%s" % (nm, t)


def search(ctx):
    """the implementation alone against executable reference models of the property statement.
    Findings are grouped by defect family; one that is NOT an open known finding is preferred, so an
    open known finding never hides another defect."""
    from ioflo.aid.odicting import odict, lodict, modict
    from ioflo.aid.osetting import oset
    viols = {
        "odict": lambda ini, ops: od_violation(odict, odict, ini, ops, lambda k: k),
        "lodict": lambda ini, ops: od_violation(lodict, odict, ini, ops, lambda k: k - k % 2),
        "modict": lambda ini, ops: mo_violation(modict, odict, ini, ops),
        "oset": lambda ini, ops: os_violation(oset, ini, ops),
        "modict2": lambda ini, ops: mo2_violation(modict, odict, ini, ops),
    }
    contradicts = {"odict": "C39.Props.odict_keys_inv_all_ops / odict correspondence (Model.step, a_step)",
                   "lodict": "C39.Props.lodict_case_insensitive / lodict correspondence (Model.lo_step)",
                   "modict": "C39 modict correspondence (Model.m_step: keeps every value, returns newest)",
                   "oset": "C39.Props.oset_ordered_set / oset correspondence (Model.s_step)",
                   "modict2": "C39.Props.modict_ops_never_change_another / two-modict correspondence (Model.m2_step)"}
    metas = STATE.get("metas")
    if metas is None:         # the run died before the correspondence: generate directly
        metas = []
        for nm, alpha in (("odict", od_alphabet(3)), ("lodict", od_alphabet(3)), ("modict", mo_alphabet(2)),
                          ("oset", os_alphabet(3))):
            inis = [[], [(0, 1), (0, 2), (2, 3)]] if nm != "oset" else [[], [2, 0, 1]]
            for ini in inis:
                for a in alpha:
                    metas.append((nm, ini, [a], None))
                    for b in alpha[:25]:
                        metas.append((nm, ini, [b, a], None))
        ini2 = ([(0, 1), (0, 2), (2, 3)], [(0, 7), (4, 8)])
        for a in MO2_ALPHABET:
            metas.append(("modict2", ini2, [a], None))
            for b in MO2_ALPHABET:
                metas.append(("modict2", ini2, [a, b], None))
    order = sorted(metas, key=lambda m: len(m[2]))          # shortest histories first
    found = {}                                               # key -> (nm, ini, ops)
    nh = {}
    for nm, ini, ops, _ in order:
        if nh.get(nm, 0) >= 4 * MAX_HANGS:
            ctx.extra["search_truncated_after_hangs"] = nm   # each hanging history costs a CPU second
            continue
        try:
            v = viols[nm](ini, ops)
        except Exception as ex:
            found.setdefault("c39-%s-crash" % nm, (nm, ini, ops, {"step": 0, "op": ops[0] if ops else None,
                                                                  "why": "reference/impl crashed: %r" % ex}))
            continue
        if v:
            nh[nm] = nh.get(nm, 0) + (list(v.get("impl_result") or []) == HANG)
            found.setdefault(family_key(nm, v), (nm, ini, ops, v))
    if not found:
        return None
    open_keys = set(f.get("key") for f in ctx.known() if f.get("status") == "open")
    unknown = [k for k in found if k not in open_keys]
    for k in found:
        if k in open_keys:
            ctx.known_finding(k)             # prints the KNOWN-FINDING line (once per key)
    ctx.extra["finding_keys"] = sorted(found)
    # a non-terminating call is reported first, then the shortest history
    key = min(unknown or list(found), key=lambda k: (not k.endswith("-hang"), len(found[k][2])))
    nm, ini, ops, v = found[key]
    if "crash" not in key:
        try:
            ini2, ops2, v2 = shrink(viols[nm], ini, ops)
            if family_key(nm, v2) == key:
                ini, ops, v = ini2, ops2, v2
        except Exception:
            pass
    return {"key": key, "class": nm,
            "init": ini if nm == "oset" else ({"a": [(K(k), x) for k, x in ini[0]], "b": [(K(k), x) for k, x in ini[1]]}
                                              if nm == "modict2" else [(K(k), x) for k, x in ini]),
            "ops": ops, "key_codes": "code 2i -> lower-case letter i, 2i+1 -> upper-case letter i",
            "detail": v, "all_finding_keys_this_run": sorted(found), "contradicts": contradicts[nm]}
