"""
Fail-closed Python-ast -> Gallina translator for small pure functions over python values
(used by C45 for Arbiter.FixTruth / Arbiter.GoodTruth and by C21 for Need.Check).

Target: the operations of coq/Lib/C45_PyVal.v.  Every argument and local is a `val`;
every function returns `res val`.  ANY construct outside the whitelist below raises
Untranslatable (the check then records ctx.tie_broken("translator", ...)).

Whitelist
  statements : docstring, `name = expr`, `return expr`, if/elif/else, try/except <Exc>: (one
               or more handlers naming a single known exception class; no else/finally)
  expressions: names (arguments / assigned locals), constants None True False int float str,
               a <op> b [<op> c ...] with op in == != < <= > >= and `is` against None/True/False,
               and / or / not, a + b, a - b, abs(x), float(x), min(a,b), max(a,b),
               isinstance(x, float)
Evaluation order, short-circuiting and the chained-comparison rule (middle operand
evaluated once, stop at the first false link) are preserved.
"""
import ast
from fractions import Fraction


class Untranslatable(Exception):
    pass


EXCS = {"TypeError", "ValueError", "NameError", "ZeroDivisionError", "KeyError", "AttributeError", "ResolveError"}
CMP = {ast.Lt: "py_lt", ast.LtE: "py_le", ast.Gt: "py_gt", ast.GtE: "py_ge"}   # val -> val -> res val
CMP_PURE = {ast.Eq: "py_eq", ast.NotEq: "py_ne"}                                 # val -> val -> val
CALL1 = {"abs": "py_abs", "float": "py_float"}
CALL2 = {"min": "py_min2", "max": "py_max2"}
BIN = {ast.Add: "py_add", ast.Sub: "py_sub"}


def cz(n):
    return "(%d)%%Z" % n


def const(v):
    if v is None:
        return "VNone"
    if v is True:
        return "(VBool true)"
    if v is False:
        return "(VBool false)"
    if isinstance(v, int):
        return "(VInt %s)" % cz(v)
    if isinstance(v, float):
        if v != v or v in (float("inf"), float("-inf")):
            raise Untranslatable("non-finite float constant")
        fr = Fraction(v)
        return "(VFlt (%d # %d))" % (fr.numerator, fr.denominator)
    if isinstance(v, str):
        return "(VStr [%s])" % "; ".join(cz(ord(c)) for c in v) if v else "(VStr [])"
    raise Untranslatable("constant %r" % (v,))


class FunTr(object):
    def __init__(self, fn, shares=()):
        self.fn = fn
        self.k = 0
        self.shares = set(shares)      # names whose Coq type is `share` (ordered field names)

    def fresh(self, base="t"):
        self.k += 1
        return "%s%d_" % (base, self.k)

    @staticmethod
    def var(name):
        return "v_" + name

    # ---- expressions: return (code, pure) ; pure: code : val ; impure: code : res val
    def atomize(self, parts, k):
        """parts: [(code, pure)], evaluated left to right; k(list of val codes) -> res-val code"""
        names, binds = [], []
        for code, pure in parts:
            if pure:
                names.append(code)
            else:
                x = self.fresh()
                binds.append((x, code))
                names.append(x)
        body = k(names)
        for x, code in reversed(binds):
            body = "(bind %s (fun %s => %s))" % (code, x, body)
        return body

    @staticmethod
    def as_res(code, pure):
        return "(Ok %s)" % code if pure else code

    def expr(self, e, env):
        if isinstance(e, ast.Name):
            if e.id not in env:
                raise Untranslatable("name %s not a parameter/local (NameError at run time)" % e.id)
            if e.id in self.shares:
                raise Untranslatable("share %s used as a value" % e.id)
            return self.var(e.id), True
        if isinstance(e, ast.Constant):
            return const(e.value), True
        if isinstance(e, ast.UnaryOp) and isinstance(e.op, ast.Not):
            c, p = self.expr(e.operand, env)
            if p:
                return "(py_not %s)" % c, True
            return self.atomize([(c, p)], lambda ns: "(Ok (py_not %s))" % ns[0]), False
        if isinstance(e, ast.BinOp) and type(e.op) in BIN:
            a = self.expr(e.left, env)
            b = self.expr(e.right, env)
            f = BIN[type(e.op)]
            return self.atomize([a, b], lambda ns: "(%s %s %s)" % (f, ns[0], ns[1])), False
        if isinstance(e, ast.BoolOp):
            return self.boolop(e, env)
        if isinstance(e, ast.Compare):
            return self.compare(e, env)
        if isinstance(e, ast.Call):
            if e.keywords or not isinstance(e.func, ast.Name):
                raise Untranslatable("call form " + ast.dump(e))
            fn = e.func.id
            if fn in CALL1 and len(e.args) == 1:
                a = self.expr(e.args[0], env)
                return self.atomize([a], lambda ns: "(%s %s)" % (CALL1[fn], ns[0])), False
            if fn in CALL2 and len(e.args) == 2:
                a = self.expr(e.args[0], env)
                b = self.expr(e.args[1], env)
                return self.atomize([a, b], lambda ns: "(%s %s %s)" % (CALL2[fn], ns[0], ns[1])), False
            if fn == "isinstance" and len(e.args) == 2 and isinstance(e.args[1], ast.Name) \
                    and e.args[1].id == "float":
                c, p = self.expr(e.args[0], env)
                if p:
                    return "(py_isinstance_float %s)" % c, True
                return self.atomize([(c, p)], lambda ns: "(Ok (py_isinstance_float %s))" % ns[0]), False
            raise Untranslatable("call to %s/%d" % (fn, len(e.args)))
        raise Untranslatable("expression " + ast.dump(e))

    def boolop(self, e, env):
        """a and b and c  /  a or b or c : python value semantics, lazy"""
        is_and = isinstance(e.op, ast.And)
        vals = [self.expr(v, env) for v in e.values]

        def build(i):
            code, pure = vals[i]
            if i == len(vals) - 1:
                return code, pure
            rest, rpure = build(i + 1)
            x = code if pure else self.fresh("b")
            if is_and:
                body_pure = "(if py_truthy %s then %s else %s)" % (x, rest, x)
                body_imp = "(if py_truthy %s then %s else (Ok %s))" % (x, self.as_res(rest, rpure), x)
            else:
                body_pure = "(if py_truthy %s then %s else %s)" % (x, x, rest)
                body_imp = "(if py_truthy %s then (Ok %s) else %s)" % (x, x, self.as_res(rest, rpure))
            if pure and rpure:
                return body_pure, True
            if pure:
                return body_imp, False
            return "(bind %s (fun %s => %s))" % (code, x, body_imp), False
        return build(0)

    def cmp1(self, op, a, b):
        """one comparison link on val codes a, b -> (code, pure)"""
        if isinstance(op, ast.Is):
            raise Untranslatable("internal: is handled by caller")
        if type(op) in CMP_PURE:
            return "(%s %s %s)" % (CMP_PURE[type(op)], a, b), True
        if type(op) in CMP:
            return "(%s %s %s)" % (CMP[type(op)], a, b), False
        raise Untranslatable("comparison operator " + type(op).__name__)

    def compare(self, e, env):
        ops, comps = e.ops, e.comparators
        if len(ops) == 1 and isinstance(ops[0], (ast.Is,)):
            r = comps[0]
            if not (isinstance(r, ast.Constant) and (r.value is None or r.value is True or r.value is False)):
                raise Untranslatable("`is` against a non-singleton")
            f = {None: "py_is_none", True: "py_is_true", False: "py_is_false"}[r.value]
            c, p = self.expr(e.left, env)
            if p:
                return "(%s %s)" % (f, c), True
            return self.atomize([(c, p)], lambda ns: "(Ok (%s %s))" % (f, ns[0])), False
        if len(ops) == 1 and isinstance(ops[0], (ast.In, ast.NotIn)) and isinstance(comps[0], ast.Name) \
                and comps[0].id in self.shares and comps[0].id in env:
            f = "py_in_share" if isinstance(ops[0], ast.In) else "py_not_in_share"
            c, p = self.expr(e.left, env)
            sh = self.var(comps[0].id)
            if p:
                return "(%s %s %s)" % (f, c, sh), True
            return self.atomize([(c, p)], lambda ns: "(Ok (%s %s %s))" % (f, ns[0], sh)), False
        if any(isinstance(o, (ast.Is, ast.IsNot, ast.In, ast.NotIn)) for o in ops):
            raise Untranslatable("is/in inside a comparison chain")
        operands = [self.expr(e.left, env)] + [self.expr(c, env) for c in comps]
        if len(ops) == 1:
            (a, b) = operands
            res = {}

            def k(ns):
                code, pure = self.cmp1(ops[0], ns[0], ns[1])
                res["pure"] = pure
                return code if not pure else "(Ok %s)" % code
            if a[1] and b[1]:
                return self.cmp1(ops[0], a[0], b[0])
            return self.atomize([a, b], k), False

        # chain: a op1 b op2 c ... : evaluate a, b; r = a op1 b; if not r: r else (evaluate c; b op2 c) ...
        def link(i, left_name):
            """left_name: val code of operand i (already evaluated); returns res-val code"""
            rc, rp = operands[i + 1]
            rname = rc if rp else self.fresh()
            code, pure = self.cmp1(ops[i], left_name, rname)
            code = self.as_res(code, pure)
            if i == len(ops) - 1:
                body = code
            else:
                r = self.fresh("c")
                body = "(bind %s (fun %s => if py_truthy %s then %s else (Ok %s)))" % (
                    code, r, r, link(i + 1, rname), r)
            if not rp:
                body = "(bind %s (fun %s => %s))" % (rc, rname, body)
            return body
        lc, lp = operands[0]
        lname = lc if lp else self.fresh()
        body = link(0, lname)
        if not lp:
            body = "(bind %s (fun %s => %s))" % (lc, lname, body)
        return body, False

    # ---- statements
    @staticmethod
    def assigned(stmts):
        out = []
        for s in stmts:
            if isinstance(s, ast.Assign):
                for t in s.targets:
                    if isinstance(t, ast.Name) and t.id not in out:
                        out.append(t.id)
            elif isinstance(s, ast.If):
                live = [b for b in (s.body, s.orelse) if not FunTr.raises(b)]   # a raising branch never joins
                for v in [x for b in live for x in FunTr.assigned(b)]:
                    if v not in out:
                        out.append(v)
            elif isinstance(s, ast.Try):
                for blk in [s.body] + [h.body for h in s.handlers]:
                    for v in FunTr.assigned(blk):
                        if v not in out:
                            out.append(v)
        return out

    @staticmethod
    def returns(stmts):
        """True iff every path through stmts ends in return"""
        for s in stmts:
            if isinstance(s, ast.Return):
                return True
            if isinstance(s, ast.If) and s.orelse and FunTr.returns(s.body) and FunTr.returns(s.orelse):
                return True
        return False

    @staticmethod
    def raises(stmts):
        """stmts = zero or more plain assignments (message construction, not modelled) then `raise`"""
        if not stmts or not isinstance(stmts[-1], ast.Raise):
            return False
        return all(isinstance(x, ast.Assign) and all(isinstance(t, ast.Name) for t in x.targets) for x in stmts[:-1])

    @staticmethod
    def raised(stmts):
        r = stmts[-1].exc
        f = r.func if isinstance(r, ast.Call) else r
        name = f.attr if isinstance(f, ast.Attribute) else (f.id if isinstance(f, ast.Name) else None)
        if name not in EXCS:
            raise Untranslatable("raise of %r" % name)
        return name

    @staticmethod
    def has_return(stmts):
        for s in stmts:
            for n in ast.walk(s):
                if isinstance(n, ast.Return):
                    return True
        return False

    def tuple_of(self, names, env):
        for n in names:
            if n not in env:
                raise Untranslatable("local %s may be unbound at a join point" % n)
        if len(names) == 1:
            return self.var(names[0])
        return "(" + ", ".join(self.var(n) for n in names) + ")"

    def pat_of(self, names):
        if len(names) == 1:
            return self.var(names[0])
        return "'(" + ", ".join(self.var(n) for n in names) + ")"

    def block(self, stmts, env, tail):
        """tail: None (block must return) or list of names whose tuple is the block's value"""
        if not stmts:
            if tail is None:
                raise Untranslatable("function may fall off its end (implicit None)")
            return "(Ok %s)" % self.tuple_of(tail, env)
        s, rest = stmts[0], stmts[1:]
        if isinstance(s, ast.Expr) and isinstance(s.value, ast.Constant) and isinstance(s.value.value, str):
            return self.block(rest, env, tail)          # docstring
        if isinstance(s, ast.Return):
            if tail is not None:
                raise Untranslatable("return inside a joined branch")
            if s.value is None:
                raise Untranslatable("bare return")
            c, p = self.expr(s.value, env)
            return self.as_res(c, p)
        if isinstance(s, ast.Assign):
            if len(s.targets) != 1 or not isinstance(s.targets[0], ast.Name):
                raise Untranslatable("assignment target")
            c, p = self.expr(s.value, env)
            x = s.targets[0].id
            env2 = env | {x}
            body = self.block(rest, env2, tail)
            if p:
                return "(let %s := %s in %s)" % (self.var(x), c, body)
            return "(bind %s (fun %s => %s))" % (c, self.var(x), body)
        if isinstance(s, ast.Raise) or self.raises(stmts):
            return "(Err %s)" % self.raised(stmts)
        if isinstance(s, ast.If):
            if isinstance(s.test, ast.Name) and s.test.id in self.shares and s.test.id in env:
                c, p = "(py_share_truthy %s)" % self.var(s.test.id), True       # `if share:` is len(share) > 0
            else:
                c, p = self.expr(s.test, env)
            t = c if p else self.fresh("c")

            def wrap(body):
                body = "(if py_truthy %s then %s else %s)" % (t, body[0], body[1])
                return body if p else "(bind %s (fun %s => %s))" % (c, t, body)
            # a branch that always raises has type res A for every A: it never reaches the join
            if self.raises(s.orelse) and not self.has_return(s.body):
                return wrap((self.block(s.body + rest, env, tail), "(Err %s)" % self.raised(s.orelse)))
            if self.raises(s.body) and not self.has_return(s.orelse):
                return wrap(("(Err %s)" % self.raised(s.body), self.block(s.orelse + rest, env, tail)))
            br, er = self.returns(s.body), self.returns(s.orelse)
            if br and er:
                if rest:
                    raise Untranslatable("dead code after if/else that always returns")
                if tail is not None:
                    raise Untranslatable("return inside a joined branch")
                return wrap((self.block(s.body, env, None), self.block(s.orelse, env, None)))
            if br and not self.has_return(s.orelse):
                if tail is not None:
                    raise Untranslatable("return inside a joined branch")
                return wrap((self.block(s.body, env, None), self.block(s.orelse + rest, env, None)))
            if er and not self.has_return(s.body):
                if tail is not None:
                    raise Untranslatable("return inside a joined branch")
                return wrap((self.block(s.body + rest, env, None), self.block(s.orelse, env, None)))
            if self.has_return(s.body) or self.has_return(s.orelse):
                raise Untranslatable("conditional return inside a branch that may fall through")
            vs = self.assigned(s.body) + [v for v in self.assigned(s.orelse) if v not in self.assigned(s.body)]
            if not vs:
                raise Untranslatable("if statement without effect")
            joined = wrap((self.block(s.body, env, vs), self.block(s.orelse, env, vs)))
            return "(bind %s (fun %s => %s))" % (joined, self.pat_of(vs), self.block(rest, env | set(vs), tail))
        if isinstance(s, ast.Try):
            if s.orelse or s.finalbody or not s.handlers:
                raise Untranslatable("try with else/finally")
            if self.has_return(s.body) or any(self.has_return(h.body) for h in s.handlers):
                raise Untranslatable("return inside try")
            vs = self.assigned(s.body)
            for h in s.handlers:
                vs += [v for v in self.assigned(h.body) if v not in vs]
            if not vs:
                raise Untranslatable("try statement without effect")
            code = self.block(s.body, env, vs)
            for h in s.handlers:
                if not (isinstance(h.type, ast.Name) and h.type.id in EXCS) or h.name:
                    raise Untranslatable("except clause " + ast.dump(h.type) if h.type else "bare except")
                code = "(catch %s %s %s)" % (h.type.id, code, self.block(h.body, env, vs))
            return "(bind %s (fun %s => %s))" % (code, self.pat_of(vs), self.block(rest, env | set(vs), tail))
        raise Untranslatable("statement " + type(s).__name__)

    def definition(self, coqname=None):
        fn = self.fn
        a = fn.args
        if a.vararg or a.kwarg or a.kwonlyargs or a.defaults or a.posonlyargs or a.kw_defaults:
            raise Untranslatable("signature of %s" % fn.name)
        names = [x.arg for x in a.args]
        env = set(names)
        body = self.block(list(fn.body), env, None)
        args = " ".join("(%s : %s)" % (self.var(n), "share" if n in self.shares else "val") for n in names)
        return "Definition %s %s : res val :=\n  %s.\n" % (coqname or fn.name, args, body)


def find_static(tree, cls, name):
    for node in tree.body:
        if isinstance(node, ast.ClassDef) and node.name == cls:
            found = [f for f in node.body if isinstance(f, ast.FunctionDef) and f.name == name]
            if len(found) != 1:
                raise Untranslatable("%s.%s: %d definitions" % (cls, name, len(found)))
            f = found[0]
            decs = [d.id for d in f.decorator_list if isinstance(d, ast.Name)]
            if decs != ["staticmethod"] or len(decs) != len(f.decorator_list):
                raise Untranslatable("%s.%s is not a plain @staticmethod" % (cls, name))
            return f
    raise Untranslatable("class %s not found" % cls)


def find_method(tree, cls, name):
    for node in tree.body:
        if isinstance(node, ast.ClassDef) and node.name == cls:
            found = [f for f in node.body if isinstance(f, ast.FunctionDef) and f.name == name]
            if len(found) != 1:
                raise Untranslatable("%s.%s: %d definitions" % (cls, name, len(found)))
            return found[0]
    raise Untranslatable("class %s not found" % cls)


def slice_function(method, var, params, shares, coqname):
    """The top-level statement `if not <var>: ...` of a method, as a function of `params` returning
    the final value of <var>.  Every parameter must be bound at that point of the method (an argument
    or assigned earlier at top level) -- otherwise the real code raises NameError there: fail closed."""
    idx = [i for i, st in enumerate(method.body)
           if isinstance(st, ast.If) and isinstance(st.test, ast.UnaryOp) and isinstance(st.test.op, ast.Not)
           and isinstance(st.test.operand, ast.Name) and st.test.operand.id == var]
    if len(idx) != 1:
        raise Untranslatable("%s: %d statements `if not %s:`" % (method.name, len(idx), var))
    bound = {a.arg for a in method.args.args}
    for st in method.body[:idx[0]]:
        if isinstance(st, ast.Assign):
            for t in st.targets:
                for n in ast.walk(t):
                    if isinstance(n, ast.Name):
                        bound.add(n.id)
    used = {n.id for n in ast.walk(method.body[idx[0]]) if isinstance(n, ast.Name) and isinstance(n.ctx, ast.Load)}
    for pname in params:
        if pname in used and pname not in bound:
            raise Untranslatable("%s: name %s is read but never bound in the method (NameError at run time)"
                                 % (method.name, pname))
    fn = ast.FunctionDef(name=coqname, args=ast.arguments(posonlyargs=[], args=[ast.arg(arg=x) for x in params],
                                                          vararg=None, kwonlyargs=[], kw_defaults=[], kwarg=None,
                                                          defaults=[]),
                         body=[method.body[idx[0]], ast.Return(value=ast.Name(id=var, ctx=ast.Load()))],
                         decorator_list=[])
    return FunTr(fn, shares=shares).definition(coqname)


HEADER = """(* GENERATED on every run by %s from %s -- do not edit *)
From Coq Require Import ZArith QArith List Bool.
Import ListNotations.
Require Import V.Lib.C45_PyVal.

"""


def translate_file(path, wanted, who):
    """wanted: [(class, function)] ; returns Coq text"""
    src = open(path).read()
    tree = ast.parse(src)
    out = [HEADER % (who, path)]
    for cls, name in wanted:
        out.append(FunTr(find_static(tree, cls, name)).definition())
        out.append("\n")
    return "".join(out)


def gen_arbiting(repo):
    import os
    return translate_file(os.path.join(repo, "ioflo", "base", "arbiting.py"),
                          [("Arbiter", "GoodTruth"), ("Arbiter", "FixTruth")],
                          "props/C45/translate.py")


if __name__ == "__main__":
    import sys
    print(gen_arbiting(sys.argv[1] if len(sys.argv) > 1 else "/repo"))
