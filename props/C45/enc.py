"""
Flat integer encoding of python values / cases for the Coq side of the correspondence
(shared by the C45, C21 and C20 checks).  A case is one `list Z`; the decoder below (plain
Gallina, part of every cases file) rebuilds the structured input.  This keeps coqc's
elaboration time per case small (numerals only).
"""
from fractions import Fraction


def e_q(x):
    fr = Fraction(x)
    return [fr.numerator, fr.denominator]


def e_val(v):
    if v is None:
        return [0]
    if v is True:
        return [1, 1]
    if v is False:
        return [1, 0]
    if isinstance(v, int):
        return [2, v]
    if isinstance(v, float):
        return [3] + e_q(v)
    if isinstance(v, str):
        return [4, len(v)] + [ord(c) for c in v]
    raise ValueError("no encoding for %r" % (v,))


EXCODE = {"TypeError": 1, "ValueError": 2, "NameError": 3, "ZeroDivisionError": 4, "KeyError": 5,
          "AttributeError": 6, "ResolveError": 7}


def e_exc(name):
    return EXCODE.get(name, 0)


def zlist(ns):
    return "([" + ";".join(str(int(n)) for n in ns) + "])%Z"


DECODE_COQ = """
Open Scope Z_scope.
Definition P (A : Type) := list Z -> option (A * list Z).
Definition pZ : P Z := fun l => match l with x :: r => Some (x, r) | [] => None end.
Definition pB : P bool := fun l => match l with x :: r => Some (negb (Z.eqb x 0), r) | [] => None end.
Definition pQ : P Q := fun l => match l with n :: d :: r => Some (Qmake n (Z.to_pos d), r) | _ => None end.
Definition pval : P val := fun l =>
  match l with
  | 0 :: r => Some (VNone, r)
  | 1 :: b :: r => Some (VBool (negb (Z.eqb b 0)), r)
  | 2 :: z :: r => Some (VInt z, r)
  | 3 :: n :: d :: r => Some (VFlt (Qmake n (Z.to_pos d)), r)
  | 4 :: n :: r => Some (VStr (firstn (Z.to_nat n) r), skipn (Z.to_nat n) r)
  | _ => None
  end.
Definition pexc : P exc := fun l =>
  match l with
  | 1 :: r => Some (TypeError, r) | 2 :: r => Some (ValueError, r) | 3 :: r => Some (NameError, r)
  | 4 :: r => Some (ZeroDivisionError, r) | 5 :: r => Some (KeyError, r)
  | 6 :: r => Some (AttributeError, r) | 7 :: r => Some (ResolveError, r)
  | _ :: r => Some (OtherError, r) | [] => None
  end.
Fixpoint prep {A : Type} (p : P A) (n : nat) : P (list A) := fun l =>
  match n with
  | O => Some ([], l)
  | S k => match p l with
           | Some (a, r) => match prep p k r with Some (xs, r') => Some (a :: xs, r') | None => None end
           | None => None
           end
  end.
Definition plist {A : Type} (p : P A) : P (list A) := fun l =>
  match l with n :: r => prep p (Z.to_nat n) r | [] => None end.
Definition pbind {A B : Type} (p : P A) (f : A -> P B) : P B := fun l =>
  match p l with Some (a, r) => f a r | None => None end.
Definition pret {A : Type} (a : A) : P A := fun l => Some (a, l).
Definition val_eqb (a b : val) : bool :=
  match a, b with
  | VNone, VNone => true
  | VBool x, VBool y => Bool.eqb x y
  | VInt x, VInt y => Z.eqb x y
  | VFlt x, VFlt y => Qeq_bool x y
  | VStr x, VStr y => str_eqb x y
  | _, _ => false
  end.
Close Scope Z_scope.
"""
