"""
C45 -- arbiters select outputs by their documented rules (ioflo/base/arbiting.py).

Tie T : Arbiter.FixTruth / Arbiter.GoodTruth are translated on every run (translate.py ->
        coq/gen/C45_Arbiting.v); theorems in coq/C45/Props.v are about the generated definitions.
Tie H : coq/C45/Model.v hand-models the four update() methods (ArbiterTrusted as FIXED);
        correspondence runs the real classes on a real Store and compares inside Coq.
"""
import itertools
import math
import os
import sys
from fractions import Fraction

from vlib import cz, clist, cbool

sys.path.insert(0, os.path.dirname(os.path.abspath(__file__)))
import translate  # noqa: E402
from enc import e_q, e_val, e_exc, zlist, DECODE_COQ  # noqa: E402

import time  # noqa: E402

LEVEL = "proof"

KINDS = ["switch", "priority", "trusted", "weighted"]


# ---------------------------------------------------------------------------------------
# python value -> Coq literal (type val)
def cq(fr):
    return "(%d # %d)" % (fr.numerator, fr.denominator)


def cval(v):
    if v is None:
        return "VNone"
    if v is True:
        return "(VBool true)"
    if v is False:
        return "(VBool false)"
    if isinstance(v, int):
        return "(VInt %s)" % cz(v)
    if isinstance(v, float):
        return "(VFlt %s)" % cq(Fraction(v))
    if isinstance(v, str):
        return "(VStr %s)" % clist([cz(ord(c)) for c in v], "Z")
    raise ValueError("no literal for %r" % (v,))


def canon(v):
    """JSON-able canonical form with the python type kept"""
    if isinstance(v, float):
        return ["float", v.hex()]
    if isinstance(v, bool) or v is None:
        return v
    if isinstance(v, int):
        return ["int", v]
    return v


EXC = {"TypeError": "TypeError", "ValueError": "ValueError", "NameError": "NameError",
       "ZeroDivisionError": "ZeroDivisionError", "KeyError": "KeyError",
       "AttributeError": "AttributeError"}


def cexc(name):
    return EXC.get(name, "OtherError")


# ---------------------------------------------------------------------------------------
# implementation side
def make_arbiter(kind, inputs, dv, dt):
    """inputs: list of dicts sel/truth/imp/value/nonempty (tag order).  returns the arbiter"""
    from ioflo.base import storing, arbiting
    from ioflo.aid.odicting import odict
    cls = {"switch": arbiting.ArbiterSwitch, "priority": arbiting.ArbiterPriority,
           "trusted": arbiting.ArbiterTrusted, "weighted": arbiting.ArbiterWeighted}[kind]
    store = storing.Store(stamp=0.0)
    ins = odict()
    for k, i in enumerate(inputs):
        ins["t%d" % k] = ("in.i%d" % k, i["sel"], i["imp"])
    arb = cls(name="arb", store=store, output="arb.out", group="arb.grp", inputs=ins)
    for k, i in enumerate(inputs):
        sh = store.fetchShare("in.i%d" % k)
        if i["nonempty"]:
            sh.value = i["value"]
        sh.truth = i["truth"]
    arb.default.value = dv
    arb.default.truth = dt
    return arb


def run_impl(kind, inputs, dv, dt):
    """('ok', value, truth) or ('err', classname)"""
    arb = make_arbiter(kind, inputs, dv, dt)
    try:
        arb.update()
    except Exception as ex:  # the property says: never raising
        return ("err", type(ex).__name__)
    return ("ok", arb.output.value, arb.output.truth)


def run_init(t):
    """Arbiter.__init__ on a pre-existing default share with truth t -> default.truth"""
    from ioflo.base import storing, arbiting
    from ioflo.aid.odicting import odict
    store = storing.Store(stamp=0.0)
    sh = store.create("arb.grp.default")
    sh.create(value=0.0)
    sh.truth = t
    try:
        arb = arbiting.ArbiterSwitch(name="arb", store=store, output="arb.out", group="arb.grp", inputs=odict())
    except Exception as ex:
        return ("err", type(ex).__name__)
    return ("ok", arb.default.truth)


# ---------------------------------------------------------------------------------------
# the property's statement, executable, independent of the code (used by search only)
def fix_ref(t):
    if t is None or t is True:
        return Fraction(1)
    if t is False:
        return Fraction(0)
    return min(Fraction(1), max(Fraction(0), Fraction(t)))


def truthy(v):
    return bool(v)


def spec(kind, inputs, dv, dt):
    """expected (value, truth) per the property text; truth as Fraction/None/bool; for weighted the
    value is a Fraction.  Inputs' truths are None/bool/number (caller guarantees)."""
    D = (dv, Fraction(dt))
    sel = [i for i in inputs if truthy(i["sel"])]
    if kind == "switch":
        return (sel[0]["value"], sel[0]["truth"]) if sel else D
    suff = [i for i in sel if fix_ref(i["truth"]) > Fraction(dt)]
    if kind == "priority":
        q = [i for i in suff if Fraction(i["imp"]) > 0]
        if not q:
            return D
        m = max(Fraction(i["imp"]) for i in q)
        w = [i for i in q if Fraction(i["imp"]) == m][0]
        return (w["value"], fix_ref(w["truth"])) if w["nonempty"] else D
    if kind == "trusted":
        if not suff:
            return D
        key = max((fix_ref(i["truth"]), Fraction(i["imp"])) for i in suff)
        w = [i for i in suff if (fix_ref(i["truth"]), Fraction(i["imp"])) == key][0]
        return (w["value"], fix_ref(w["truth"])) if w["nonempty"] else D
    # weighted
    for i in sel:
        if isinstance(i["value"], str) or i["value"] is None:
            return D
    wi = sum((Fraction(i["imp"]) for i in sel), Fraction(0))
    wc = sum((Fraction(i["imp"]) * fix_ref(i["truth"]) for i in sel), Fraction(0))
    wv = sum((Fraction(i["imp"]) * fix_ref(i["truth"]) * Fraction(i["value"]) for i in sel), Fraction(0))
    if wc == 0 or wi == 0:
        return D
    if wc / wi > Fraction(dt):
        return (wv / wc, wc / wi)
    return D


def same_num(a, b):
    """a: implementation value; b: expected (Fraction or python value)"""
    if isinstance(b, Fraction):
        if isinstance(a, bool) or not isinstance(a, (int, float)):
            return False
        if Fraction(a) == b:
            return True
        return isinstance(a, float) and a == b.numerator / b.denominator   # correctly rounded quotient
    return type(a) is type(b) and a == b


def holds(kind, inputs, dv, dt, obs):
    if obs[0] == "err":
        return "update() raised %s" % obs[1]
    ev, et = spec(kind, inputs, dv, dt)
    if not same_num(obs[1], ev):
        return "output value %r, expected %r" % (obs[1], ev)
    if not same_num(obs[2], et):
        return "output truth %r, expected %r" % (obs[2], et)
    return None


# ---------------------------------------------------------------------------------------
# flat encodings (decoded inside Coq, see enc.DECODE_COQ and HEADER)
def e_input(i):
    return (e_val(i["sel"]) + e_val(i["truth"]) + e_q(i["imp"]) +
            e_val(i["value"] if i["nonempty"] else None) + [1 if i["nonempty"] else 0])


def e_cv(v, ranged):
    if ranged and isinstance(v, float):
        lo, hi = math.nextafter(v, -math.inf), math.nextafter(v, math.inf)
        f = Fraction(v)
        return [1] + e_q((Fraction(lo) + f) / 2) + e_q((f + Fraction(hi)) / 2)
    return [0] + e_val(v)


def e_obs(obs, ranged):
    if obs[0] == "err":
        return [0, e_exc(obs[1])]
    return [1] + e_cv(obs[1], ranged) + e_cv(obs[2], ranged)


def e_rv(tag, arg, res):
    """translator-validation case: function tag, argument, ('ok', v) | ('err', cls)"""
    return [tag] + e_val(arg) + ([1] + e_val(res[1]) if res[0] == "ok" else [0, e_exc(res[1])])


HEADER = """From Coq Require Import ZArith QArith List Bool.
Import ListNotations.
Require Import V.Lib.C45_PyVal V.gen.C45_Arbiting V.C45.Model.
""" + DECODE_COQ + """
(* implementation-side value: exact, or (for a float that came out of a division) the interval of
   rationals whose nearest binary64 is the observed float *)
Inductive cv := CV (v : val) | CR (lo hi : Q).
Definition cv_eqb (m : val) (i : cv) : bool :=
  match m, i with
  | a, CV b => val_eqb a b
  | VFlt q, CR lo hi => Qle_bool lo q && Qle_bool q hi
  | _, _ => false
  end.
Definition pinput : P input :=
  pbind pval (fun s => pbind pval (fun t => pbind pQ (fun i => pbind pval (fun v => pbind pB (fun n =>
    pret {| sel := s; truth := t; imp := i; value := v; nonempty := n |}))))).
Definition pcv : P cv := fun l =>
  match l with
  | 0%Z :: r => pbind pval (fun v => pret (CV v)) r
  | 1%Z :: r => pbind pQ (fun lo => pbind pQ (fun hi => pret (CR lo hi))) r
  | _ => None
  end.
Definition pobs : P (res (cv * cv)) := fun l =>
  match l with
  | 0%Z :: r => pbind pexc (fun e => pret (Err e)) r
  | 1%Z :: r => pbind pcv (fun a => pbind pcv (fun b => pret (Ok (a, b)))) r
  | _ => None
  end.
Definition r_eqb (m : res out) (i : res (cv * cv)) : bool :=
  match m, i with
  | Ok (a, b), Ok (c, d) => cv_eqb a c && cv_eqb b d
  | Err x, Err y => exc_eqb x y
  | _, _ => false
  end.
(* one case: inputs, default value, default truth, then the four observed results *)
Definition chk (l : list Z) : bool :=
  match pbind (plist pinput) (fun ins => pbind pval (fun dv => pbind pQ (fun dt =>
        pbind pobs (fun o1 => pbind pobs (fun o2 => pbind pobs (fun o3 => pbind pobs (fun o4 =>
        pret (r_eqb (switch ins dv dt) o1 && r_eqb (priority ins dv dt) o2 &&
              r_eqb (trusted ins dv dt) o3 && r_eqb (weighted ins dv dt) o4)))))))) l with
  | Some (b, []) => b
  | _ => false
  end.
(* translator validation: tag 0 FixTruth, 1 GoodTruth, 2 Arbiter.__init__ default truth *)
Definition prv : P (res val) := fun l =>
  match l with
  | 0%Z :: r => pbind pexc (fun e => pret (Err e)) r
  | 1%Z :: r => pbind pval (fun v => pret (Ok v)) r
  | _ => None
  end.
Definition rv_eqb (m i : res val) : bool :=
  match m, i with Ok a, Ok b => val_eqb a b | Err x, Err y => exc_eqb x y | _, _ => false end.
Definition chk_tv (l : list Z) : bool :=
  match l with
  | tag :: r =>
      match pbind pval (fun a => pbind prv (fun o => pret (a, o))) r with
      | Some ((a, o), []) =>
          rv_eqb (if Z.eqb tag 0 then FixTruth a else if Z.eqb tag 1 then GoodTruth a
                  else init_default_truth a) o
      | _ => false
      end
  | [] => false
  end.
"""


def gen(ctx):
    """regenerate coq/gen/C45_Arbiting.v from ctx.repo; False (and a broken tie) if untranslatable"""
    try:
        text = translate.gen_arbiting(ctx.repo)
    except (translate.Untranslatable, SyntaxError, OSError) as ex:
        ctx.tie_broken("translator", "arbiting.py FixTruth/GoodTruth", repr(ex))
        return False
    ctx.write_gen("C45_Arbiting.v", text)
    return True


SELS = [True, False, None, 0, 1, "", "x", 0.5]
TRUTHS = [None, True, False, -0.5, 0.0, 0.25, 0.5, 1.0, 1.5, 0, 1, 2]
IMPS = [0.0, 0.25, 0.5, 0.75, 1.0, 2, -0.5]
VALUES = [3, -2, 0.5, 4.0, 1.25, None, "s", True]
DTS = [0.0, 0.25, 0.5, 1.0]


def mk(sel, truth, imp, value, nonempty=True):
    return {"sel": sel, "truth": truth, "imp": imp, "value": value, "nonempty": nonempty}


def gen_cases(ctx):
    out = []
    # 1. exhaustive small scope: <= 2 inputs over a reduced grid (ties in truth and importance present)
    s1, t1, i1 = [True, False], [None, False, 0.25, 0.5, 1.5], [0.0, 0.5, 1.0]
    for n in (0, 1, 2, 3):
        grid = list(itertools.product(s1, t1, i1)) if n < 3 else \
            list(itertools.product([True, False], [None, 0.5], [0.5, 1.0]))
        for combo in itertools.product(grid, repeat=n):
            ins = [mk(s, t, i, 3 + 2 * k) for k, (s, t, i) in enumerate(combo)]
            for dt in ((0.0, 0.25) if n < 3 else (0.25,)):
                out.append((ins, 7, dt, "exh%d" % n))
    # 2. seeded random, up to 4 inputs over the full value sets
    rng = ctx.rng
    for _ in range(ctx.n(1500, 20000)):
        n = rng.randint(1, 4)
        ins = []
        for k in range(n):
            ne = rng.random() > 0.05
            ins.append(mk(rng.choice(SELS), rng.choice(TRUTHS), rng.choice(IMPS),
                          rng.choice(VALUES) if ne else None, ne))
        out.append((ins, rng.choice([7, -1.5, None, "d"]), rng.choice(DTS), "rnd%d" % n))
    # 3. malformed stream: string truths (outside the property's domain; errors are mirrored)
    for _ in range(ctx.n(150, 1500)):
        n = rng.randint(1, 3)
        ins = [mk(rng.choice(SELS), rng.choice(TRUTHS + ["a", ""]), rng.choice(IMPS), rng.choice(VALUES))
               for k in range(n)]
        ins[rng.randrange(n)]["truth"] = rng.choice(["a", "", "0.5"])
        out.append((ins, 7, rng.choice(DTS), "strtruth"))
    return out


def nontrivial(ins):
    sel = [i for i in ins if i["sel"]]
    return len(sel) >= 2


def mute():
    from ioflo.aid import consoling
    consoling.getConsole().reinit(verbosity=consoling.Console.Wordage.mute)


def run(ctx):
    mute()
    ctx.rule = ("inputs = lists of (selection, truth, importance, value, has-fields) run through the real "
                "ArbiterSwitch/Priority/Trusted/Weighted.update on a real Store and through the Coq model; "
                "exhaustive for <=2 inputs over {sel}x{5 truths}x{3 importances} and 3 inputs over a reduced grid, "
                "seeded random up to 4 inputs over 8 selections x 12 truths x 7 importances x 8 values, plus a "
                "string-truth stream; non-trivial = at least two selected inputs; plus FixTruth/GoodTruth/__init__ "
                "translator validation on a value grid")
    ctx.assumptions = [
        "floats are modelled as exact rationals: nan/inf, overflow and binary64 rounding are outside the theorems; "
        "the correspondence uses dyadic values on which sums and products are exact, and a weighted quotient is "
        "accepted iff the observed float is a nearest binary64 of the model's rational",
        "importances are numbers (int/float); truths None/bool/number for the theorems (string truths only sampled)",
        "each input's len()>0 flag is part of the input (python `if inputmax:` tests Share.__len__)",
        "Store/Share plumbing (create/fetch, stamps, console output) is not modelled",
    ]
    t0 = time.time()
    ok = gen(ctx)
    if ok:
        ctx.coq_build("C45/Props.v")
    else:
        ctx.obligations += 1
    ctx.extra["phase_s"] = {"proofs": round(time.time() - t0, 1)}
    t0 = time.time()

    metas = []
    if ok:
        # translator validation of FixTruth / GoodTruth / __init__
        from ioflo.base import arbiting
        grid = [None, True, False, 0, 1, 2, -1, 0.0, 1.0, -0.0, 0.5, 0.25, 1.5, -0.5, 1e-3, 3.75, 100, "a", "", "0.5"]
        grid += [ctx.rng.randint(-3, 3) for _ in range(20)] + [ctx.rng.randint(-16, 24) / 8.0 for _ in range(60)]
        tv, tvm = [], []
        for t in grid:
            for tag, fn, nm in ((0, arbiting.Arbiter.FixTruth, "FixTruth"), (1, arbiting.Arbiter.GoodTruth, "GoodTruth"),
                                (2, None, "init")):
                if fn is None:
                    r = run_init(t)
                else:
                    try:
                        r = ("ok", fn(t))
                    except Exception as ex:
                        r = ("err", type(ex).__name__)
                tv.append(("(chk_tv %s)" % zlist(e_rv(tag, t, r)), "true"))
                tvm.append((nm, t, r))
                ctx.case({"fn": nm, "arg": canon(t), "res": [canon(x) for x in r]},
                         nontrivial=not isinstance(t, str), kind=nm)
        bad = ctx.coq_cases(HEADER, "Bool.eqb", tv, name="tv")
        for i in bad[:5]:
            ctx.tie_broken("correspondence", "generated FixTruth/GoodTruth/init vs implementation",
                           "function %s argument %r implementation %r" % tvm[i])

    cases = []
    for ins, dv, dt, kind in gen_cases(ctx):
        obs = [run_impl(k, ins, dv, dt) for k in KINDS]
        metas.append((ins, dv, dt, obs))
        ctx.case({"inputs": [[canon(i["sel"]), canon(i["truth"]), canon(i["imp"]), canon(i["value"]), i["nonempty"]]
                             for i in ins], "default": [canon(dv), dt],
                  "obs": [[canon(x) for x in o] for o in obs]},
                 nontrivial=nontrivial(ins), kind=kind)
        enc = [len(ins)]
        for i in ins:
            enc += e_input(i)
        enc += e_val(dv) + e_q(dt) + e_obs(obs[0], False) + e_obs(obs[1], False) + e_obs(obs[2], False) + \
            e_obs(obs[3], True)
        cases.append(("(chk %s)" % zlist(enc), "true"))
    ctx.extra["phase_s"]["implementation_runs"] = round(time.time() - t0, 1)
    t0 = time.time()
    if ok:
        bad = ctx.coq_cases(HEADER, "Bool.eqb", cases)
        ctx.extra["phase_s"]["coq_cases"] = round(time.time() - t0, 1)
        ctx.extra["mismatches"] = len(bad)
        for i in bad[:5]:
            ins, dv, dt, obs = metas[i]
            ctx.tie_broken("correspondence", "C45 model vs Arbiter*.update",
                           "inputs=%r default=%r obs(switch,priority,trusted,weighted)=%r" % (ins, (dv, dt), obs))
    ctx.exhaustive = False

    def search():
        return find_failing(ctx, metas)

    ctx.settle(search)


def find_failing(ctx, metas):
    """the implementation alone against the property's executable statement"""
    from ioflo.base import arbiting
    # FixTruth: None/bool/number -> float in [0,1] equal to the clamp
    for t in [None, True, False, 0, 1, 2, -1, 0.0, 1.0, 0.5, 0.25, 1.5, -0.5]:
        try:
            r = arbiting.Arbiter.FixTruth(t)
            okv = isinstance(r, float) and Fraction(r) == fix_ref(t)
        except Exception as ex:
            r, okv = type(ex).__name__, False
        if not okv:
            return {"key": "fixtruth", "function": "Arbiter.FixTruth", "truth": canon(t), "observed": canon(r),
                    "expected": str(fix_ref(t)), "contradicts": "C45.Props.fixtruth_value"}
    best = None
    extra = []
    # directed ties (the classic hole) in addition to everything already run
    for a, b in itertools.product([0.25, 0.5, 1.0], repeat=2):
        ins = [mk(True, 0.5, a, 1), mk(True, 0.5, b, 2)]
        extra.append((ins, 7, 0.25, [run_impl(k, ins, 7, 0.25) for k in KINDS]))
    for ins, dv, dt, obs in extra + metas:
        if any(isinstance(i["truth"], str) for i in ins):
            continue
        for k, o in zip(KINDS, obs):
            why = holds(k, ins, dv, dt, o)
            if why and (best is None or len(ins) < len(best["inputs"])):
                key = "trusted-tie-nameerror" if (k == "trusted" and o == ("err", "NameError")) else "arbiter-" + k
                best = {"key": key, "arbiter": k,
                        "inputs": [{x: canon(y) if x != "nonempty" else y for x, y in i.items()} for i in ins],
                        "default": [canon(dv), dt], "observed": [canon(x) for x in o], "why": why,
                        "contradicts": {"switch": "C45.Props.switch_first_selected",
                                        "priority": "C45.Props.priority_first_most_important",
                                        "trusted": "C45.Props.trusted_highest_truth_then_importance / trusted_total",
                                        "weighted": "C45.Props.weighted_average"}[k]}
    return best


def search(ctx):
    """fallback used by lib/main.py when run() itself crashed: implementation-only search"""
    mute()
    metas = []
    for ins, dv, dt, _ in gen_cases(ctx)[:2000]:
        metas.append((ins, dv, dt, [run_impl(k, ins, dv, dt) for k in KINDS]))
    return find_failing(ctx, metas)
