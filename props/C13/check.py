"""
C13 -- relative store addressing is invariant under consistent renaming.

Tie H: coq/C13/Model.v is a hand model of Act.resolvePath (ioflo/base/acting.py), generic in the
       segment type; instance N = strings (what Python does), instance seg = tagged provenance.
Theorems (coq/C13/Props.v): resolve_equivariant, resolve_factorises, resolve_error_independent,
       absolute_independent, resolve_commutes  -- all contexts, all paths, all namings.
Correspondence:
  (a) model vs the real Act.resolvePath on the live Acts of houses built by the real Builder from
      generated FloScript programs (every reference style), incl. randomly re-inoded houses;
  (b) the property's own statement on the real Builder: program P and P with ONE name renamed
      (every single renaming) must yield store share/node names that differ exactly by that renaming.
"""
import json
import re

import harness as H
import translate
from vlib import clist, cbool

LEVEL = "proof"
FOUND = []
STATE = {}


def ref_expr(I, names, c, written, rel, finodes=None):
    return "(resolve_str %s %s (indirect_parts %s %s))" % (
        c_names(I, c["names"]), c_ctx(I, c, finodes), c_parts(I, written.split(".")), H.c_relation(I, names, rel))


def ref_cases(ctx, I, spec, names, builder, text, rcases, rmetas):
    refs = H.put_refs(spec)
    finodes = H.spec_framer_inodes(I, spec, names)     # framer inodes as the SCRIPT prescribes them
    for marker, lst in sorted(H.all_destinations(builder, names).items()):
        if marker not in refs:
            continue
        written, rel = refs[marker]
        for act, dest in lst:
            c = H.extract_ctx(act)
            if c is None:
                continue
            if marker.startswith("from:"):
                c = dict(c, act_inode=None)     # prerefs are resolved before the act has an inode
            ctx.case({"reference": written, "relation": rel, "framer": c["names"]["framer"], "share": dest},
                     nontrivial=rel is not None or not written.startswith("."), kind="reference")
            rcases.append((ref_expr(I, names, c, written, rel, finodes), "(Ok %s)" % c_parts(I, dest.split("."))))
            rmetas.append({"program": text, "marker": marker, "written": written, "relation": rel,
                           "framer": c["names"]["framer"], "share": dest, "spec": spec, "names": names})


def c_parts(I, ps):
    return clist([str(I(p)) for p in ps], "N")


def c_ctx(I, c, finodes=None):
    """finodes: live framer name -> Coq expression of the inode the SCRIPT prescribes (harness.spec_framer_inodes);
    when given it replaces the inode read from the live framer objects"""
    ai = "None" if c["act_inode"] is None else "(Some %s)" % c_parts(I, c["act_inode"])
    overs = clist([c_parts(I, o) for o in c["overs"]], "(list N)")
    chain = c.get("framer_chain", [])

    def fin(k, live):
        if finodes is not None and k < len(chain) and chain[k] in finodes:
            return finodes[chain[k]]
        return c_parts(I, live)
    levels = clist(["(%s, %s)" % (clist([c_parts(I, o) for o in ch], "(list N)"), fin(k + 1, mi))
                    for k, (ch, mi) in enumerate(c["levels"])], "(list (list N) * list N)")
    return "(mkctx %s %s %s %s %s %s %s)" % (cbool(c["has_main"]), cbool(c["actor_ok"]), ai,
                                             c_parts(I, c["frame_inode"]), overs, fin(0, c["framer_inode"]), levels)


def c_names(I, n):
    return "(mknames %d %d %d %d %s)" % (I(n["framer"]), I(n["mainframer"]), I(n["frame"]), I(n["mainframe"]),
                                         c_parts(I, n["actor"]))


def reinode(rng, builder):
    """assign random inodes to every framer, frame and ioinit act of a built house"""
    for house in builder.houses:
        for framer in house.framers:
            framer.inode = rng.choice(H.INODES)
            for fr in framer.frameNames.values():
                fr.inode = rng.choice(H.INODES)
    for act in H.all_acts(builder):
        r = rng.random()
        if r < 0.4:
            act.inode = rng.choice(H.INODES)
        elif r < 0.6:
            act.inode = None


def gen(ctx):
    """T-tie: regenerate coq/gen/NameToPath.v from ioflo/aid/aiding.py nameToPath (fail-closed)"""
    try:
        text = translate.render(translate.extract(ctx.repo))
    except translate.Untranslatable as ex:
        ctx.tie_broken("translator", "props/C13/translate.py (nameToPath)", str(ex))
        return None
    ctx.write_gen("NameToPath.v", text)
    return text


def name_cases(ctx):
    """the real aiding.nameToPath, the harness reference rule and the Coq models on names with runs of
    capitals, digits, underscores: exhaustive over a 6 letter alphabet up to length 4 + random longer"""
    import itertools
    from ioflo.aid.aiding import nameToPath
    names = []
    for n in range(0, ctx.n(4, 5)):
        names += ["".join(t) for t in itertools.product("ABcd1_", repeat=n)]
    for _ in range(ctx.n(300, 3000)):
        names.append("".join(ctx.rng.choice("ABCXYZabcxyz019_") for _ in range(ctx.rng.randint(1, 12))))
    codes = lambda s_: "[" + "; ".join(str(ord(c)) for c in s_) + "]" if s_ else "(@nil N)"
    cases, metas = [], []
    for nm in names:
        real = nameToPath(nm)
        ref = H.ref_actor_parts(nm)
        ctx.case({"name": nm, "path": real}, nontrivial=any(c.isupper() for c in nm), kind="nameToPath")
        cases.append(("(ref_name_to_path %s, actor_parts_of (ref_name_to_path %s))" % (codes(nm), codes(nm)),
                      "(%s, [%s])" % (codes(real), "; ".join(codes(p_) for p_ in ref))))
        metas.append((nm, real, ref))
    hdr = ("From Coq Require Import List NArith Bool.\nImport ListNotations.\nRequire Import V.C13.NameModel.\n"
           "Open Scope N_scope.\n"
           "Fixpoint l_eqb (a b : list N) := match a, b with [], [] => true | x::a', y::b' => N.eqb x y && l_eqb a' b' "
           "| _, _ => false end.\n"
           "Fixpoint ll_eqb (a b : list (list N)) := match a, b with [], [] => true | x::a', y::b' => l_eqb x y && "
           "ll_eqb a' b' | _, _ => false end.\n"
           "Definition n_eqb (a b : list N * list (list N)) := l_eqb (fst a) (fst b) && ll_eqb (snd a) (snd b).\n")
    bad = ctx.coq_cases(hdr, "n_eqb", cases, name="names")
    for i in bad[:5]:
        ctx.tie_broken("correspondence", "nameToPath: documented rule (Coq) vs aiding.nameToPath / harness reference",
                       "name=%r real=%r reference parts=%r" % metas[i])
    ctx.extra["nameToPath_mismatches"] = len(bad)


def run(ctx):
    H.quiet()
    ctx.rule = ("(a) contexts = live Acts of houses built by the real Builder from generated FloScript programs "
                "(3 framers, aux clones two deep, nested frames, `via` inodes of every shape on framers/frames/aux/do, "
                "references: absolute, root, me, of me/framer/frame/actor with me/main/explicit names, inline), also "
                "after randomly re-assigning inodes; each context x 25 probe paths: real Act.resolvePath (path "
                "handed to the store, or ResolveError/IndexError) vs the Coq model by vm_compute. "
                "(b) every program paired with every single renaming of one of its 12 names: store names must differ "
                "exactly by the renaming. non-trivial = relative path with at least one non-empty inode or a "
                "me/main substitution")
    ctx.assumptions = [
        "inode/path strings enter the model as their part lists s.rstrip('.').split('.') (computed by the harness)",
        "the over-frame chain and the aux main chain are finite (lists); a cyclic aux/over graph is out of scope",
        "names are not one of '' framer me main frame actor (hypothesis of the theorems; FloScript reserves them)",
        "Store.create/createNode are observed (wrapped), not modelled",
    ]
    gen(ctx)
    ctx.coq_build("C13/Props.v")
    name_cases(ctx)

    rng = ctx.rng
    cases, metas, seen = [], [], set()
    rcases, rmetas = [], []      # (c) written reference -> share, via RelModel + resolve model
    nprog = ctx.n(10, 150)
    nren = 0
    I = H.Interner()

    def add_cases(builder, acts_n, probes):
        acts = list(H.all_acts(builder))
        rng.shuffle(acts)
        for act in acts[:acts_n]:
            c = H.extract_ctx(act)
            if c is None:
                continue
            for p in probes:
                key = json.dumps([c, p], sort_keys=True)
                if key in seen:
                    continue
                seen.add(key)
                r = H.probe(act, p)
                if r[0] == "ok":
                    if r[2] == "":
                        continue
                    exp = "(Ok %s)" % c_parts(I, r[2].split("."))
                elif r[0] == "ResolveError":
                    exp = "ErrResolve"
                elif r[0] == "IndexError":
                    exp = "ErrIndex"
                else:
                    ctx.tie_broken("correspondence", "resolvePath raised an unmodelled exception",
                                   "ctx=%r ipath=%r got=%r" % (c, p, r))
                    continue
                nontriv = (not p.startswith(".")) and (bool(c["framer_inode"]) or bool(c["frame_inode"])
                                                       or any(c["overs"]) or "me" in p or "main" in p)
                ctx.case({"ctx": c, "ipath": p, "result": r}, nontrivial=nontriv, kind="resolve:" + r[0])
                cases.append(("(resolve_str %s %s %s)" % (c_names(I, c["names"]), c_ctx(I, c),
                                                          c_parts(I, H.parts_of(p) if False else (p.split(".") if p else []))),
                              exp))
                metas.append((c, p, r))

    for pi in range(nprog):
        spec, names = H.gen_program(rng)
        text = H.render(spec, names)
        ok, b = H.build(text, ctx.work, "p%d" % pi)
        base = H.share_names(b) if ok else None
        ctx.case({"program": pi, "built": ok}, nontrivial=ok, kind="build:" + ("ok" if ok else "rejected"))
        # (b) every single renaming
        for ent in sorted(names):
            if ent.startswith("K"):
                continue       # actor names map to several segments: covered by the reference oracle (c)
            new = "nova"
            n2 = dict(names)
            n2[ent] = new
            ok2, b2 = H.build(H.render(spec, n2), ctx.work, "p%dr" % pi)
            nren += 1
            if ok2 != ok:
                FOUND.append({"program": text, "rename": [names[ent], new], "why": "built %r vs renamed built %r (%s)"
                              % (ok, ok2, b2 if not ok2 else b)})
                continue
            if not ok:
                continue
            got = H.share_names(b2)
            want = set(H.rename_path(s, names[ent], new) for s in base)
            ctx.case({"program": pi, "rename": ent, "n": len(got)}, nontrivial=got != base, kind="rename")
            if got != want:
                FOUND.append({"program": text, "rename": [names[ent], new],
                              "only_after_renaming": sorted(got - want)[:10],
                              "expected_but_missing": sorted(want - got)[:10],
                              "why": "store names after renaming are not the renamed store names"})
        # (c) every `put` reference: parseIndirect/parseRelation model + resolvePath model vs the share
        #     the real Builder created (clones included)
        if ok:
            ref_cases(ctx, I, spec, names, b, text, rcases, rmetas)
        # (a) model vs real resolvePath on the live acts
        if ok:
            add_cases(b, ctx.n(6, 12), H.PROBES)
            for _ in range(ctx.n(2, 4)):
                reinode(rng, b)
                add_cases(b, ctx.n(6, 12), rng.sample(H.PROBES, 12))
    ctx.extra["programs"] = nprog
    ctx.extra["renamings_built"] = nren
    for f in FOUND[:3]:
        ctx.tie_broken("correspondence", "renaming metamorphosis on the real Builder", json.dumps(f)[:1500])

    header = ("From Coq Require Import List NArith Bool.\nImport ListNotations.\n"
              "Require Import V.C13.Model.\nOpen Scope N_scope.\n"
              "Fixpoint l_eqb (a b : list N) := match a, b with [], [] => true | x::a', y::b' => N.eqb x y && l_eqb a' b' "
              "| _, _ => false end.\n"
              "(* model ErrIndex = incomplete path (framer/frame/actor without a name part): the real method raised "
              "IndexError before fix C14-incomplete-relative-path and raises ResolveError after it; both accepted *)\n"
              "Definition r_eqb (a b : res (list N)) := match a, b with Ok x, Ok y => l_eqb x y | ErrResolve, ErrResolve "
              "=> true | ErrIndex, ErrIndex => true | ErrIndex, ErrResolve => true | _, _ => false end.\n")
    bad = ctx.coq_cases(header, "r_eqb", cases)
    for i in bad[:5]:
        c, p, r = metas[i]
        ctx.tie_broken("correspondence", "C13 model vs Act.resolvePath", "ctx=%r ipath=%r impl=%r" % (c, p, r))
    ctx.extra["mismatches"] = len(bad)
    rheader = header.replace("Require Import V.C13.Model.", "Require Import V.C13.Model V.C13.RelModel.") + (
        "Definition norm (r : res (list N)) := match r with Ok (0 :: l) => Ok l | x => x end.\n"
        "Definition rn_eqb (a b : res (list N)) := r_eqb (norm a) (norm b).\n")
    rbad = ctx.coq_cases(rheader, "rn_eqb", rcases, name="refs")
    for i in rbad[:5]:
        ctx.tie_broken("correspondence", "C13 relation+resolve model vs share created by the Builder",
                       json.dumps({k: v for k, v in rmetas[i].items() if k not in ("spec", "names")})[:1200])
    STATE["rbad"] = [rmetas[i] for i in rbad]
    STATE["rheader"] = rheader
    ctx.extra["reference_mismatches"] = len(rbad)
    ctx.exhaustive = False
    ctx.settle(lambda: search(ctx))


def rename_witness(ctx, m):
    """for a reference whose share is not where the relation rules put it: look for ONE renaming under
    which the real share path changes although the predicted path does not (or vice versa)"""
    spec, names, marker = m["spec"], m["names"], m["marker"]
    written, rel = m["written"], m["relation"]
    I = H.Interner()
    runs, exprs = [], []
    cands = [(None, None)] + [(e, "nova") for e in sorted(names)]
    # an actor renamed to the same letters with other capitals (a bc -> abc): a different name
    cands += [(e, names[e].replace(" ", "")) for e in sorted(names) if e.startswith("K") and " " in names[e]]
    for ent, new in cands:
        n2 = dict(names)
        if ent:
            n2[ent] = new
        ok, b = H.build(H.render(spec, n2), ctx.work, "w")
        if not ok:
            continue
        for act, dest in H.all_destinations(b, n2).get(marker, []):
            c = H.extract_ctx(act)
            if c is None or (c["names"]["framer"] != m["framer"] and ent is None):
                continue
            if marker.startswith("from:"):
                c = dict(c, act_inode=None)
            runs.append((ent, (names[ent], new) if ent else None, dest))
            exprs.append("match norm %s with Ok l => l | _ => [999] end" % ref_expr(
                I, n2, c, written, rel, H.spec_framer_inodes(I, spec, n2)))
            break
    outs = ctx.coq_eval(STATE["rheader"], exprs, name="witness")
    inv = {v: k for k, v in I.ids.items()}
    pred = [".".join(inv.get(int(x), "?") for x in re.findall(r"\d+", o.replace("%N", ""))) for o in outs]
    base_real, base_pred = runs[0][2], pred[0]
    for (ent, old, real), p in zip(runs[1:], pred[1:]):
        if (real != base_real) != (p != base_pred):
            return {"rename": list(old), "reference": written, "relation": rel,
                    "share_before": base_real, "share_after": real,
                    "expected_before": base_pred, "expected_after": p,
                    "note": "the share path %s under this renaming, the reference's resolution %s"
                            % ("changes" if real != base_real else "does not change",
                               "does not depend on that name" if p == base_pred else "does")}
    return {"reference": written, "relation": rel, "share": base_real, "expected": base_pred}


def search(ctx):
    """implementation alone against the property statement: a program and a single renaming whose
    store names are not the renamed store names"""
    if STATE.get("rbad"):
        m = sorted(STATE["rbad"], key=lambda d: len(d["program"]))[0]
        try:
            w = rename_witness(ctx, m)
        except Exception as ex:
            w = {"witness_error": repr(ex)[:300]}
        w.update({"key": "reference-depends-on-wrong-name", "program": m["program"], "marker": m["marker"],
                  "why": "the share created for this reference is not the one the relation rules give; under the "
                         "renaming shown its path changes although the reference does not resolve through that name",
                  "contradicts": "C13.Props.frame_main_resolves_under_main_framer / relation_frame_default_framer / "
                                 "resolve_equivariant"})
        return w
    if FOUND:
        f = sorted(FOUND, key=lambda d: len(d["program"]))[0]
        f = dict(f)
        f["key"] = "rename-not-equivariant"
        f["expected"] = "share/node names of the renamed program = renamed names of the original program"
        f["contradicts"] = "C13.Props.resolve_equivariant"
        return f
    return None
