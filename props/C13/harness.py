"""
C13 harness: FloScript program generator (all reference styles), builds through the real
Builder, context extraction from live Acts, renaming metamorphosis.
"""
import os

KEYWORDS = {"": 0, "framer": 1, "me": 2, "main": 3, "frame": 4, "actor": 5}

INODES = ["", "", "", "", "top", "pop", "me.a", "mb.", "me", ".abs", "framer.me.z", "p.q", "me.w.v", "framer.me.frame.me.k"]
LITS = ["alpha", "beta", "gamma", "delta"]


def quiet():
    from ioflo.aid.consoling import getConsole
    console = getConsole()
    console.reinit(verbosity=0)


def ref_actor_parts(name):
    """the DOCUMENTED rule of aiding.nameToPath (every upper case letter opens a new node), written
    independently of the implementation; tied to the Coq translation of the source by check.py"""
    out = []
    for c in name:
        if c.isupper():
            out.append(".")
            out.append(c.lower())
        else:
            out.append(c)
    return "".join(out).strip(".").split(".")


def parts_of(inode):
    """exactly  inode.rstrip('.').split('.') if inode else []"""
    return inode.rstrip(".").split(".") if inode else []


class Interner(object):
    def __init__(self):
        self.ids = dict(KEYWORDS)
        self.n = 10

    def __call__(self, s):
        if s not in self.ids:
            self.ids[s] = self.n
            self.n += 1
        return self.ids[s]


# ---------------------------------------------------------------------------------------------
# program generation
# ---------------------------------------------------------------------------------------------

def gen_program(rng, names=None):
    """returns (spec, names).  spec is a structure rendered by render(spec, names); names maps
    symbolic entity -> identifier used in the script"""
    k = [0]

    def marker():
        k[0] += 1
        return "m%d" % k[0]

    def via():
        v = rng.choice(INODES)
        return v

    actors = []

    def auxvia():
        """via clause of an `aux <moot> as <tag>`: absent, `mine` (keep the moot's own via) or a path"""
        return rng.choice(["", "", "mine", via(), via()])

    def mootvia():
        """a moot framer's own via: also framer relative (me / main: the clone's name, the main framer)"""
        return rng.choice([via(), via(), "framer.me.res", "framer.main.res", ".mabs", "me.mm", "mv"])

    def actor():
        """entity of a named actor (`as <words>`) or None for the registry name"""
        if rng.random() < 0.3:
            return None
        k = "K%d" % len(actors)
        actors.append(k)
        return k

    def refs(aux, frames_here, framers):
        """each reference: ("put", written path, relation) with relation one of
        None | ("root",) | ("me",) | ("framer", o) | ("frame", o, fr) | ("actor", o, fm)
        o = None | "me" | "main" | ("N", entity);  fr = None | ("framer", o);
        fm = None | ("frame", o, fr)      -- or ("do", via inode, path)"""
        out = []
        F = lambda: ("N", rng.choice(framers))
        A = lambda: ("N", rng.choice(frames_here))
        styles = ["abs", "root", "lit", "me", "ofme", "offramer", "offramerme", "offramername", "offrame",
                  "offrameme", "offramename", "offramenameframer", "offrameofframer", "offramemeofframerme",
                  "ofactor", "ofactorme", "ofactorofframe", "inlineframer", "inlineframe", "inlineactor",
                  "absofframer", "absofframe", "do", "do2"]
        if aux:
            styles += ["offramermain", "offramemain", "offramemainofframer", "offramemainofframermain",
                       "offrameofframermain", "inlinemain", "inlineframemain", "inlineframermainframemain",
                       "ofactorofframemain", "absofframemain", "offramemain", "offramermain", "inlineframemain"]
        for st in rng.sample(styles, rng.randint(4, 9)):
            m = marker()
            lit = rng.choice(LITS)
            T = {
                "abs": (".%s.%s" % (lit, m), None),
                "root": ("%s.%s" % (lit, m), None),
                "lit": (m, ("root",)),
                "me": ("me.%s" % m, None),
                "ofme": (m, ("me",)),
                "offramer": (m, ("framer", None)),
                "offramerme": ("%s.%s" % (lit, m), ("framer", "me")),
                "offramermain": (m, ("framer", "main")),
                "offramername": (m, ("framer", F())),
                "offrame": (m, ("frame", None, None)),
                "offrameme": (m, ("frame", "me", None)),
                "offramemain": (m, ("frame", "main", None)),
                "offramename": (m, ("frame", A(), None)),
                "offramenameframer": (m, ("frame", A(), ("framer", F()))),
                "offrameofframer": (m, ("frame", None, ("framer", None))),
                "offramemeofframerme": ("%s.%s" % (lit, m), ("frame", "me", ("framer", "me"))),
                "offramemainofframer": (m, ("frame", "main", ("framer", None))),
                "offramemainofframermain": (m, ("frame", "main", ("framer", "main"))),
                "offrameofframermain": (m, ("frame", None, ("framer", "main"))),
                "ofactor": (m, ("actor", None, None)),
                "ofactorme": (m, ("actor", "me", None)),
                "ofactorofframe": (m, ("actor", None, ("frame", A(), None))),
                "ofactorofframemain": (m, ("actor", None, ("frame", "main", None))),
                "inlineframer": ("framer.me.%s" % m, None),
                "inlinemain": ("framer.main.%s" % m, None),
                "inlineframe": ("frame.me.%s" % m, None),
                "inlineframemain": ("frame.main.%s" % m, None),
                "inlineframermainframemain": ("framer.main.frame.main.%s" % m, None),
                "inlineactor": ("actor.me.%s" % m, None),
                "absofframer": (".%s.%s" % (lit, m), ("framer", None)),
                "absofframe": (".%s.%s" % (lit, m), ("frame", None, None)),
                "absofframemain": (".%s.%s" % (lit, m), ("frame", "main", None)),
            }
            if st == "do":
                out.append(("do", via(), m))
            elif st == "do2":
                out.append(("do", via(), "me." + m))
            else:
                out.append(("put", T[st][0], T[st][1]))
        # `do` ioinit references: always one without and one with a do-level via (the default actor
        # inode applies only when neither act, over frames nor framers contribute an inode)
        out.append(("do", "", marker(), actor()))
        out.append(("do", rng.choice([via(), via(), "zz of actor", "yy.ww of actor me", ".place of actor me"]),
                    rng.choice(["", "me."]) + marker(), actor()))
        # `do ... from <field> in <source>`: the source of a from clause is resolved in the frame / framer
        # context only, never under the do's own via inode
        out.append(("dofrom", rng.choice(["", "box of frame", "bx of framer", "zz", "ba of actor", "me.q"]),
                    rng.choice(["cfg.", "", "me."]) + marker(), actor()))
        # implicit framer-state needs: go <frame> if elapsed/recurred <cmp> value | goal [+- tol]
        for _ in range(rng.randint(1, 3)):
            out.append(("need", rng.choice(["elapsed", "recurred"]), rng.choice(["value", "goal", "goaltol"]),
                        ("N", frames_here[0])))
        return out

    framers = ["F0", "M0", "M1"]
    spec = {"framers": []}
    # active framer
    spec["framers"].append({
        "name": "F0", "kind": "active", "via": via(), "frames": [
            {"name": "a0", "over": None, "via": via(), "refs": refs(False, ["a0", "a1", "a2"], framers), "aux": None},
            {"name": "a1", "over": "a0", "via": via(), "refs": refs(False, ["a0", "a1", "a2"], framers),
             "aux": ("M0", "c0", auxvia())},
            {"name": "a2", "over": None, "via": via(), "refs": refs(False, ["a0", "a1", "a2"], framers), "aux": None},
        ]})
    spec["framers"].append({
        "name": "M0", "kind": "moot", "via": mootvia(), "frames": [
            {"name": "b0", "over": None, "via": via(), "refs": refs(True, ["b0", "b1"], framers), "aux": None},
            {"name": "b1", "over": "b0", "via": via(), "refs": refs(True, ["b0", "b1"], framers),
             "aux": ("M1", "c1", auxvia())},
        ]})
    spec["framers"].append({
        "name": "M1", "kind": "moot", "via": mootvia(), "frames": [
            {"name": "d0", "over": None, "via": via(), "refs": refs(True, ["d0", "d1"], framers), "aux": None},
            {"name": "d1", "over": "d0", "via": via(), "refs": refs(True, ["d0", "d1"], framers), "aux": None},
        ]})
    if names is None:
        pool = ["zulu", "yank", "xray", "whis", "vict", "unif", "tang", "sier", "rome", "queb", "papa", "osca"]
        rng.shuffle(pool)
        ents = ["F0", "M0", "M1", "a0", "a1", "a2", "b0", "b1", "d0", "d1", "c0", "c1"]
        names = dict(zip(ents, pool))
        # actor names: runs of capitals (one letter words), digits, mixed case, underscores
        words = ["a bc", "p i d", "my doer", "abc", "x9 y", "ab c d", "q", "i o", "a b_c", "go2 it", "t v x", "lo"]
        rng.shuffle(words)
        for i, k in enumerate(actors):
            names[k] = words[i % len(words)] + ("" if i < len(words) else " n%d" % i)
    return spec, names


def render(spec, names):
    L = ["house hh", ""]

    def nm(x):
        return names[x]

    def oname(o):
        if o is None:
            return ""
        if isinstance(o, tuple):
            return " " + nm(o[1])
        return " " + o

    def rel(r):
        if r is None:
            return ""
        if r[0] in ("root", "me"):
            return " of " + r[0]
        if r[0] == "framer":
            return " of framer" + oname(r[1])
        if r[0] == "frame":
            return " of frame" + oname(r[1]) + (rel(r[2]) if r[2] else "")
        if r[0] == "actor":
            return " of actor" + oname(r[1]) + (rel(r[2]) if r[2] else "")
        raise ValueError(r)

    for fr in spec["framers"]:
        head = "framer %s be %s" % (nm(fr["name"]), fr["kind"])
        if fr["kind"] == "active":
            head += " first %s" % nm(fr["frames"][0]["name"])
        if fr["via"]:
            head += " via %s" % fr["via"]
        L.append("  " + head)
        for f in fr["frames"]:
            h = "frame %s" % nm(f["name"])
            if f["over"]:
                h += " in %s" % nm(f["over"])
            if f["via"]:
                h += " via %s" % f["via"]
            L.append("    " + h)
            for r in f["refs"]:
                if r[0] == "put":
                    L.append("      put 1 into %s%s" % (r[1], rel(r[2])))
                elif r[0] == "dofrom":
                    asn = (" as " + names[r[3]]) if r[3] else ""
                    L.append("      do doer param%s at enter%s from color in %s" % (asn, (" via " + r[1]) if r[1] else "", r[2]))
                elif r[0] == "need":
                    L.append("      go %s if %s %s" % (nm(r[3][1]), r[1], {"value": ">= 0.5", "goal": ">= goal",
                                                                            "goaltol": "== goal +- 0.1"}[r[2]]))
                else:
                    asn = (" as " + names[r[3]]) if len(r) > 3 and r[3] else ""
                    v = r[1] if r[1].startswith("of ") else r[1]
                    L.append("      do doer param%s at enter%s per color %s" % (asn, (" via " + v) if v else "", r[2]))
            if f["aux"]:
                a = f["aux"]
                L.append("      aux %s as %s%s" % (nm(a[0]), nm(a[1]), (" via " + a[2]) if a[2] else ""))
        L.append("")
    return "\n".join(L) + "\n"


# ---------------------------------------------------------------------------------------------
# building and observing
# ---------------------------------------------------------------------------------------------

def build(text, workdir, tag="p"):
    """-> (ok, builder or exception repr)"""
    from ioflo.base import building
    path = os.path.join(workdir, "%s.flo" % tag)
    with open(path, "w") as f:
        f.write(text)
    from ioflo.base import acting
    b = building.Builder()
    trace = {}
    orig = acting.Act.resolvePath

    def traced(self, ipath, *pa, **kwa):       # observation only: which share/node each call returned
        r = orig(self, ipath, *pa, **kwa)
        if isinstance(ipath, str):
            trace[(id(self), ipath)] = getattr(r, "name", None)
        return r
    acting.Act.resolvePath = traced
    try:
        try:
            ok = b.build(fileName=path)
        except Exception as ex:   # ParseError etc.
            return False, "%s: %s" % (type(ex).__name__, str(ex)[:300])
    finally:
        acting.Act.resolvePath = orig
    b._c13_trace = trace
    return bool(ok), b


def share_names(builder):
    from ioflo.base import storing
    out = set()

    def walk(node, pre):
        for key, v in node.items():
            p = pre + "." + key
            if isinstance(v, storing.Share):
                out.add(p)
            else:
                out.add(p + ".")
                walk(v, p)
    for house in builder.houses:
        walk(house.store.shares, "")
    return out


def all_acts(builder):
    from ioflo.base import framing
    for house in builder.houses:
        for framer in house.framers:
            for fr in framer.frameNames.values():
                if not all(isinstance(a, framing.Framer) for a in fr.auxes):
                    continue          # unresolved moot template
                for lst in ("beacts", "preacts", "enacts", "renacts", "reacts", "exacts", "rexacts"):
                    for act in getattr(fr, lst):
                        yield act


def extract_ctx(act):
    """the model's context (strings) from a live Act"""
    from ioflo.base import acting, framing
    frame = act.frame
    if not isinstance(frame, framing.Frame) or not isinstance(frame.framer, framing.Framer):
        return None
    framer = frame.framer
    overs = []
    f = frame.over
    while f:
        overs.append(parts_of(f.inode))
        f = f.over
    levels = []
    fchain = [framer.name]
    main = framer.main
    seen = 0
    while main:
        mainer = main.framer
        if not mainer:
            return None
        chain = []
        m = main
        while m:
            chain.append(parts_of(m.inode))
            m = m.over
        levels.append((chain, parts_of(mainer.inode)))
        fchain.append(mainer.name)
        main = mainer.main
        seen += 1
        if seen > 20:
            return None
    actor_ok = isinstance(act.actor, acting.Actor) and bool(act.actor.name)
    names = {
        "framer": framer.name,
        "mainframer": framer.main.framer.name if framer.main else "nomainframer",
        "frame": frame.name,
        "mainframe": framer.main.name if framer.main else "nomainframe",
        "actor": ref_actor_parts(act.actor.name) if actor_ok else ["noactor"],
    }
    return {"has_main": bool(framer.main), "actor_ok": actor_ok,
            "act_inode": None if act.inode is None else parts_of(act.inode),
            "frame_inode": parts_of(frame.inode), "overs": overs, "framer_inode": parts_of(framer.inode),
            "levels": levels, "names": names, "framer_chain": fchain}


def probe(act, ipath):
    """run the real Act.resolvePath; -> ('ok', kind, path passed to the store) | ('ResolveError',) | ('IndexError',)
    | ('other', class)"""
    from ioflo.base import excepting
    store = act.frame.store
    seen = []
    oc, on = store.create, store.createNode

    def c(path):
        seen.append(("share", path))
        try:
            return oc(path)
        except Exception:
            return None

    def n(path):
        seen.append(("node", path))
        try:
            return on(path)
        except Exception:
            return None
    store.create, store.createNode = c, n
    try:
        try:
            act.resolvePath(ipath)
        except excepting.ResolveError:
            return ("ResolveError",)
        except IndexError:
            return ("IndexError",)
        except Exception as ex:
            return ("other", type(ex).__name__)
    finally:
        del store.create
        del store.createNode
    if len(seen) != 1:
        return ("other", "store calls %r" % (seen,))
    return ("ok",) + seen[0]


PROBES = ["x", "x.y", "me.x", "me", ".abs.x", "framer.me.x", "framer.main.x", "framer.me.frame.me.x",
          "framer.me.frame.main.x", "framer.me.frame.me.actor.me.x", "framer.me.actor.me.x", "framer.other.x",
          "framer.me.frame.other.actor.me", "framer", "framer.me.frame", "framer.me.frame.me.actor", "framer.me.actor",
          "frame.me.x", "actor.me.x", "main.x", "", "framer.me", "framer.main.frame.main.actor.other.x",
          "framer.me.frame.me.actor.me", "x.framer.me"]


def rename_segment(seg, old, new):
    return "_".join(new if c == old else c for c in seg.split("_"))


def rename_path(p, old, new):
    return ".".join(rename_segment(s, old, new) for s in p.split("."))


# ---------------------------------------------------------------------------------------------
# the Coq terms of a written reference (RelModel.v)
# ---------------------------------------------------------------------------------------------

def c_fname(I, names, o):
    if o is None:
        return "None"
    if o == "me":
        return "(Some FMe)"
    if o == "main":
        return "(Some FMain)"
    return "(Some (FName %d))" % I(names[o[1]])


def c_relation(I, names, r):
    if r is None:
        return "RelNone"
    if r[0] == "root":
        return "RelRoot"
    if r[0] == "me":
        return "RelMe"
    if r[0] == "framer":
        return "(RelFramer %s)" % c_fname(I, names, r[1])
    if r[0] == "frame":
        fr = "None" if r[2] is None else "(Some %s)" % c_fname(I, names, r[2][1])
        return "(RelFrame %s %s)" % (c_fname(I, names, r[1]), fr)
    if r[0] == "actor":
        if r[2] is None:
            fm = "None"
        else:
            fr = "None" if r[2][2] is None else "(Some %s)" % c_fname(I, names, r[2][2][1])
            fm = "(Some (%s, %s))" % (c_fname(I, names, r[2][1]), fr)
        return "(RelActor %s %s)" % (c_fname(I, names, r[1]), fm)
    raise ValueError(r)


def put_refs(spec):
    """key -> (written path, relation) of every `put` reference (key = its marker) and of every
    implicit framer-state need (key = need|<frame entity>|<k>|state or goal; what makeFramerNeed
    writes: framer.me.state.<name> / framer.me.goal.<name>)"""
    out = {}
    for fr in spec["framers"]:
        for f in fr["frames"]:
            k = 0
            for r in f["refs"]:
                if r[0] == "put":
                    out[r[1].split(".")[-1]] = (r[1], r[2])
                elif r[0] == "do":
                    out[r[2].split(".")[-1]] = (r[2], None)
                elif r[0] == "dofrom":
                    out["from:" + r[2].rstrip(".").split(".")[-1]] = (r[2], None)
                elif r[0] == "need":
                    out["need|%s|%d|state" % (f["name"], k)] = ("framer.me.state.%s" % r[1], None)
                    if r[2] != "value":
                        out["need|%s|%d|goal" % (f["name"], k)] = ("framer.me.goal.%s" % r[1], None)
                    k += 1
    return out


def need_destinations(builder, names):
    """key (see put_refs) -> [(need act, share name)] for the needs of every resolved transition"""
    from ioflo.base import storing, framing
    inv = {v: k for k, v in names.items()}
    out = {}
    for house in builder.houses:
        for framer in house.framers:
            for fr in framer.frameNames.values():
                if not all(isinstance(a, framing.Framer) for a in fr.auxes) or fr.name not in inv:
                    continue
                k = 0
                for act in fr.preacts:
                    if isinstance(act.frame, str) or type(act.actor).__name__ != "Transiter":
                        continue
                    for need in (act.parms or {}).get("needs", []):
                        st = need.parms.get("state") if need.parms else None
                        if not isinstance(st, storing.Share) or ".state." not in "." + st.name:
                            continue
                        ctxact = need if not isinstance(need.frame, str) and need.frame is not None else act
                        out.setdefault("need|%s|%d|state" % (inv[fr.name], k), []).append((ctxact, st.name))
                        g = need.parms.get("goal")
                        if isinstance(g, storing.Share):
                            out.setdefault("need|%s|%d|goal" % (inv[fr.name], k), []).append((ctxact, g.name))
                    k += 1
    return out


def do_destinations(builder):
    """marker -> [(act, share name)] for the `per color <path>` ioinit of every resolved `do doer param`"""
    from ioflo.base import storing
    out = {}
    for act in all_acts(builder):
        if isinstance(act.frame, str) or type(act.actor).__name__ != "DoerParam" or not act.parms:
            continue
        d = act.parms.get("color")
        if isinstance(d, storing.Share):
            out.setdefault(d.name.split(".")[-1], []).append((act, d.name))
    return out


def from_destinations(builder):
    """from:<marker> -> [(act, share name)]: the source share each resolved `do ... from` act really obtained
    from Act.resolvePath (traced during the build)"""
    out = {}
    trace = getattr(builder, "_c13_trace", {})
    for act in all_acts(builder):
        if isinstance(act.frame, str) or type(act.actor).__name__ != "DoerParam" or not act.prerefs:
            continue
        for src in (act.prerefs.get("parms") or {}):
            got = trace.get((id(act), src))
            if got is not None:
                out.setdefault("from:" + src.rstrip(".").split(".")[-1], []).append((act, got))
    return out


def all_destinations(builder, names):
    out = dict(poke_destinations(builder))
    out.update(from_destinations(builder))
    out.update(do_destinations(builder))
    out.update(need_destinations(builder, names))
    return out


def poke_destinations(builder):
    """marker -> (act, destination share name) for every resolved `put` act (clones included;
    unresolved moot originals skipped)"""
    from ioflo.base import storing
    out = {}
    for act in all_acts(builder):
        if isinstance(act.frame, str) or type(act.actor).__name__ != "PokeDirect":
            continue
        d = act.parms.get("destination") if act.parms else None
        if isinstance(d, storing.Share):
            out.setdefault(d.name.split(".")[-1], []).append((act, d.name))
    return out


def spec_framer_inodes(I, spec, names):
    """live framer name -> Coq expression of the inode the SCRIPT gives that framer: its own via for a framer
    written in the script; clone_inode (moot's via) (aux via) for the clones  <main>_<tag>[_<tag>]"""
    def cp(ps):
        return "[" + "; ".join(str(I(p)) for p in ps) + "]" if ps else "(@nil N)"
    fr = {f["name"]: f for f in spec["framers"]}
    out = {names[k]: cp(parts_of(f["via"])) for k, f in fr.items()}
    aux = {}
    for f in spec["framers"]:
        for x in f["frames"]:
            if x["aux"]:
                aux[f["name"]] = x["aux"]

    def av(v):
        return "ViaAbsent" if v == "" else "ViaMine" if v == "mine" else "(ViaGiven %s)" % cp(parts_of(v))
    if "F0" in aux:
        m0, t0, v0 = aux["F0"]
        n0 = names["F0"] + "_" + names[t0]
        out[n0] = "(clone_inode %s %s)" % (cp(parts_of(fr[m0]["via"])), av(v0))
        if m0 in aux:
            m1, t1, v1 = aux[m0]
            out[n0 + "_" + names[t1]] = "(clone_inode %s %s)" % (cp(parts_of(fr[m1]["via"])), av(v1))
    return out
