"""
C07 -- framer runs agree with a reference interpreter of FloScript semantics.

The reference interpreter is the Coq model coq/Kernel/Model.v (written from the documented
semantics, mirroring Skedder.run / Framer.makeRunner / segue / precur / Transiter / Suspender ...).
Generated FloScript programs are built by the real Builder and run by the real Skedder (recorder =
Printer.action patched in this process, runner proxies log every send with the framer's active
outline, elapsed and recurred); the same program as a Coq term is run by the model instantiated
with binary64 time (bit exact) inside Coq (vm_compute) and the observations are compared there.
Two sub-claims are theorems (Props.v).
"""
import kernel

LEVEL = "translation_validation"


def run(ctx):
    ctx.rule = ("random well-formed kernel-language FloScript programs (1-3 scheduled framers, aux, "
                "conditional aux, slave framers, nested frames, go/let/bid/fiat/done/put/inc/copy, recorders in "
                "every frame context), each run for <= maxticks ticks; compared: full ordered trace of recorder "
                "actions and runner sends (control, status, active outline, elapsed (bit exact), recurred), final "
                "store values, final statuses; non-trivial = at least one outline change and > 6 events")
    ctx.assumptions = [
        "recorder = acting.Printer.action patched in the harness process; tasker.runner wrapped by a logging proxy; "
        "store.changeStamp wrapped to count ticks and deliver the tick-limit KeyboardInterrupt",
        "kernel language excludes: clones/rear/raze, markers (C20), fiats in benter context, loggers/servers",
    ]
    ctx.coq_build("C07/Props.v")
    # directed scenarios first (situations the random generator reaches rarely)
    sc_cases, sc_meta = [], []
    for nm, p in kernel.scenarios(0.125) + kernel.scenarios(0.1):
        ob = kernel.run_impl(p, None, ctx.work, "sc_" + nm.replace("-", "_"), maxticks=ctx.n(24, 40))
        if "error" in ob:
            ctx.tie_broken("correspondence", "scenario %s: implementation raised %s" % (nm, ob["error"]),
                           kernel.json_dumps(ob))
            continue
        ctx.case({"scenario": nm, "tick": p["tick"], "events": len(ob["trace"])}, nontrivial=True, kind="scenario")
        sc_cases.append((kernel.coq_run_expr(p, None, ctx.n(24, 40)), kernel.coq_obs(ob)))
        sc_meta.append((nm, p, ob))
    for i in ctx.coq_cases(kernel.COQ_HEADER, "(obs_eqb FOps)", sc_cases, shard=8, name="scen"):
        nm, p, ob = sc_meta[i]
        ctx.tie_broken("correspondence", "scenario %s: model and implementation traces differ" % nm,
                       kernel.json_dumps({"flo": kernel.render_flo(p), "impl": ob}))
    n = ctx.n(60, 600)
    kernel.correspond(ctx, n, features={}, ticks=(0.125, 0.1, 0.25, 0.05), crash="none",
                      maxticks=ctx.n(24, 40), label="full")
    kernel.correspond(ctx, ctx.n(30, 300), features={"aux": False, "slave": False, "condaux": False},
                      ticks=(0.125, 0.1), crash="some", maxticks=ctx.n(24, 40), label="flat")

    def search():
        # the property IS agreement with the reference interpreter: a trace disagreement is the failing input
        for k, nm, d in ctx.broken:
            if k == "correspondence":
                return {"key": None, "disagreement": d, "contradicts": "agreement with coq/Kernel/Model.v"}
        return None

    ctx.settle(search)
