"""
C18 -- the data store tree stays well formed under any operation sequence.

Tie H: coq/C18/Model.v is a hand model of Store.add/addNode/change/create/createNode/
fetch/fetchShare/fetchNode (ioflo/base/storing.py) on the tree of odicts.
  theorems       : coq/C18/Props.v  (all op sequences: invariant, refinement to an abstract
                   path map, rejected_unchanged)
  correspondence : op sequences run on a real Store and on the model; every result and the
                   FULL tree dump (keys in odict order, node names, share identities and
                   names) compared after every step, inside Coq (vm_compute).
  search         : the implementation alone against the property's executable statement
                   (python abstract path map, names, rejected => unchanged).
"""
import itertools

from vlib import cz, clist

LEVEL = "proof"

MUT = ("add", "addnode", "change", "create", "createnode")
FET = ("fetch", "fetchshare", "fetchnode")
JUNK = ("addjunk", "changejunk")

# path alphabet: shared prefixes, kind conflicts (a / a.b / a.b.c, time = pre-seeded share,
# meta = pre-seeded node), empty segments, leading / trailing dots, through-a-share paths
# ... and paths that REPEAT a segment name at a deeper level (a.b.a.c, b.b.b.a, meta.x.meta)
A_FULL = ["a", "a.b", "a.b.c", "a.c", "b", ".a", "a.b.", "..a.b..", "a..b", "c..d", "c.d..e",
          ".", "", "..", "time", "time.value", "time.value.x", "meta.x", ".time.", "c.d",
          "a.b.a.c", "b.b.b.a", ".a.a.", "meta.x.meta.y", "a.b.a"]
A_MID = ["a", "a.b", "a.b.c", ".a.", "..a.b", "a..b", "c.d..e", ".", "", "time.value", "meta.x", "c.d", "a.b.a.c", "b.b.b.a"]
A_SMALL = ["a", "a.b", ".a.b.", "a.b.c", "c..d", "."]
A_TINY = ["a", "a.b", "c..d"]


class Junk(object):
    name = "a.b"


# ------------------------------------------------------------------ implementation side

class Impl(object):
    def __init__(self):
        from ioflo.base import storing
        self.S = storing
        storing.Store.Clear() if hasattr(storing.Store, "Clear") else None
        self.store = storing.Store(stamp=0.0)
        self.ids = {}
        self.keep = []
        self.replaced = []
        for nm, i in (("time", -1), ("realtime", -2), ("datetime", -3)):
            sh = dict.__getitem__(self.store.shares, nm)
            self.ids[id(sh)] = i
            self.keep.append(sh)

    def mkshare(self, i, name):
        """the Share handed to add/change: a third carry data fields named like path segments of the
        alphabet (so a path THROUGH the share could be mistaken for a field access), a third a value"""
        S = self.S
        if i % 3 == 1:
            sh = S.Share(name=name, data=dict(b=1, c=2, x=3, value=4, d=5))
        elif i % 3 == 2:
            sh = S.Share(name=name, value=7)
        else:
            sh = S.Share(name=name)
        self.ids[id(sh)] = i
        self.keep.append(sh)
        return sh

    def walk(self, name):
        """what sits at the path of name, by plain dict access (no Store method involved)"""
        cur = self.store.shares
        try:
            for lv in name.strip(".").split("."):
                if not isinstance(cur, dict):
                    return None
                cur = dict.__getitem__(cur, lv)
        except KeyError:
            return None
        return cur

    def reachable(self, obj, node=None):
        node = self.store.shares if node is None else node
        for k in list(node._keys):
            v = dict.__getitem__(node, k)
            if v is obj or (isinstance(v, self.S.Node) and self.reachable(obj, v)):
                return True
        return False

    def canon(self, r, newid=None):
        S = self.S
        if r is None:
            return ("none",)
        if isinstance(r, S.Share):
            if id(r) not in self.ids:
                self.ids[id(r)] = newid if newid is not None else 0
                self.keep.append(r)
            return ("share", self.ids[id(r)], r.name)
        if isinstance(r, S.Node):
            # identity: the node handed back must be the object sitting in the tree under its own name
            cur = self.store.shares
            try:
                for lv in r.name.split("."):
                    cur = dict.__getitem__(cur, lv)
            except (KeyError, TypeError):
                return ("other",)
            return ("node", r.name) if cur is r else ("other",)
        return ("other",)

    def do(self, op):
        S, st = self.S, self.store
        try:
            k = op[0]
            if k == "add":
                sh = self.mkshare(op[1], op[2])
                r = st.add(sh)
            elif k == "addjunk":
                r = st.add(Junk())
            elif k == "addnode":
                r = st.addNode(op[1])
            elif k == "change":
                sh = self.mkshare(op[1], op[2])
                old = self.walk(op[2])
                r = st.change(sh)
                if isinstance(old, S.Share) and old is not sh:
                    self.replaced.append(old)
            elif k == "changejunk":
                r = st.change(Junk())
            elif k == "create":
                r = st.create(op[2])
                fresh = isinstance(r, S.Share) and id(r) not in self.ids
                c = self.canon(r, op[1])
                if fresh and op[1] % 2 == 0:   # give every other created share data fields named like path segments
                    r.update(b=1, c=2, value=3)
                return c
            elif k == "createnode":
                r = st.createNode(op[1])
            elif k == "fetch":
                r = st.fetch(op[1])
            elif k == "fetchshare":
                r = st.fetchShare(op[1])
            elif k == "fetchnode":
                r = st.fetchNode(op[1])
            else:
                raise RuntimeError("bad op")
            return self.canon(r)
        except ValueError:
            return ("err",)
        except Exception as ex:  # any other class escaping is not modelled
            return ("crash", type(ex).__name__)

    def dump(self, node=None):
        """[(key, 'N', name, kids) | (key, 'S', id, name) | (key, 'X')] in odict order"""
        S = self.S
        node = self.store.shares if node is None else node
        out = []
        for k in list(node._keys):
            v = dict.__getitem__(node, k)
            if isinstance(v, S.Share):
                out.append((k, "S", self.ids.get(id(v), 0), v.name))
            elif isinstance(v, S.Node):
                out.append((k, "N", v.name, self.dump(v)))
            else:
                out.append((k, "X"))
        return out


STALE = {"replaced": 0, "still_reachable": 0, "store_ref_kept": 0}


def run_impl(ops):
    im = Impl()
    tr = []
    for op in ops:
        r = im.do(op)
        tr.append((r, im.dump()))
    for old in im.replaced:      # shares replaced by an accepted change (theorem replaced_share_unreachable)
        STALE["replaced"] += 1
        if im.reachable(old):
            STALE["still_reachable"] += 1
        if old.store is im.store:
            STALE["store_ref_kept"] += 1
    return tr


# ------------------------------------------------------------- executable property statement

def levels(name):
    return name.strip(".").split(".")


def flatten(dump, pre=()):
    out = {}
    for e in dump:
        p = pre + (e[0],)
        if e[1] == "S":
            out[p] = ("S", e[2], e[3])
        elif e[1] == "N":
            out[p] = ("N", e[2])
            out.update(flatten(e[3], p))
        else:
            out[p] = ("X",)
    return out


def prop_violation(ops):
    """Run ops on the implementation alone; return a description of the first step at which the
    property's statement fails, else None.  Reference = abstract path map (python dict)."""
    im = Impl()
    amap = flatten(im.dump())
    for n, op in enumerate(ops):
        before = im.dump()
        r = im.do(op)
        after = im.dump()
        k = op[0]
        name = op[-1] if k not in JUNK else None
        lv = tuple(levels(name)) if name is not None else None
        where = "step %d %r -> %r" % (n, op, r)
        if r[0] == "crash":
            return where + ": raised %s (neither a result nor a rejection)" % r[1]
        if r[0] == "other":
            return where + ": returned an object that is neither the node nor the share placed at that path"
        if r[0] == "err" and before != after:
            return where + ": rejected operation changed the store: %r -> %r" % (before, after)
        if k in FET and before != after:
            return where + ": lookup changed the store"
        if k in MUT and r[0] != "err" and ("" in lv):
            return where + ": operation naming an empty path segment was accepted"
        # abstract effect of an accepted mutator
        if r[0] != "err":
            if k in ("add", "change") or (k == "create" and amap.get(lv, ("?",))[0] != "S"):
                for d in range(1, len(lv)):
                    amap.setdefault(lv[:d], ("N", ".".join(lv[:d])))
                amap[lv] = ("S", op[1], op[2].strip(".") if k == "create" else op[2])
            elif k in ("addnode", "createnode"):
                for d in range(1, len(lv) + 1):
                    amap.setdefault(lv[:d], ("N", ".".join(lv[:d])))
        flat = flatten(after)
        if flat != amap:
            return where + ": tree %r differs from the abstract map %r" % (sorted(flat.items()), sorted(amap.items()))
        # names
        for p, e in flat.items():
            if "" in p:
                return where + ": empty key at %r" % (p,)
            if e[0] == "N" and e[1] != ".".join(p):
                return where + ": node at %r is named %r" % (p, e[1])
            if e[0] == "S" and e[2].strip(".") != ".".join(p):
                return where + ": share at %r is named %r" % (p, e[2])
        # results
        if r[0] != "err":
            e = amap.get(lv)
            if k == "fetch":
                exp = ("none",) if e is None else (("node", e[1]) if e[0] == "N" else ("share", e[1], e[2]))
            elif k in ("fetchshare",):
                exp = ("share", e[1], e[2]) if e is not None and e[0] == "S" else ("none",)
            elif k in ("fetchnode",):
                exp = ("node", e[1]) if e is not None and e[0] == "N" else ("none",)
            elif k in ("add", "change", "create"):
                exp = ("share", e[1], e[2]) if e is not None and e[0] == "S" else ("?",)
            else:
                exp = ("node", e[1]) if e is not None and e[0] == "N" else ("?",)
            if r != exp:
                return where + ": result is not the object most recently placed at the path (expected %r)" % (exp,)
        else:
            # a rejection must have one of the stated reasons
            if k in MUT:
                e = amap.get(lv)
                pref_share = any(amap.get(lv[:d], ("?",))[0] == "S" for d in range(1, len(lv)))
                reason = ("" in lv) or pref_share
                if k == "add":
                    reason = reason or e is not None
                elif k == "create":
                    reason = reason or (e is not None and e[0] == "N")
                elif k == "addnode" or k == "createnode":
                    reason = reason or (e is not None and e[0] == "S")
                elif k == "change":
                    reason = reason or e is None or e[0] != "S"
                if not reason:
                    return where + ": rejected without any of the stated reasons"
    return None


def shrink(ops):
    ops = list(ops)
    changed = True
    while changed and len(ops) > 1:
        changed = False
        for i in range(len(ops)):
            cand = ops[:i] + ops[i + 1:]
            if prop_violation(cand):
                ops, changed = cand, True
                break
    return ops


WITNESSES = [  # the model's own refutation witnesses of the code as found (Props.v *_orig_refuted)
    ("store-empty-segment-debris", [("add", 1, "new..x")]),
    ("store-empty-segment-debris", [("addnode", "nn.mm..x")]),
    ("store-dot-accepted", [("add", 1, ".")]),
    ("store-fetch-through-share", [("fetchnode", "time.value")]),
    ("store-fetch-through-share", [("fetch", "time.value.x")]),
]


# ------------------------------------------------------------------------- Coq rendering

class Interner(object):
    def __init__(self):
        self.tab = {}

    def s(self, x):
        if x not in self.tab:
            self.tab[x] = "s%d" % len(self.tab)
        return self.tab[x]

    def header(self):
        lines = []
        for x, nm in self.tab.items():
            lines.append("Definition %s : str := %s." % (nm, clist([cz(ord(c)) for c in x], "Z")))
        return "\n".join(lines)


PRISTINE = [("meta", "N", "meta", []), ("time", "S", -1, "time"), ("realtime", "S", -2, "realtime"),
            ("datetime", "S", -3, "datetime")]


def c_forest(it, d, tail="E"):
    out = tail
    for e in reversed(d):
        if e[1] == "S":
            t = "(S %s %s)" % (cz(e[2]), it.s(e[3]))
        elif e[1] == "N":
            t = "(N %s %s)" % (it.s(e[2]), c_forest(it, e[3]))
        else:
            raise ValueError("unmodelled entry in tree")
        out = "(C %s %s %s)" % (it.s(e[0]), t, out)
    return out


def c_dump(it, d):
    if d[:4] == PRISTINE:
        return "(P %s)" % c_forest(it, d[4:])
    return c_forest(it, d)


def c_res(it, r):
    k = r[0]
    if k == "none":
        return "RNone"
    if k == "node":
        return "(RNode %s)" % it.s(r[1])
    if k == "share":
        return "(RShare %s %s)" % (cz(r[1]), it.s(r[2]))
    if k == "err":
        return "RErr"
    if k == "other":
        return "ROther"
    return "RCrash"


def c_op(it, op):
    k = op[0]
    if k == "add":
        return "Add %s %s" % (cz(op[1]), it.s(op[2]))
    if k == "change":
        return "Change %s %s" % (cz(op[1]), it.s(op[2]))
    if k == "create":
        return "Create %s %s" % (cz(op[1]), it.s(op[2]))
    if k == "addjunk":
        return "AddJunk"
    if k == "changejunk":
        return "ChangeJunk"
    return "%s %s" % ({"addnode": "AddNode", "createnode": "CreateNode", "fetch": "Fetch",
                       "fetchshare": "FetchShare", "fetchnode": "FetchNode"}[k], it.s(op[1]))


def mk(kind, name, i):
    if kind in ("add", "change", "create"):
        return (kind, i, name)
    if kind in JUNK:
        return (kind,)
    return (kind, name)


def all_ops(names, i, junk=True):
    out = [mk(k, nm, i) for k in MUT + FET for nm in names]
    if junk:
        out += [mk(k, None, i) for k in JUNK]
    return out


def mut_ops(names, i):
    return [mk(k, nm, i) for k in MUT for nm in names]


def sequences(ctx):
    seqs = []
    # exhaustive short sequences
    for o in all_ops(A_FULL, 1):
        seqs.append(("L1", [o]))
    for a in mut_ops(A_MID, 1):
        for b in all_ops(A_MID, 2):
            seqs.append(("L2", [a, b]))
    a3 = ctx.n(A_TINY, A_SMALL)
    for a in mut_ops(a3, 1):
        for b in mut_ops(a3, 2):
            for c in all_ops(a3, 3, junk=False):
                seqs.append(("L3", [a, b, c]))
    if ctx.thorough:
        a4 = ["a", ".a.b", "c..d"]
        m4 = ("add", "addnode", "change")
        for a in [mk(k, nm, 1) for k in m4 for nm in a4]:
            for b in [mk(k, nm, 2) for k in m4 for nm in a4]:
                for c in [mk(k, nm, 3) for k in m4 for nm in a4]:
                    for d in all_ops(a4, 4, junk=False):
                        seqs.append(("L4", [a, b, c, d]))
    # random longer ones
    kinds = MUT + MUT + FET + JUNK[:1]
    for _ in range(ctx.n(250, 2500)):
        n = ctx.rng.randint(5, 40)
        pool = ctx.rng.choice([A_FULL, A_MID, A_SMALL])
        ops = []
        for i in range(n):
            k = ctx.rng.choice(kinds)
            if ctx.rng.random() < 0.08:
                k = ctx.rng.choice(JUNK)
            ops.append(mk(k, ctx.rng.choice(pool), i + 1))
        seqs.append(("R", ops))
    return seqs


def run(ctx):
    ctx.rule = ("op sequences (add/addNode/change/create/createNode/fetch/fetchShare/fetchNode, plus non-Share "
                "arguments) over a path alphabet with shared prefixes, kind conflicts, empty segments, repeated segment names along one path, dotted "
                "variants and paths through a share, run on a real Store and on the Coq model; every result and "
                "the full tree dump (odict order, node names, share identity + name) compared after EVERY step "
                "inside Coq; exhaustive: length 1 over 25 names, length 2 over 14 names (first op a mutator), "
                "length 3 over 3 (quick) / 6 (thorough) names, length 4 over 3 names with add/addNode/change as the first three ops (thorough); seeded random "
                "sequences of 5..40 ops; non-trivial = at least one accepted mutation and one rejection or lookup hit")
    ctx.assumptions = [
        "Python str.strip('.')/split('.')/join, dict and the odict key list behave as modelled (lists of code points, "
        "association list in insertion order)",
        "each add/change is given a fresh Share object (a third of them carrying data fields named like path segments, "
        "a third a value; every other created share is given fields afterwards): the model ignores share data, as the "
        "fixed store does; Share.changeStore, console output and the Registrar bookkeeping of Store are not modelled",
        "pre-seeded store content (.meta node, .time/.realtime/.datetime shares) is the model's initial tree",
    ]
    ctx.coq_build("C18/Props.v")

    seqs = sequences(ctx)
    it = Interner()
    for x in ("meta", "time", "realtime", "datetime"):
        it.s(x)
    cases, metas = [], []
    unmodelled = 0
    for kind, ops in seqs:
        tr = run_impl(ops)
        acc = sum(1 for (r, _), op in zip(tr, ops) if op[0] in MUT and r[0] != "err")
        rej = sum(1 for (r, _) in tr if r[0] == "err")
        hit = sum(1 for (r, _), op in zip(tr, ops) if op[0] in FET and r[0] != "none")
        ctx.case({"ops": ops, "results": [r for r, _ in tr]},
                 nontrivial=acc > 0 and (rej > 0 or hit > 0), kind=kind)
        try:
            lit = clist(["(%s, %s)" % (c_res(it, r), c_dump(it, d)) for r, d in tr], "(res * forest)")
        except ValueError:
            unmodelled += 1
            ctx.tie_broken("correspondence", "C18 tree holds an entry that is neither Node nor Share", repr(ops))
            continue
        cases.append(("(trace %s)" % clist([c_op(it, o) for o in ops], "op"), lit))
        metas.append(ops)

    header = ("From Coq Require Import List ZArith Bool.\nImport ListNotations.\n"
              "Require Import V.C18.Model.\nOpen Scope Z_scope.\n"
              "Definition N := TNode. Definition S := TShare. Definition C := FCons. Definition E := FNil.\n"
              + it.header() + "\n"
              "Definition P (f : forest) := C s0 (N s0 E) (C s1 (S (-1) s1) (C s2 (S (-2) s2) (C s3 (S (-3) s3) f))).\n")
    bad = ctx.coq_cases(header, "trace_eqb", cases, shard=ctx.n(600, 1500))
    for i in bad[:5]:
        ctx.tie_broken("correspondence", "C18 model vs Store", "ops=%r impl_trace=%r" % (metas[i], run_impl(metas[i])))
    ctx.extra["mismatches"] = len(bad)
    ctx.extra["replaced_shares"] = dict(STALE, note="shares replaced by an accepted change: none may stay reachable in the "
                                        "tree; store_ref_kept counts replaced shares whose .store still points at the "
                                        "store (observation, not part of the property)")
    if STALE["still_reachable"]:
        ctx.tie_broken("correspondence", "C18 replaced share still reachable",
                       "%d of %d shares replaced by change() are still in the tree" % (STALE["still_reachable"], STALE["replaced"]))
    ctx.exhaustive = False

    def search():
        best = None
        for key, ops in WITNESSES:
            why = prop_violation(ops)
            if why:
                best = (key, ops, why)
                break
        if best is None:
            cands = [metas[i] for i in bad[:40]] + [ops for _, ops in seqs if len(ops) <= 2]
            for ops in cands:
                why = prop_violation(ops)
                if why:
                    ops = shrink(ops)
                    best = ("store-tree:" + repr(ops), ops, prop_violation(ops))
                    break
        if best is None:
            for _, ops in seqs:
                why = prop_violation(ops)
                if why:
                    ops = shrink(ops)
                    best = ("store-tree:" + repr(ops), ops, prop_violation(ops))
                    break
        if best is None:
            return None
        key, ops, why = best
        return {"key": key, "ops": ops, "impl_trace": run_impl(ops), "why": why,
                "contradicts": "C18.Props.rejected_unchanged / run_refines (lookup_latest, names_inv)"}

    ctx.settle(search)
