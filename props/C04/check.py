"""C04 -- kernel property (see coq/C04/Props.v, coq/Kernel/*.v, lib/kernel.py, lib/kprops.py)."""
import kprops

LEVEL = "proof"
RUNS = [{'label': 'bids', 'quick': 45, 'thorough': 450, 'features': {'aux': False, 'condaux': False}, 'ticks': (0.125, 0.1), 'crash': 'none'}, {'label': 'slaves', 'quick': 25, 'thorough': 250, 'features': {}, 'ticks': (0.125,), 'crash': 'none'}]


def run(ctx):
    corpus = []
    for r in RUNS:
        r["ticks"] = tuple(r["ticks"])
    kprops.kernel_check(ctx, "C04", runs=RUNS, preds=['C04', 'C04s', 'C04u', 'C02r', 'C08', 'C05'], corpus=corpus,
                        rule="random kernel programs with several active/inactive/slave framers issuing bids (start/run/stop/abort/ready, with and without periods, to named taskers, 'me' and 'all') and fiats from every context and declaration order; every runner send (control received, status returned) is compared with the Coq model. Non-trivial = outline change and > 6 events")
