"""
C47 -- named entities have unique names within their namespace.

Tie H: coq/C47/Model.v is a hand model of Registrar.__init__/Clear, House.__init__ (names dicts,
its Store), House.assignRegistries, Framer.assignFrameRegistry; random.randint is an oracle.
  theorems       : coq/C47/Props.v (all op histories, all oracles)
  correspondence : interleavings of explicit / automatic creation (explicit names matching the
                   automatic pattern), Clear, ClearRegistries, house and framer namespace switches
                   run on the real classes with registering.random replaced by an oracle double.
"""
import itertools

LEVEL = "proof"

CLS = ["CHouse", "CStore", "CTasker", "CFramer", "CLogger", "CLog", "CFrame"]
CLSNAME = {"CHouse": "House", "CStore": "Store", "CTasker": "Tasker", "CFramer": "Framer",
           "CLogger": "Logger", "CLog": "Log", "CFrame": "Frame"}


class Rnd(object):
    def __init__(self):
        self.q = []

    def randint(self, a, b):
        return self.q.pop(0) if self.q else 0


class World(object):
    """the real classes, reset to the import-time state, + the heap of Names dicts by identity"""

    def __init__(self):
        from ioflo.base import registering, housing, tasking, framing, logging, storing, excepting
        self.m = dict(registering=registering, housing=housing, excepting=excepting)
        self.cls = {"CHouse": housing.House, "CStore": storing.Store, "CTasker": tasking.Tasker,
                    "CFramer": framing.Framer, "CLogger": logging.Logger, "CLog": logging.Log,
                    "CFrame": framing.Frame}
        from ioflo.aid import consoling
        consoling.getConsole().reinit(verbosity=0)      # no console chatter from clone()
        self.rnd = Rnd()
        registering.random = self.rnd            # harness-process double for random.randint
        for c in ("CFramer", "CLogger"):
            for a in ("Counter", "Names"):
                if a in self.cls[c].__dict__:
                    delattr(self.cls[c], a)
        self.helper = storing.Store(name="helperstore")   # store handed to Framers; not in any namespace below
        for c in ("CHouse", "CStore", "CTasker", "CLog", "CFrame"):
            self.cls[c].Names = {}
            self.cls[c].Counter = 0
        self.heap = [self.cls[c].Names for c in ("CHouse", "CStore", "CTasker", "CLog", "CFrame")]
        self.houses, self.framers = [], []
        self.fh = []              # house index (or None) of each framer's store, parallel to framers
        self.registered = []      # (dict object, name, instance) of every successful registration

    def hid(self, d):
        for i, x in enumerate(self.heap):
            if x is d:
                return i
        return -1

    def apply(self, op, store=None):
        """returns flat encoding of the result"""
        PE = self.m["excepting"].ParameterError
        CE = self.m["excepting"].CloneError
        t = op[0]
        if t == "createin":
            h = op[1] if op[1] < len(self.houses) else None
            r = self.apply(("create", "CFramer", op[2], op[3], op[4]), store=None if h is None else self.houses[h].store)
            if r and r[0] == 1:
                self.fh[-1] = h
            return r
        if t == "prune":
            if op[1] >= len(self.framers):
                return [0]
            fr = self.framers[op[1]]
            try:
                fr.prune()
            except Exception as ex:
                return [9, sum(map(ord, type(ex).__name__)) % 100]
            # the owner may free its own name: it is no longer expected to hold it
            self.registered = [(d, nm, o) for d, nm, o in self.registered if o is not fr]
            return [0]
        if t == "clone":
            f, name, orc = op[1], op[2], op[3]
            if f >= len(self.framers) or self.fh[f] is None:
                return [0]
            fr = self.framers[f]
            self.rnd.q = list(orc)
            try:
                c = fr.clone(name=name, tag="t%d" % len(self.framers))
            except CE:
                return [4]
            except PE:
                return [2]
            except Exception as ex:
                return [9, sum(map(ord, type(ex).__name__)) % 100]
            self.heap.append(c.frameNames)
            self.framers.append(c)
            self.fh.append(self.fh[f])
            self.registered.append((self.cls["CFramer"].Names, c.name, c))
            for k, fm in c.frameNames.items():
                self.registered.append((c.frameNames, k, fm))
            nm = c.name
            return [1, len(nm)] + [ord(ch) for ch in nm]
        if t in ("create", "house"):
            c = "CHouse" if t == "house" else op[1]
            nk, pre, orc = (op[1], op[2], op[3]) if t == "house" else (op[2], op[3], op[4])
            kw = {}
            if nk == "bad":
                kw["name"] = 5
            elif nk is not None:
                kw["name"] = nk
            if pre:
                kw["preface"] = pre
            if c == "CFramer":
                kw["store"] = store if store is not None else self.helper
            self.rnd.q = list(orc)
            cl = self.cls[c]
            names_before = cl.Names
            keys_before = list(names_before.keys())
            hkeys = list(self.cls["CHouse"].Names.keys())
            try:
                obj = cl(**kw)
            except PE:
                if t == "house":       # the House may already be registered when its Store is rejected
                    new = [k for k in self.cls["CHouse"].Names if k not in hkeys]
                    for k in new:
                        hh = self.cls["CHouse"].Names[k]
                        self.registered.append((self.cls["CHouse"].Names, k, hh))
                        self.heap += [hh.names["store"], hh.names["tasker"], hh.names["log"]]
                return [2]
            except Exception as ex:
                return [9, sum(map(ord, type(ex).__name__)) % 100]
            self.registered.append((names_before, obj.name, obj))
            if t == "house":
                self.heap += [obj.names["store"], obj.names["tasker"], obj.names["log"]]
                self.houses.append(obj)
                self.registered.append((obj.store.__class__.Names, obj.store.name, obj.store))
            if c == "CFramer":
                self.heap.append(obj.frameNames)
                self.framers.append(obj)
                self.fh.append(None)
            nm = obj.name
            r = [1, len(nm)] + [ord(ch) for ch in nm]
            if nm in keys_before:
                r += [-97]            # returned a name that was already taken
            return r
        if t == "assign":
            if op[1] < len(self.houses):
                self.houses[op[1]].assignRegistries()
            return [0]
        if t == "assignframe":
            if op[1] < len(self.framers):
                self.framers[op[1]].assignFrameRegistry()
            return [0]
        if t == "clear":
            self.cls[op[1]].Clear()
            self.heap.append(self.cls[op[1]].Names)
            return [0]
        if t == "clearreg":
            self.m["housing"].ClearRegistries()
            for c in ("CStore", "CTasker", "CLog"):
                self.heap.append(self.cls[c].Names)
            return [0]
        raise RuntimeError(op)

    def obs(self):
        out = []
        for c in CLS:
            out += [self.hid(self.cls[c].Names), self.cls[c].Counter]
        out.append(len(self.heap))
        for d in self.heap:
            out.append(len(d))
            for k in d.keys():
                out += [len(k)] + [ord(ch) for ch in k]
        return out

    def unique_ok(self):
        """the property's statement on the live registries"""
        for d in self.heap:
            objs = list(d.values())
            if len(set(map(id, objs))) != len(objs):
                return "one instance under two names"
            for k, o in d.items():
                if getattr(o, "name", None) != k:
                    return "registry key %r holds instance named %r" % (k, getattr(o, "name", None))
        for d, nm, obj in self.registered:
            if self.hid(d) >= 0 and d.get(nm) is not obj:
                return "instance %r is no longer the holder of its name in its namespace" % nm
        return None


def run_impl(ops):
    w = World()
    flat = []
    for op in ops:
        flat += w.apply(op)
        flat += w.obs()
    return flat


def prop_violation(ops):
    w = World()
    for i, op in enumerate(ops):
        expect = None
        if op[0] == "clone" and op[1] < len(w.framers) and w.fh[op[1]] is not None \
                and "Names" not in w.cls["CFramer"].__dict__:
            own = w.houses[w.fh[op[1]]].names["tasker"]     # the registry of the framer's OWN house
            expect = (own, bool(op[2]) and op[2] in own)
        dup = None
        if op[0] in ("create", "house", "createin"):
            cname = "CHouse" if op[0] == "house" else ("CFramer" if op[0] == "createin" else op[1])
            nk = op[1] if op[0] == "house" else op[2]
            if isinstance(nk, str) and nk and nk != "bad":
                reg_ = w.cls[cname].Names
                if nk in reg_:
                    dup = (cname, nk, reg_, list(reg_.keys()), [list(d.keys()) for d in w.heap])
        before = None
        if op[0] == "prune" and op[1] < len(w.framers):
            before = [(d, dict(d)) for d in w.heap]
        r = w.apply(op)
        if before is not None:
            fr = w.framers[op[1]]
            for d, old in before:
                for nm, obj in old.items():
                    if d.get(nm) is not obj and obj is not fr:
                        return {"step": i, "op": op, "key": "c47-prune-foreign-entry",
                                "why": "prune() of framer %r removed the registry entry %r of ANOTHER live instance "
                                       "(the namespace that was current belongs to another house)" % (fr.name, nm)}
        if dup is not None:
            cname, nk, reg_, keys0, heap0 = dup
            if r != [2]:
                got_name = "".join(chr(x) for x in r[2:2 + r[1]]) if r and r[0] == 1 else None
                return {"step": i, "op": op, "key": "c47-explicit-duplicate-accepted",
                        "why": "explicit name %r already exists in the current %s namespace but the creation was not "
                               "rejected with ParameterError (result: %s)" % (
                                   nk, CLSNAME[cname], "created as %r" % got_name if got_name else r)}
            if [list(d.keys()) for d in w.heap[:len(heap0)]] != heap0:
                return {"step": i, "op": op, "key": "c47-explicit-duplicate-accepted",
                        "why": "explicit duplicate %r was rejected but a registry changed" % nk}
        if expect is not None:
            own, taken = expect
            rejected = r[0] in (2, 4)
            if rejected and not taken:
                return {"step": i, "op": op, "key": "c47-clone-other-house",
                        "why": "clone name %r is free in the framer's own house but was rejected: the duplicate check "
                               "ran against the namespace of another house" % (op[2],)}
            if taken and not rejected:
                return {"step": i, "op": op, "key": "c47-clone-duplicate-accepted",
                        "why": "clone name %r already exists in the framer's own house but was accepted" % (op[2],)}
            if r[0] == 1 and own.get(w.framers[-1].name) is not w.framers[-1]:
                return {"step": i, "op": op, "key": "c47-clone-other-house",
                        "why": "the clone was not registered in its own house's tasker registry"}
        if r and r[-1] == -97:
            return {"step": i, "op": op, "why": "a new instance was given a name already present in its namespace"}
        if r and r[0] == 9:
            return {"step": i, "op": op, "why": "unexpected exception class (code %d)" % r[1]}
        why = w.unique_ok()
        if why:
            return {"step": i, "op": op, "why": why}
    return None


# ------------------------------------------------------------------ Coq literals
def z(n):
    return str(n) if n >= 0 else "(%d)" % n


def c_l(l):
    return "[" + ";".join(z(x) for x in l) + "]" if l else "(@nil Z)"


def c_str(s):
    return c_l([ord(ch) for ch in s])


def c_nk(nk):
    if nk is None:
        return "NAuto"
    if nk == "bad":
        return "NBad"
    return "(NStr %s)" % c_str(nk)


def c_op(op):
    t = op[0]
    if t == "create":
        return "Create %s %s %s %s" % (op[1], c_nk(op[2]), c_str(op[3]), c_l(op[4]))
    if t == "house":
        return "CreateHouse %s %s %s" % (c_nk(op[1]), c_str(op[2]), c_l(op[3]))
    if t == "createin":
        return "CreateFramerIn %d%%nat %s %s %s" % (op[1], c_nk(op[2]), c_str(op[3]), c_l(op[4]))
    if t == "clone":
        return "Clone %d%%nat %s %s" % (op[1], c_str(op[2]), c_l(op[3]))
    if t == "prune":
        return "Prune %d%%nat" % op[1]
    if t == "assign":
        return "Assign %d%%nat" % op[1]
    if t == "assignframe":
        return "AssignFrame %d%%nat" % op[1]
    if t == "clear":
        return "Clear %s" % op[1]
    return "ClearRegistries"


def c_ops(ops):
    return "[" + ";".join(c_op(o) for o in ops) + "]" if ops else "(@nil op)"


HEADER = ("From Coq Require Import List ZArith Bool.\nImport ListNotations.\n"
          "Require Import V.C47.Model.\nOpen Scope Z_scope.\n")

ALPHABET = [
    ("create", "CTasker", None, "", []), ("create", "CTasker", None, "", [1, 0]),
    ("create", "CTasker", "Tasker1", "", []), ("create", "CTasker", "Tasker2", "", []),
    ("create", "CTasker", "Tasker1a", "", []), ("create", "CTasker", "Framer2", "", []),
    ("create", "CFramer", None, "", []), ("create", "CLogger", None, "Tasker", []),
    ("create", "CFrame", None, "", []), ("create", "CFrame", "Frame1", "", []),
    ("create", "CLog", None, "", []), ("create", "CStore", "House1", "", []),
    ("house", None, "", []), ("house", "h", "", []),
    ("assign", 0), ("assign", 1), ("assignframe", 0), ("clear", "CTasker"), ("clear", "CFramer"), ("clearreg",),
]
# multi-house prefix + alphabet for Framer.clone: two houses, one framer "f" in each (with a frame), then
# every history of length <= 2 over CLONE_ALPHABET
CLONE_PREFIX = [("house", "a", "", []), ("house", "b", "", []), ("assign", 0), ("createin", 0, "f", "", []),
                ("assignframe", 0), ("create", "CFrame", "fr1", "", []), ("create", "CFrame", None, "", []),
                ("assign", 1), ("createin", 1, "f", "", []), ("createin", 1, "g", "", [])]
CLONE_ALPHABET = [("clone", 0, "w", []), ("clone", 1, "w", []), ("clone", 0, "g", []), ("clone", 1, "g", []),
                  ("clone", 0, "f", []), ("clone", 2, "w", []), ("clone", 0, "", [0, 1]), ("clone", 1, "", [1]),
                  ("clone", 3, "x", []), ("assign", 0), ("assign", 1), ("create", "CTasker", "w", "", []),
                  ("createin", 0, "w", "", []), ("createin", 1, None, "", []),
                  ("prune", 3), ("prune", 4), ("prune", 0), ("prune", 2)]
# raze/prune in one house while the other house's namespace is current and holds a same-named clone, then an
# explicit duplicate there: all histories of length <= 3 (after the two-house prefix) over PRUNE_ALPHABET
PRUNE_ALPHABET = [("clone", 0, "w", []), ("clone", 1, "w", []), ("prune", 3), ("prune", 4), ("assign", 0), ("assign", 1),
                  ("createin", 1, "w", "", []), ("createin", 0, "w", "", []), ("clone", 1, "", [])]
PRUNE_DIRECTED = [
    [("clone", 0, "w", []), ("clone", 1, "w", []), ("prune", 3), ("createin", 1, "w", "", []), ("clone", 1, "w", [])],
    [("clone", 1, "w", []), ("clone", 0, "w", []), ("prune", 3), ("assign", 0), ("createin", 0, "w", "", [])],
    [("clone", 0, "w", []), ("clone", 1, "w", []), ("assign", 0), ("prune", 3), ("prune", 3), ("clone", 0, "w", []),
     ("assign", 1), ("prune", 5), ("prune", 4), ("createin", 1, "w", "", [])],
    [("clone", 0, "", []), ("clone", 1, "", [0]), ("prune", 3), ("prune", 4), ("assign", 0), ("prune", 3)],
]


def gen_op(rng, nh, nf):
    c = rng.random()
    if nh and c < 0.12:
        return ("createin", rng.randrange(nh + 1), rng.choice([None, "f", "g", "w", "w1", "Framer2"]), "", [])
    if nf and c < 0.17:
        return ("prune", rng.randrange(nf + 1))
    if nf and c < 0.3:
        return ("clone", rng.randrange(nf + 1), rng.choice(["w", "w1", "f", "g", "x", "", "Framer3", "w_2"]),
                [rng.randint(0, 1) for _ in range(rng.randint(0, 3))])
    pool = []
    for nm in ("Tasker", "Framer", "Logger", "Log", "Frame", "Store", "House", "T"):
        for k in (1, 2, 3):
            for suf in ("", "a", "aa", "b", "ab"):
                pool.append("%s%d%s" % (nm, k, suf))
    pool += ["x", "y", "h", "House1", "House2"]

    def nk():
        r = rng.random()
        if r < 0.45:
            return None
        if r < 0.5:
            return ""
        if r < 0.95:
            return rng.choice(pool)
        return "bad"

    def orc():
        n = rng.randint(0, 4)
        return [rng.randint(0, 1) if rng.random() < 0.8 else rng.randint(0, 25) for _ in range(n)]

    def pre():
        r = rng.random()
        return "" if r < 0.7 else rng.choice(["Tasker", "T", "Frame", "Log"])
    if c < 0.6:
        return ("create", rng.choice(CLS[1:]), nk(), pre(), orc())
    if c < 0.7:
        return ("house", nk(), pre(), orc())
    if c < 0.82:
        return ("assign", rng.randrange(max(nh, 1) + 1))
    if c < 0.9:
        return ("assignframe", rng.randrange(max(nf, 1) + 1))
    if c < 0.97:
        return ("clear", rng.choice(CLS))
    return ("clearreg",)


def directed():
    """histories in which the automatic name collides 1, 2 or 3 times in a row (explicit names that match
    the automatic pattern and its suffixed forms; counters reset by namespace switches while names stay)"""
    out = []
    for c, nm in (("CTasker", "Tasker"), ("CLog", "Log"), ("CFrame", "Frame"), ("CStore", "Store"), ("CLogger", "Logger")):
        for depth in (1, 2, 3):
            for orc in ([0, 1, 0], [1, 1, 1], [0, 0, 0], [25, 0, 3]):
                k = depth + 1                      # counter value of the automatic creation
                suf = "".join(chr(97 + x) for x in orc)
                ops = [("create", c, "%s%d%s" % (nm, k, suf[:j]), "", []) for j in range(depth)]
                ops.append(("create", c, None, "", orc))
                ops.append(("create", c, None, "", orc))
                out.append(ops)
    for orc in ([0, 1], [0, 0], [1, 0]):
        suf = "".join(chr(97 + x) for x in orc)
        out.append([("house", "h", "", []), ("assign", 0), ("create", "CTasker", None, "", []),
                    ("create", "CTasker", None, "", []), ("create", "CTasker", "Tasker1" + suf[:1], "", []),
                    ("assign", 0), ("create", "CTasker", None, "", orc), ("create", "CFramer", None, "Tasker", orc),
                    ("house", None, "", []), ("assign", 1), ("create", "CTasker", None, "", orc), ("assign", 0),
                    ("create", "CLogger", None, "Tasker", orc)])
        out.append([("create", "CFramer", "f", "", []), ("assignframe", 0), ("create", "CFrame", None, "", []),
                    ("create", "CFrame", "Frame1" + suf[:1], "", []), ("assignframe", 0),
                    ("create", "CFrame", None, "", orc), ("create", "CFramer", "g", "", []), ("assignframe", 1),
                    ("create", "CFrame", None, "", orc), ("assignframe", 0), ("create", "CFrame", None, "", orc)])
    return out


STATE = {}

# run-time Rearer path (sampled scenario, no Coq model): a FloScript plan with two houses of the same layout,
# each rearing an insular aux clone of a moot framer at run time; both clones get the same generated name,
# one per house.  Run cold in a subprocess; exit 0 = statement holds, 1 = violated (errors on stdout).
REARER_SCRIPT = r'''
import collections.abc, os, sys, tempfile, json
from ioflo.aid import consoling
from ioflo.base import skedding, excepting
from ioflo.base.globaling import START, STOP, STOPPED, ACTIVE
HOUSE = """
house {house}

   framer mission be active first rearing

      frame rearing
         rear worker as mine be aux in frame working
         go next

      frame working
         go next if elapsed >= 0.5

      frame finished
         bid stop me

   framer worker be moot first w1

      frame w1
         go next

      frame w2
         done
"""
consoling.getConsole().reinit(verbosity=0)
errors = []
path = os.path.join(tempfile.mkdtemp(prefix="c47rear", dir="."), "plan.flo")
with open(path, "w") as f:
    for h in ("alpha", "beta", "gamma"):
        f.write(HOUSE.format(house=h))
sk = skedding.Skedder(name="c47", period=0.125, real=False, filepath=path)
if not sk.build():
    print(json.dumps(["build failed"])); sys.exit(2)
for house in sk.houses:
    for tasker in house.taskables:
        tasker.desire = START if tasker.schedule == ACTIVE else STOP
        tasker.status = STOPPED
stamp = 0.0
try:
    for tick in range(12):
        for house in sk.houses:
            house.store.changeStamp(stamp)
            for tasker in house.taskables:
                tasker.runner.send(tasker.desire)
        stamp += 0.125
except Exception as ex:
    errors.append("run raised %s: %s" % (ex.__class__.__name__, ex))
for house in sk.houses:
    registry = house.names["tasker"]
    mission = registry["mission"]
    framers = list(house.framers) + list(mission.auxes.values())
    names = [fr.name for fr in framers]
    if len(names) != len(set(names)):
        errors.append("house %s has duplicate framer names %r" % (house.name, names))
    if not any(n.startswith("mission_") for n in names):
        errors.append("house %s has no reared clone: %r" % (house.name, names))
    for fr in framers:
        if registry.get(fr.name) is not fr:
            errors.append("house %s framer %s is not registered in its own house" % (house.name, fr.name))
    for name, tasker in registry.items():
        if tasker.store is not house.store:
            errors.append("house %s registry holds %s of another house" % (house.name, name))
alpha, beta = sk.houses[0], sk.houses[1]
beta.assignRegistries()
worker = alpha.names["tasker"]["worker"]
taken = [n for n in alpha.names["tasker"] if n.startswith("mission_")]
if taken:
    try:
        worker.clone(name=taken[0], tag="dup")
    except (excepting.CloneError, excepting.ParameterError):
        pass
    else:
        errors.append("duplicate clone name %s accepted in house alpha while beta was current" % taken[0])
print(json.dumps(errors))
sys.exit(1 if errors else 0)
'''


def run(ctx):
    ctx.rule = ("histories of explicit / automatic instance creation (Tasker, Framer, Logger, Log, Store, Frame, House "
                "with its own Store and names dicts; explicit names that match the automatic pattern incl. suffixed "
                "ones; non-str names; prefaces), Clear, ClearRegistries, House.assignRegistries and "
                "Framer.assignFrameRegistry switches: all histories of length <= 2 (quick) / 3 (thorough) over a 20-op "
                "alphabet plus seeded random histories of length 4..30, run on the real classes with random.randint "
                "replaced by the oracle; after every op the result, every class's (Names identity, Counter) and all "
                "registry dicts are compared with the Coq model; non-trivial = at least one name collision handled "
                "(ParameterError or suffix loop) in the history")
    ctx.assumptions = [
        "registering.random is replaced in the harness process by an oracle double (randint(0,25) results)",
        "Framers are given a helper Store that is registered in no compared namespace",
        "Framer.prune (deleting a registry entry) and FloScript-built programs with clones are not in the op set",
        "CPython class-attribute lookup / assignment semantics are modelled (Counter, Names), not verified",
    ]
    ctx.coq_build("C47/Props.v")
    rng = ctx.rng
    seqs = [[a] for a in ALPHABET]
    seqs += [list(p) for p in itertools.product(ALPHABET, repeat=2)]
    ctx.exhaustive = True
    if ctx.thorough:
        seqs += [list(p) for p in itertools.product(ALPHABET, repeat=3)]
    else:
        tri = [list(p) for p in itertools.product(ALPHABET, repeat=3)]
        seqs += rng.sample(tri, 300)
        ctx.exhaustive = False
    seqs += directed()
    seqs += [CLONE_PREFIX + [a] for a in CLONE_ALPHABET]
    seqs += [CLONE_PREFIX + [a, b] for a in CLONE_ALPHABET for b in CLONE_ALPHABET]
    if ctx.thorough:
        seqs += [CLONE_PREFIX + [a, b, c] for a in CLONE_ALPHABET for b in CLONE_ALPHABET for c in CLONE_ALPHABET]
    seqs += [CLONE_PREFIX + d for d in PRUNE_DIRECTED]
    ptri = [CLONE_PREFIX + [a, b, c] for a in PRUNE_ALPHABET for b in PRUNE_ALPHABET for c in PRUNE_ALPHABET]
    seqs += ptri if ctx.thorough else rng.sample(ptri, 220)
    seqs += [CLONE_PREFIX + [("clone", 0, "w", []), ("clone", 1, "w", []), b, c] for b in PRUNE_ALPHABET for c in PRUNE_ALPHABET]
    if ctx.thorough:
        seqs += [CLONE_PREFIX + [a, b, c, d] for a in PRUNE_ALPHABET for b in PRUNE_ALPHABET for c in PRUNE_ALPHABET
                 for d in PRUNE_ALPHABET]
    for _ in range(ctx.n(300, 5000)):
        ops, nh, nf = [], 0, 0
        for _ in range(rng.randint(4, 30)):
            o = gen_op(rng, nh, nf)
            ops.append(o)
            nh += o[0] == "house"
            nf += (o[0] == "create" and o[1] == "CFramer") or o[0] in ("createin", "clone")
        seqs.append(ops)
    cases, metas = [], []
    for ops in seqs:
        flat = run_impl(ops)
        cases.append(("trace init %s" % c_ops(ops), c_l(flat)))
        metas.append((ops, flat))
        # collision handled: a ParameterError result, or an auto name longer than preface+digits
        nontriv = False
        for o in ops:
            if o[0] in ("create", "house", "createin", "clone"):
                nontriv = nontriv or (o[-1] != [])
        ctx.case({"ops": ops}, nontrivial=nontriv or any(o[0] in ("assign", "clear", "clone", "prune") for o in ops),
                 kind="len<=3" if len(ops) <= 3 else "random")
    STATE["metas"] = metas
    # sampled run-time scenario (Rearer -> Framer.clone in a three-house plan); not tied to the Coq model
    rc, out = ctx.impl_python(REARER_SCRIPT, timeout=120)
    ctx.case({"scenario": "three houses each rear a clone of a moot framer at run time"}, nontrivial=True, kind="rearer-plan")
    ctx.extra["rearer_scenario_rc"] = rc
    if rc != 0:
        STATE["rearer"] = out[-1500:]
        ctx.tie_broken("correspondence" if rc == 1 else "harness", "C47 rearer multi-house scenario", out[-1500:])
    bad = ctx.coq_cases(HEADER, "zleqb", cases, shard=ctx.n(100, 400))
    ctx.extra["mismatches"] = len(bad)
    STATE["bad"] = bad
    for i in bad[:3]:
        ops, flat = metas[i]
        ctx.tie_broken("correspondence", "C47 model vs Registrar/House/Framer registries",
                       "ops=%r impl_trace=%r" % (ops, flat))
    ctx.settle(lambda: search(ctx))


def search(ctx):
    if STATE.get("rearer") and ctx.extra.get("rearer_scenario_rc") == 1:
        STATE["rearer_finding"] = {
            "key": "c47-rearer-other-house", "plan": "three houses (alpha, beta, gamma), each: framer mission rears moot "
            "framer worker as insular aux clone at run time; 12 ticks", "observed": STATE["rearer"],
            "expected": "every house gets its own clone 'mission_...' registered in its own tasker registry, no exception",
            "contradicts": "C47.Props.clone_house_switch_no_collision"}
    metas = STATE.get("metas")
    if metas is None:
        metas = [(list(p), None) for p in itertools.product(ALPHABET, repeat=2)]
    order = [metas[i] for i in STATE.get("bad", [])] + metas
    best = None
    for ops, _ in order[:6000]:
        v = prop_violation(ops)
        if v:
            ops = ops[:v["step"] + 1]
            changed = True
            while changed:
                changed = False
                for j in range(len(ops) - 1):
                    cand = ops[:j] + ops[j + 1:]
                    v2 = prop_violation(cand)
                    if v2:
                        ops, v, changed = cand[:v2["step"] + 1], v2, True
                        break
            cand = {"key": v.get("key", "c47-name-collision"), "ops": ops, "detail": v,
                    "contradicts": "C47.Props.names_unique_all_histories"}
            if best is None or len(ops) < len(best["ops"]):
                best = cand
            if len(best["ops"]) <= 3:
                break
    return best or STATE.get("rearer_finding")
