"""
C30 -- HTTP requests and WSGI responses survive the round trip.

Tie H: coq/C30/Percent.v + Model.v are hand models of the percent codec (urllib.parse as ioflo
uses it), httping.updateQargsQuery, the url-encoded form body and body/Content-Length selection
of Requester.build (FIXED behaviour), httping.packChunk / parseChunk, the HTTPError branch.
  theorems       : coq/C30/Props.v (all byte strings / all argument lists / all piece sequences)
  correspondence : (A) every modelled function against the real one inside Coq (vm_compute);
                   (B) generated requests and WSGI responses through the real Patron and Valet
                       over the socket double, checked against the property's statement.
"""
import itertools
import json
import os
import sys
from urllib.parse import quote_from_bytes, quote_plus, unquote_to_bytes, parse_qsl

sys.path.insert(0, os.path.dirname(os.path.abspath(__file__)))

from vlib import cz, clist, cbool, cbytes, copt  # noqa: E402

import harness  # noqa: E402

LEVEL = "proof"

METHODS = [u'GET', u'HEAD', u'PUT', u'PATCH', u'POST', u'DELETE', u'OPTIONS', u'TRACE', u'CONNECT']
RESERVED = u" &=+%;#?/:@[]!$'()*,\"<>\\^`{|}~"
UNI = u"üé€中\U0001f600 "

HEADER = """From Coq Require Import List ZArith Bool.
Import ListNotations.
Require Import V.C30.Percent V.C30.Model.
Open Scope Z_scope.
Fixpoint lz_eqb (a b : list Z) := match a, b with [], [] => true | x :: a', y :: b' => Z.eqb x y && lz_eqb a' b' | _, _ => false end.
Definition pr_eqb (a b : list Z * list Z) := lz_eqb (fst a) (fst b) && lz_eqb (snd a) (snd b).
Fixpoint prs_eqb (a b : list (list Z * list Z)) := match a, b with [], [] => true | x :: a', y :: b' => pr_eqb x y && prs_eqb a' b' | _, _ => false end.
Definition ct_code (c : ctype) : Z := match c with CtUser => 0 | CtJson => 1 | CtForm => 2 end.
Definition oz (o : option Z) : Z := match o with Some n => n | None => -1 end.
Definition sel (m : list Z) (hascl : bool) (d : option (list Z)) (f : option (list (list Z * list Z))) (b : list Z) :=
  let r := {| q_method := m; q_has_cl := hascl; q_data := d; q_fargs := f; q_body := b |} in
  (fst (select_body r) ++ [ct_code (snd (select_body r)); oz (added_content_length r)]).
Definition cv (evs : list wsgi_ev) : list Z :=
  let '(st, cl, b, c) := client_view (serve_app evs) in st :: oz cl :: (if c then 1 else 0) :: b.
Definition dres_code (d : dres) : list Z * list Z :=
  match d with NeedMore => ([-1], []) | Bad => ([-2], []) | Done b r => (0 :: b, r) end.
"""


def c_pairs(prs):
    return clist(["(%s, %s)" % (cbytes(k), cbytes(v)) for k, v in prs], "(list Z * list Z)")


# text for JSON / form / multipart fields: Latin-1 range, beyond Latin-1, CJK, emoji
NONASCII = [u"\u00e9", u"\u00fc\u00a9", u"caf\u00e9 \u00df", u"\u0142", u"\u20ac", u"\u4e2d\u6587", u"\U0001f600", u"a\u00e9\u0142\u20ac\U0001f600z"]

PCT_SHAPES = [u"%41", u"%2", u"%%", u"%25", u"%20", u"%zz", u"%C3%A9", u"%2F", u"%", u"%4", u"50%25off", u"a%20b", u"%e2%82%ac",
              u"%3D", u"%26", u"%2B", u"+%2B", u"%0A"]


def rand_text(rng, maxlen=8):
    n = rng.randint(0, maxlen)
    out = []
    if rng.random() < 0.25:      # text that contains a literal '%' shape / looks percent-quoted already
        out.append(rng.choice(PCT_SHAPES))
    for _ in range(n):
        x = rng.random()
        if x < 0.45:
            out.append(rng.choice(RESERVED))
        elif x < 0.6:
            out.append(rng.choice(UNI))
        else:
            out.append(rng.choice(u"abcXYZ019-._~"))
    rng.shuffle(out)
    return u"".join(out)


def rand_token(rng):
    return u"".join(rng.choice(u"abcdefgXYZ0123456789-._~") for _ in range(rng.randint(1, 6)))


def rand_bytes(rng, maxlen=40):
    return bytes(rng.randrange(256) for _ in range(rng.randint(0, maxlen)))


# ---------------------------------------------------------------- (A) function-level correspondence

RAISED_Z = "[(-999)%Z]"                  # outcome literal of a case in which the implementation raised
RAISED_PAIRS = "[([(-999)%Z], (@nil Z))]"


def impl_call(fn, *pa, **kwa):
    """call implementation code; an exception is an OUTCOME of the case, never the end of the run"""
    try:
        return fn(*pa, **kwa), None
    except Exception as ex:      # noqa: BLE001
        return None, "%s: %s" % (type(ex).__name__, ex)


def function_cases(ctx):
    """returns (list of (model_expr, impl_literal, eqb, meta))"""
    from ioflo.aid.odicting import odict
    from ioflo.aio.http import httping, clienting
    rng = ctx.rng
    bz, pz, sz = [], [], []   # list Z results, pair-list results, (list Z * list Z)
    safes = [("safe_none", ""), ("safe_slash", "/"), ("safe_form", "&=")]
    samples = [bytes([b]) for b in range(256)]
    samples += [rand_bytes(rng, 24) for _ in range(ctx.n(150, 1500))]
    samples += [rand_text(rng, 10).encode("utf-8") for _ in range(ctx.n(100, 1000))]
    for bs in samples:
        for cname, safe in safes:
            bz.append(("(quote %s %s)" % (cname, cbytes(bs)), cbytes(quote_from_bytes(bs, safe).encode("ascii")),
                       ("quote", safe, bs)))
            bz.append(("(quote_plus %s %s)" % (cname, cbytes(bs)), cbytes(quote_plus(bs, safe).encode("ascii")),
                       ("quote_plus", safe, bs)))
    alpha = b"%+4aAgG "
    uq = [bytes(t) for n in range(0, 4) for t in itertools.product(alpha, repeat=n)]
    uq += [bytes(rng.choice(b"%%%+ 0123456789abcdefABCDEFgG/&=") for _ in range(rng.randint(0, 16)))
           for _ in range(ctx.n(300, 3000))]
    for s in uq:
        bz.append(("(unquote %s)" % cbytes(s), cbytes(unquote_to_bytes(s)), ("unquote", s)))
        bz.append(("(unquote_plus %s)" % cbytes(s), cbytes(unquote_to_bytes(s.replace(b"+", b" "))), ("unquote_plus", s)))

    # updateQargsQuery: encoder and decoder
    for _ in range(ctx.n(250, 2500)):
        keys = []
        for _ in range(rng.randint(0, 4)):
            k = rand_token(rng)
            if k not in keys:
                keys.append(k)
        prs = [(k, rand_text(rng)) for k in keys]
        b = [(k.encode("utf-8"), v.encode("utf-8")) for k, v in prs]
        res, exc = impl_call(httping.updateQargsQuery, odict(prs), u'')
        if exc:
            bz.append(("(build_query %s)" % c_pairs(b), RAISED_Z, ("build_query RAISED " + exc, prs)))
            continue
        qargs, query = res
        bz.append(("(build_query %s)" % c_pairs(b), cbytes(query.encode("utf-8")), ("build_query", prs)))
        res, exc = impl_call(httping.updateQargsQuery, odict(), query)
        if exc:
            pz.append(("(parse_query %s)" % cbytes(query.encode("utf-8")), RAISED_PAIRS, ("parse_query RAISED " + exc, query)))
            continue
        back, _ = res
        pz.append(("(parse_query %s)" % cbytes(query.encode("utf-8")),
                   c_pairs([(k.encode("utf-8"), str(v).encode("utf-8")) for k, v in back.items()]),
                   ("parse_query", query)))
    raw_queries = [u"a=1;b=2", u"a=1&b=2;c=3", u"flag", u"a=1&flag&b=", u"a=1&a=2&b=3&a=4", u"&&a=b&&", u"a==b=c", u"=v", u"a=%zz+%41",
                   u"x=a+b%20c&y=%C3%BC", u";", u"a;b;c=d"]
    for q in raw_queries:
        res, exc = impl_call(httping.updateQargsQuery, odict(), q)
        if exc:
            pz.append(("(parse_query %s)" % cbytes(q.encode("utf-8")), RAISED_PAIRS, ("parse_query RAISED " + exc, q)))
            continue
        back, _ = res
        pz.append(("(parse_query %s)" % cbytes(q.encode("utf-8")),
                   c_pairs([(k.encode("utf-8"), str(v).encode("utf-8")) for k, v in back.items()]),
                   ("parse_query", q)))

    # Requester.build: body selection, Content-Length, form body
    for _ in range(ctx.n(300, 3000)):
        method = rng.choice(METHODS)
        user_cl = rng.random() < 0.15
        data = None
        fargs = None
        x = rng.random()
        if x < 0.3:
            data = {rand_text(rng, 4): rng.choice([1, None, True, rand_text(rng, 5), [1, {u"k": rand_text(rng, 3)}]])
                    for _ in range(rng.randint(0, 3))}
        if 0.2 < x < 0.6:
            fk = []
            for _ in range(rng.randint(0, 3)):
                k = rand_text(rng, 5) if rng.random() < 0.5 else rand_token(rng)
                if k not in fk:
                    fk.append(k)
            fargs = [(k, rand_text(rng)) for k in fk]
        body = rand_bytes(rng, 20) if rng.random() < 0.7 else b""
        hdrs = odict()
        if user_cl:
            hdrs[u'Content-Length'] = str(len(body))
        d = None if data is None else json.dumps(data, separators=(',', ':')).encode("utf-8")
        f = None if fargs is None else [(k.encode("utf-8"), v.encode("utf-8")) for k, v in fargs]
        model = "(sel %s %s %s %s %s)" % (cbytes(method.encode()), cbool(user_cl), copt(d, cbytes),
                                          copt(f, c_pairs), cbytes(body))
        msg, exc = impl_call(lambda: clienting.Requester(
            hostname='127.0.0.1', port=6101, method=method, path=u'/p', headers=hdrs, body=body, data=data,
            fargs=odict(fargs) if fargs is not None else None).build())
        if exc:
            bz.append((model, RAISED_Z, ("Requester.build RAISED " + exc, method, user_cl, data, fargs, body)))
            continue
        head, _, sent = msg.partition(b"\r\n\r\n")
        lines = head.split(b"\r\n")[1:]
        cls = [l.split(b":", 1)[1].strip() for l in lines if l.lower().startswith(b"content-length:")]
        cts = [l.split(b":", 1)[1].strip() for l in lines if l.lower().startswith(b"content-type:")]
        ct = 0
        if cts and cts[0].startswith(b"application/json"):
            ct = 1
        elif cts and cts[0].startswith(b"application/x-www-form-urlencoded"):
            ct = 2
        added = -1
        if len(cls) > (1 if user_cl else 0):
            added = int(cls[0])
        d = None if data is None else json.dumps(data, separators=(',', ':')).encode("utf-8")
        f = None if fargs is None else [(k.encode("utf-8"), v.encode("utf-8")) for k, v in fargs]
        model = "(sel %s %s %s %s %s)" % (cbytes(method.encode()), cbool(user_cl), copt(d, cbytes),
                                          copt(f, c_pairs), cbytes(body))
        bz.append((model, clist([cz(b) for b in sent] + [cz(ct), cz(added)], "Z"),
                   ("Requester.build", method, user_cl, data, fargs, body)))

    # packChunk / parseChunk
    for _ in range(ctx.n(120, 1500)):
        pieces = [rand_bytes(rng, rng.choice([0, 1, 3, 15, 16, 17, 40, 300])) for _ in range(rng.randint(0, 4))]
        wire, exc = impl_call(lambda: b"".join(httping.packChunk(p) for p in pieces if p) + httping.packChunk(b""))
        if exc:
            bz.append(("(chunked_body %s)" % clist([cbytes(p) for p in pieces], "(list Z)"), RAISED_Z, ("packChunk RAISED " + exc, pieces)))
            continue
        bz.append(("(chunked_body %s)" % clist([cbytes(p) for p in pieces], "(list Z)"), cbytes(wire), ("packChunk", pieces)))
        rest = rand_bytes(rng, 6)
        cut = rng.random() < 0.25
        buf = bytearray(wire + rest)
        if cut:
            del buf[rng.randint(0, len(wire) - 1):]
        given = bytes(buf)
        body = bytearray()
        status = 0
        try:
            while True:
                gen = httping.parseChunk(raw=buf)
                resu = next(gen)
                if resu is None:
                    status = -1
                    break
                size, parms, trails, chunk = resu
                if size:
                    body.extend(chunk)
                else:
                    break
        except (ValueError, httping.HTTPException):   # malformed chunk (class depends on C32's fix)
            status = -2
        except Exception:                              # anything else is an outcome too
            status = -3
        lit = "(%s, %s)" % ((clist([cz(0)] + [cz(b) for b in body], "Z"), cbytes(bytes(buf))) if status == 0
                            else (clist([cz(status)], "Z"), cbytes(b"")))
        sz.append(("(dres_code (dechunk 50 %s []))" % cbytes(given), lit, ("parseChunk", pieces, cut)))
    return bz, pz, sz


# ---------------------------------------------------------------- (B) whole exchanges

def gen_request(rng):
    method = rng.choice(METHODS)
    segs = [rand_text(rng, 5).replace(u"/", u"").replace(u"?", u"").replace(u"#", u"") for _ in range(rng.randint(0, 3))]
    path = u"/" + u"/".join(s for s in segs if s)
    if path.startswith(u"//"):
        path = u"/x" + path
    keys = []
    for _ in range(rng.randint(0, 3)):
        k = rand_token(rng)
        if k not in keys:
            keys.append(k)
    qargs = [(k, rand_text(rng)) for k in keys]
    hnames = [u"Accept", u"X-Token", u"User-Agent", u"Cookie", u"X-" + rand_token(rng)]
    headers = []
    for h in rng.sample(hnames, rng.randint(0, 3)):
        v = u"".join(rng.choice(u"abc XYZ;=,/éüÿ*\t!") for _ in range(rng.randint(1, 10))).strip() or u"v"
        if h.lower() not in [x.lower() for x, _ in headers]:   # header names are case-insensitive
            headers.append((h, v))
    req = {"method": method, "path": path, "qargs": qargs, "headers": headers, "body": None, "data": None, "fargs": None}
    x = rng.random()
    if x < 0.4:
        req["body"] = rand_bytes(rng, 60)
    elif x < 0.6:
        req["data"] = {rand_text(rng, 4): rng.choice([1, 2.5, None, True, rand_text(rng, 6), [1, {u"k": rand_text(rng, 3)}]])
                       for _ in range(rng.randint(0, 3))}
    elif x < 0.85:
        fk = []
        for _ in range(rng.randint(0, 3)):
            k = rand_token(rng) if rng.random() < 0.6 else rand_text(rng, 5)
            if k not in fk and k:
                fk.append(k)
        req["fargs"] = [(k, rand_text(rng)) for k in fk]
    return req


def gen_response(rng):
    from ioflo.aio.http import httping
    kind = rng.choice(['len', 'len', 'chunked', 'stream', 'empty', 'error_gen', 'error_call', 'raise', 'raise', 'raise'])
    hdrs = []
    for h in rng.sample([u"X-A", u"Etag", u"Cache-Control", u"X-" + rand_token(rng), u"Content-Type"], rng.randint(0, 3)):
        v = u"".join(rng.choice(u"abc XYZ;=,/éÿ*!") for _ in range(rng.randint(1, 10))).strip() or u"v"
        if h == u"Content-Type":
            v = rng.choice([u"text/plain", u"application/octet-stream", u"text/html; charset=utf-8"])
        if h.lower() not in [x.lower() for x, _ in hdrs]:   # header names are case-insensitive
            hdrs.append((h, v))
    code = rng.choice([200, 201, 202, 203, 206, 400, 401, 403, 404, 409, 410, 418, 500, 503, 299, 599])
    reason = httping.STATUS_DESCRIPTIONS.get(code, rng.choice([u"Custom Reason", u"Odd"]))
    resp = {"kind": kind, "status": "%d %s" % (code, reason), "headers": hdrs}
    if kind in ('len', 'chunked', 'stream'):
        resp["pieces"] = [rand_bytes(rng, rng.choice([0, 1, 5, 30, 200])) for _ in range(rng.randint(1, 4))]
        if kind == 'len' and not any(resp["pieces"]):
            resp["pieces"] = [b"x"]
    if kind == 'raise':
        # HTTPError raised at every point: before start_response / after it / after idle yields /
        # after body bytes; generator or plain callable; with and without a declared Content-Length
        resp["style"] = rng.choice(['gen', 'callable'])
        resp["start"] = rng.random() < 0.8
        n = rng.choice([0, 0, 1, 2, 3])
        resp["pieces"] = [b"" if rng.random() < 0.5 else rand_bytes(rng, rng.choice([1, 4, 30])) for _ in range(n)] \
            if resp["start"] else []
        tot = sum(len(p) for p in resp["pieces"])
        resp["declared"] = rng.choice([None, None, tot, tot + rng.randint(1, 9), max(0, tot - rng.randint(1, 3))]) \
            if resp["start"] else None
    if kind.startswith('error') or kind == 'raise':
        e = {"status": rng.choice([400, 404, 409, 500, 503, 700])}
        if rng.random() < 0.4:
            e["reason"] = rng.choice([u"Busy", u"Nope Not Now"])
        if rng.random() < 0.5:
            e["title"] = rand_token(rng)
        if rng.random() < 0.5:
            e["detail"] = u"detail " + rand_token(rng)
        if rng.random() < 0.3:
            e["fault"] = rng.randint(0, 99)
        if rng.random() < 0.4:
            e["headers"] = {u"X-Err": rand_token(rng)}
        resp["error"] = e
    return resp


def decode_multipart(ctype, body):
    """the text fields of a multipart/form-data body: [(name, value)] or a string saying why not"""
    import re
    m = re.search(r"boundary=([^;]+)", ctype or "")
    if not m:
        return "no boundary in %r" % ctype
    delim = b"--" + m.group(1).strip().encode("latin-1")
    try:
        parts = body.split(delim)
        if parts[-1].strip() != b"--":
            return "no closing delimiter"
        out = []
        for part in parts[1:-1]:
            head, _, val = part.partition(b"\r\n\r\n")
            nm = re.search(rb'name="(.*)"', head)
            if nm is None:
                return "part without name"
            if val.endswith(b"\r\n"):
                val = val[:-2]
            out.append((nm.group(1).decode("utf-8"), val.decode("utf-8")))
        return out
    except UnicodeDecodeError as ex:
        return "undecodable: %s" % ex


def exchange_violation(req, resp, out):
    """the property's statement evaluated on the implementation's observable result"""
    if out["error"]:
        return "exception escaped serviceAll: %s" % out["error"]
    env = out["environ"]
    if env is None:
        return "the WSGI application was never called"
    if env["REQUEST_METHOD"] != req["method"]:
        return "REQUEST_METHOD %r" % env["REQUEST_METHOD"]
    if env["PATH_INFO"] != req["path"]:
        return "PATH_INFO %r != path %r" % (env["PATH_INFO"], req["path"])
    got_q = parse_qsl(env["QUERY_STRING"], keep_blank_values=True, strict_parsing=bool(env["QUERY_STRING"]))
    if got_q != [(k, v) for k, v in req["qargs"]]:
        return "query arguments %r != %r (QUERY_STRING %r)" % (got_q, req["qargs"], env["QUERY_STRING"])
    for h, v in req["headers"]:
        if h.lower() == "content-type" and req["fargs"] is not None and req["method"] != u"GET":
            continue       # Requester rewrites it (boundary / form type)
        key = "HTTP_" + h.upper().replace("-", "_")
        if env.get(key) != v:
            return "header %s: %r != %r" % (h, env.get(key), v)
    body = env["wsgi.input"]
    if req["method"] == u"GET":
        want = b""
    elif req["data"] is not None:
        want = None
        try:
            if json.loads(body.decode("utf-8")) != json.loads(json.dumps(req["data"])):
                return "JSON body %r does not decode to data %r" % (body, req["data"])
        except ValueError:
            return "JSON body %r is not JSON" % body
        if not env.get("CONTENT_TYPE", "").startswith("application/json"):
            return "CONTENT_TYPE %r for JSON data" % env.get("CONTENT_TYPE")
    elif req["fargs"] is not None and any(k.lower() == "content-type" and v.startswith("multipart/form-data")
                                           for k, v in req["headers"]):
        want = None
        dec = decode_multipart(env.get("CONTENT_TYPE", ""), body)
        if dec != [(k, v) for k, v in req["fargs"]]:
            return "multipart body %r decodes to %r, form arguments were %r" % (body[:200], dec, req["fargs"])
    elif req["fargs"] is not None:
        want = None
        try:
            dec = parse_qsl(body.decode("utf-8"), keep_blank_values=True, strict_parsing=bool(body))
        except ValueError:
            dec = "undecodable"
        if dec != [(k, v) for k, v in req["fargs"]]:
            return "form body %r decodes to %r, form arguments were %r" % (body, dec, req["fargs"])
        if not env.get("CONTENT_TYPE", "").startswith("application/x-www-form-urlencoded"):
            return "CONTENT_TYPE %r for form arguments" % env.get("CONTENT_TYPE")
    else:
        want = req["body"] or b""
    if want is not None and body != want:
        return "body %r != %r" % (body[:60], want[:60])
    if env.get("CONTENT_LENGTH") != str(len(body)):
        return "CONTENT_LENGTH %r but wsgi.input holds %d bytes" % (env.get("CONTENT_LENGTH"), len(body))
    if env.get("SERVER_PROTOCOL") != "HTTP/1.1" or env.get("wsgi.url_scheme") != "http":
        return "SERVER_PROTOCOL/url_scheme %r %r" % (env.get("SERVER_PROTOCOL"), env.get("wsgi.url_scheme"))
    # response direction
    r = out["response"]
    head_sent = False
    if resp["kind"] == "raise":
        # a raised HTTPError is what the client must parse as long as no head has been sent, i.e.
        # no non-empty piece was yielded; afterwards the outcome is that of the application
        # stopping there: original status, the bytes so far (cut at the declared length)
        head_sent = resp["start"] and any(resp["pieces"])
        if head_sent:
            sofar = b"".join(resp["pieces"])
            if resp["declared"] is not None:
                sofar = sofar[:resp["declared"]]
            if resp["declared"] is not None and len(sofar) < resp["declared"]:
                # the declared length can never be reached: no complete response may be filed
                if r is not None and req["method"] != u"HEAD":   # (a HEAD client never waits for a body)
                    return "a response %r %r was filed although only %d of %d declared bytes exist" % (
                        r["status"], r["body"][:40], len(sofar), resp["declared"])
                st0 = resp["status"].split(" ")[0].encode()
                if not out["response_wire"].startswith(b"HTTP/1.1 " + st0) or not out["response_wire"].endswith(sofar):
                    return "wire %r does not hold the original head and the %d bytes yielded" % (out["response_wire"][:80], len(sofar))
                return None
    if r is None:
        return "no response reached the client"
    if resp["kind"].startswith("error") or (resp["kind"] == "raise" and not head_sent):
        ex = harness.make_error(resp["error"])
        st, reason = ex.status, ex.reason
        wbody = ex.render()
        whdrs = [(k, v) for k, v in ex.headers.items()] + [("content-length", str(len(wbody)))]
        if "content-type" not in [k.lower() for k in ex.headers]:
            whdrs.append(("content-type", "text/plain"))
    else:
        st, _, reason = resp["status"].partition(" ")
        st = int(st)
        wbody = b"".join(resp.get("pieces", []))
        if resp["kind"] == "raise" and resp["declared"] is not None:
            wbody = wbody[:resp["declared"]]
        whdrs = list(resp["headers"])
    if r["status"] != st or r["reason"] != reason:
        return "status %r %r != %r %r" % (r["status"], r["reason"], st, reason)
    for h, v in whdrs:
        if r["headers"].get(h.lower()) != v:
            return "response header %s: %r != %r" % (h, r["headers"].get(h.lower()), v)
    if req["method"] == u"HEAD" and r["body"] == b"":
        # a response to HEAD carries no body for the client (Respondent sets length 0 by RFC 7231
        # 4.3.2, unless the response is chunked); Valet does not suppress what the application
        # yields -- observation, see meta.json
        wbody = b""
    if r["body"] != wbody:
        return "response body %r != %r" % (r["body"][:60], wbody[:60])
    if out["calls"] != 1:
        return "application called %d times" % out["calls"]
    return None


WHOLE_HEADER = """From Coq Require Import List ZArith Bool.
Import ListNotations.
Require Import V.Lib.C29_Http V.C29.Model V.C30.WholeMessage.
Open Scope Z_scope.
Fixpoint lz_eqb (a b : list Z) := match a, b with [], [] => true | x :: a', y :: b' => Z.eqb x y && lz_eqb a' b' | _, _ => false end.
Definition pr_eqb (a b : list Z * list Z) := lz_eqb (fst a) (fst b) && lz_eqb (snd a) (snd b).
Fixpoint prs_eqb (a b : list (list Z * list Z)) := match a, b with [], [] => true | x :: a', y :: b' => pr_eqb x y && prs_eqb a' b' | _, _ => false end.
"""


def c_hdrs(h):
    return clist(["(%s, %s)" % (cbytes(k), cbytes(v)) for k, v in h], "(list Z * list Z)")


def whole_message_cases(req, resp, out):
    """model terms for the head bytes Requester.build / Responder.build produce and for the HTTP_*
    part of the WSGI environ, with what the implementation really produced"""
    heads, envs = [], []
    rw = out["request_wire"]
    head, sep, body = rw.partition(b"\r\n\r\n")
    if sep:
        line = head.split(b"\r\n")[0]
        method, url, _ = line.split(b" ")
        user = [(k.lower().encode("latin-1"), v.encode("latin-1")) for k, v in req["headers"]]
        if req["method"] != u"GET":
            if req["data"] is not None:
                user.append((b"content-type", b"application/json; charset=utf-8"))
            elif req["fargs"] is not None:
                if any(k.lower() == "content-type" for k, v in req["headers"]):
                    return [], []          # multipart: the boundary is random, not modelled
                user.append((b"content-type", b"application/x-www-form-urlencoded; charset=utf-8"))
        cls = clist([cz(int(d)) for d in str(len(body))], "Z")
        L = "(requester_headers %s %s %s %s)" % (cbytes(b"127.0.0.1:%d" % harness.PORT), c_hdrs(user), cbytes(body), cls)
        heads.append(("(requester_head %s %s %s)" % (cbytes(method), cbytes(url), L), cbytes(head + sep),
                      ("Requester.build head", req)))
        qa = clist(["(%s, %s)" % (cbytes(k.encode("utf-8")), cbytes(v.encode("utf-8"))) for k, v in req["qargs"]],
                   "(list Z * list Z)")
        heads.append(("(request_target %s %s)" % (cbytes(req["path"].encode("utf-8")), qa), cbytes(url),
                      ("Requester.build request target", req)))
        if out["environ"] is not None:
            got = [(k.encode("latin-1"), v.encode("latin-1")) for k, v in out["environ"].items() if k.startswith("HTTP_")]
            envs.append(("(environ_http %s)" % L, c_hdrs(got), ("buildEnviron HTTP_*", req)))
    if resp["kind"] in ("len", "chunked", "stream", "empty") and out["response_wire"]:
        whead, sep, _ = out["response_wire"].partition(b"\r\n\r\n")
        if sep:
            date = b""
            for l in whead.split(b"\r\n")[1:]:
                if l.lower().startswith(b"date:"):
                    date = l.split(b":", 1)[1].strip()
            h = [(k.lower().encode("latin-1"), v.encode("latin-1")) for k, v in resp["headers"]]
            if resp["kind"] == "len":
                h.append((b"content-length", str(sum(len(x) for x in resp["pieces"])).encode()))
            code, _, reason = resp["status"].partition(" ")
            ds = clist([cz(int(d)) for d in code], "Z")
            rs = clist([cbytes(w.encode("latin-1")) for w in reason.split(" ")], "(list Z)")
            heads.append(("(responder_head %s %s (responder_headers true %s %s))" % (ds, rs, cbytes(date), c_hdrs(h)),
                          cbytes(whead + sep), ("Responder.build head", resp)))
    return heads, envs


def resp_events(resp):
    """the WSGI application's behaviour as the model's event list"""
    ev = []
    kind = resp["kind"]
    if kind in ("error_gen", "error_call"):
        ex = harness.make_error(resp["error"])
        return [("raise", ex.status, ex.render())]
    code = int(resp["status"].split(" ")[0])
    if kind == "raise":
        if resp["start"]:
            ev.append(("start", code, resp["declared"]))
        ev += [("yield", p) for p in resp["pieces"]]
        ex = harness.make_error(resp["error"])
        ev.append(("raise", ex.status, ex.render()))
        return ev
    pieces = resp.get("pieces", [])
    ev.append(("start", code, sum(len(p) for p in pieces) if kind == "len" else None))
    ev += [("yield", p) for p in pieces]
    return ev


def c_events(evs):
    out = []
    for e in evs:
        if e[0] == "start":
            out.append("EvStart %s %s" % (cz(e[1]), copt(e[2], cz)))
        elif e[0] == "yield":
            out.append("EvYield %s" % cbytes(e[1]))
        else:
            out.append("EvRaise %s %s" % (cz(e[1]), cbytes(e[2])))
    return clist(out, "wsgi_ev")


def wire_view(wire):
    """(status, declared length or -1, complete 0/1, body bytes) read off the server->client bytes"""
    head, sep, rest = wire.partition(b"\r\n\r\n")
    if not sep:
        return [-1, -1, 0]
    lines = head.split(b"\r\n")
    status = int(lines[0].split(b" ")[1])
    hd = {}
    for l in lines[1:]:
        k, _, v = l.partition(b":")
        hd[k.strip().lower()] = v.strip()
    if hd.get(b"transfer-encoding", b"").lower() == b"chunked":
        body, complete = bytearray(), 0
        while True:
            j = rest.find(b"\r\n")
            if j < 0:
                break
            n = int(rest[:j], 16)
            rest = rest[j + 2:]
            if n == 0:
                complete = 1 if rest[:2] == b"\r\n" else 0
                break
            body.extend(rest[:n])
            rest = rest[n + 2:]
        return [status, -1, complete] + list(body)
    if b"content-length" in hd:
        n = int(hd[b"content-length"])
        return [status, n, 1 if len(rest) == n else 0] + list(rest)
    return [status, -1, 0] + list(rest)


def responder_fields(repo):
    """(reads, writes) of `self` attributes per method of serving.Responder, from the AST; fail-closed"""
    import ast
    path = os.path.join(repo, "ioflo", "aio", "http", "serving.py")
    tree = ast.parse(open(path).read())
    cls = [n for n in tree.body if isinstance(n, ast.ClassDef) and n.name == "Responder"]
    if len(cls) != 1:
        raise ValueError("class Responder not found exactly once")
    out = {}
    for fn in cls[0].body:
        if not isinstance(fn, ast.FunctionDef):
            continue
        reads, writes = set(), set()
        for node in ast.walk(fn):
            if isinstance(node, ast.Attribute) and isinstance(node.value, ast.Name) and node.value.id == "self":
                if isinstance(node.ctx, ast.Store) or isinstance(node.ctx, ast.Del):
                    writes.add(node.attr)
                else:
                    reads.add(node.attr)
            # self.x[...] = v  /  self.x.update(...) mutate x
            if isinstance(node, ast.Subscript) and isinstance(node.ctx, ast.Store):
                v = node.value
                if isinstance(v, ast.Attribute) and isinstance(v.value, ast.Name) and v.value.id == "self":
                    writes.add(v.attr)
            if isinstance(node, ast.AugAssign):
                t = node.target
                if isinstance(t, ast.Attribute) and isinstance(t.value, ast.Name) and t.value.id == "self":
                    reads.add(t.attr)
                    writes.add(t.attr)
        out[fn.name] = (reads, writes)
    for m in ("reset", "build", "write", "start", "service", "close"):
        if m not in out:
            raise ValueError("Responder.%s not found" % m)
    return out


def gen(ctx):
    """regenerate coq/gen/C30_ResponderFields.v from the implementation under test"""
    f = responder_fields(ctx.repo)
    methods = ("build", "write", "start", "service")
    reads = sorted(set().union(*[f[m][0] for m in methods]))
    writes = sorted(set().union(*[f[m][1] for m in methods + ("close",)]))
    resetw = sorted(f["reset"][1])

    def cl(xs):
        return "[" + "; ".join('"%s"' % x for x in xs) + "]"
    text = ("(* GENERATED by props/C30/check.py from ioflo/aio/http/serving.py class Responder -- do not edit *)\n"
            "From Coq Require Import String List.\nImport ListNotations.\nOpen Scope string_scope.\n"
            "(* attributes of self READ by build / write / start / service *)\n"
            "Definition response_reads : list string := %s.\n"
            "(* attributes of self ASSIGNED (or mutated in place) by build / write / start / service / close *)\n"
            "Definition response_writes : list string := %s.\n"
            "(* attributes of self ASSIGNED by reset *)\n"
            "Definition reset_writes : list string := %s.\n" % (cl(reads), cl(writes), cl(resetw)))
    ctx.write_gen("C30_ResponderFields.v", text)
    return f


def quote_calls(repo):
    """the percent-codec calls of the implementation: (function, safe set) per site; fail-closed"""
    import ast

    def method(path, cls, name):
        tree = ast.parse(open(os.path.join(repo, "ioflo", "aio", "http", path)).read())
        body = tree.body
        if cls:
            c = [n for n in body if isinstance(n, ast.ClassDef) and n.name == cls]
            if len(c) != 1:
                raise ValueError("class %s" % cls)
            body = c[0].body
        f = [n for n in body if isinstance(n, ast.FunctionDef) and n.name == name]
        if len(f) != 1:
            raise ValueError("function %s.%s" % (cls, name))
        return f[0]

    def calls(fn, names):
        out = []
        for n in ast.walk(fn):
            if isinstance(n, ast.Call) and isinstance(n.func, ast.Name) and n.func.id in names:
                out.append(n)
            elif isinstance(n, ast.Call) and isinstance(n.func, ast.Attribute) and n.func.attr in names:
                raise ValueError("qualified call of %s" % n.func.attr)
        return out

    def safe_of(call):
        default = "/" if call.func.id == "quote" else ""
        extra = [k for k in call.keywords if k.arg != "safe"]
        if extra or len(call.args) > 2:
            raise ValueError("unexpected arguments in %s(...)" % call.func.id)
        node = call.args[1] if len(call.args) == 2 else None
        for k in call.keywords:
            if k.arg == "safe":
                node = k.value
        if node is None:
            return default
        if not (isinstance(node, ast.Constant) and isinstance(node.value, str)):
            raise ValueError("safe set of %s(...) is not a literal" % call.func.id)
        return node.value

    Q = ("quote", "quote_plus", "quote_from_bytes")
    build = calls(method("clienting.py", "Requester", "build"), Q)
    path_calls = [c for c in build if isinstance(c.args[0], ast.Name) and c.args[0].id == "path"]
    form_calls = [c for c in build if c not in path_calls]
    if len(path_calls) != 1 or len(form_calls) != 2:
        raise ValueError("Requester.build: %d path / %d form quote calls" % (len(path_calls), len(form_calls)))
    if len(set((c.func.id, safe_of(c)) for c in form_calls)) != 1:
        raise ValueError("form name and value are quoted differently")
    uq = calls(method("httping.py", None, "updateQargsQuery"), Q)
    if len(uq) != 1:
        raise ValueError("updateQargsQuery: %d quote calls" % len(uq))
    sp = calls(method("serving.py", "Requestant", "parseHead"), ("unquote", "unquote_plus", "unquote_to_bytes"))
    if len(sp) != 1 or not (isinstance(sp[0].args[0], ast.Attribute) and sp[0].args[0].attr == "path") or len(sp[0].args) != 1 \
            or sp[0].keywords:
        raise ValueError("Requestant.parseHead: unquote of the path not found exactly once")
    fn = {"quote": 0, "quote_plus": 1, "unquote": 0, "unquote_plus": 1}
    for c in path_calls + form_calls + uq + sp:
        if c.func.id not in fn:
            raise ValueError("unmodelled function %s" % c.func.id)
    return {"path": (fn[path_calls[0].func.id], safe_of(path_calls[0])),
            "form": (fn[form_calls[0].func.id], safe_of(form_calls[0])),
            "query": (fn[uq[0].func.id], safe_of(uq[0])),
            "server_path": fn[sp[0].func.id]}


def gen_quote(ctx):
    q = quote_calls(ctx.repo)

    def zs(t):
        return "[" + "; ".join(str(b) for b in t.encode("ascii")) + "]"
    text = ("(* GENERATED by props/C30/check.py from the quote/unquote calls in Requester.build, "
            "httping.updateQargsQuery and Requestant.parseHead -- do not edit *)\n"
            "From Coq Require Import List ZArith.\nImport ListNotations.\nOpen Scope Z_scope.\n"
            "(* function: 0 = quote / unquote, 1 = quote_plus / unquote_plus *)\n"
            "Definition path_quote_fn : Z := %d.\nDefinition path_safe : list Z := %s.\n"
            "Definition query_quote_fn : Z := %d.\nDefinition query_value_safe : list Z := %s.\n"
            "Definition form_quote_fn : Z := %d.\nDefinition form_safe : list Z := %s.\n"
            "Definition server_path_unquote_fn : Z := %d.\n" % (
                q["path"][0], zs(q["path"][1]), q["query"][0], zs(q["query"][1]),
                q["form"][0], zs(q["form"][1]), q["server_path"]))
    ctx.write_gen("C30_QuoteCalls.v", text)
    return q


SEQ_KINDS = ["len", "chunked", "stream", "empty", "error_gen", "error_call", "raise0"]


def seq_response(rng, kind):
    """a response of the given class that is always complete (so the connection stays usable)"""
    for _ in range(200):
        r = gen_response(rng)
        if kind == "raise0":
            if r["kind"] == "raise" and not (r["start"] and any(r["pieces"])):
                return r
        elif r["kind"] == kind:
            return r
    raise ValueError(kind)


def seq_request(rng):
    for _ in range(200):
        q = gen_request(rng)
        if q["method"] != u"HEAD":        # (a reply to HEAD leaves its body on the connection: see meta.json)
            return q
    raise ValueError("request")


def split_responses(wire, n):
    """cut the server->client bytes of one connection into n response segments by their own framing"""
    segs, buf = [], bytes(wire)
    while buf and len(segs) < n:
        k = buf.find(b"\r\n\r\n")
        if k < 0:
            break
        head, rest = buf[:k], buf[k + 4:]
        hd = {}
        for l in head.split(b"\r\n")[1:]:
            a, _, b = l.partition(b":")
            hd[a.strip().lower()] = b.strip()
        end = None
        if hd.get(b"transfer-encoding", b"").lower() == b"chunked":
            pos = 0
            while True:
                j = rest.find(b"\r\n", pos)
                if j < 0:
                    break
                try:
                    size = int(rest[pos:j], 16)
                except ValueError:
                    break
                if size == 0:
                    if rest[j + 2:j + 4] == b"\r\n":
                        end = j + 4
                    break
                pos = j + 2 + size + 2
        elif b"content-length" in hd:
            cl = int(hd[b"content-length"])
            if len(rest) >= cl:
                end = cl
        if end is None:
            break
        segs.append(buf[:k + 4 + end])
        buf = rest[end:]
    if buf and len(segs) < n:
        segs.append(buf)
    while len(segs) < n:
        segs.append(b"")
    return segs


def run(ctx):
    ctx.rule = ("(A) per function: every single byte x 3 safe sets, all strings over '%+4aAgG ' up to length 3, seeded random "
                "byte/unicode strings (quote, quote_plus, unquote, unquote_plus); random token-keyed query arguments with "
                "reserved/unicode values and hand-written odd query strings (updateQargsQuery both ways); random Requester "
                "inputs (method x data x fargs x body x own Content-Length) for body/Content-Length/Content-Type selection; "
                "random piece lists through packChunk and (possibly truncated) through parseChunk. (B) seeded random "
                "requests (9 methods, unicode paths, token query names with arbitrary values, latin-1 headers, binary "
                "body | JSON | form arguments) x responses (fixed, chunked, generator-streamed, empty, HTTPError raised in "
                "the generator or by the call, and HTTPError raised at every point -- before/after start_response, after idle "
                "yields, after body bytes, generator or plain callable, with/without declared Content-Length) through real Patron and Valet; non-trivial = value with a reserved or "
                "non-ASCII character, or a length-less / error response")
    ctx.assumptions = [
        "transport double fakenet (C31); lone exchanges use a fresh connection, sequences of 2-3 exchanges share ONE keep-alive connection",
        "UTF-8 / latin-1 / JSON codecs and str() are CPython's: text enters the model as its UTF-8 bytes",
        "multipart/form-data bodies (random boundary) are not modelled",
        "header values are latin-1 text without CR/LF and without leading/trailing blanks; names are tokens",
    ]
    harness.fakenet.quiet()
    try:
        gen(ctx)
    except Exception as ex:
        ctx.tie_broken("translator", "Responder field extraction", repr(ex))
    try:
        gen_quote(ctx)
    except Exception as ex:
        ctx.tie_broken("translator", "quote/unquote call extraction", repr(ex))
    ctx.coq_build(["C30/Props.v", "C30/WholeMessage.v", "C30/PropsWhole.v", "C30/PropsReset.v", "C30/PropsQuote.v"])

    bz, pz, sz = function_cases(ctx)
    for group, eqb, nm in ((bz, "lz_eqb", "fn_bytes"), (pz, "prs_eqb", "fn_pairs"), (sz, "pr_eqb", "fn_chunk")):
        for c in group:
            ctx.case({"fn": repr(c[2])[:200]}, nontrivial=True, kind=c[2][0].split(" RAISED")[0] + (" RAISED" if " RAISED" in c[2][0] else ""))
        bad = ctx.coq_cases(HEADER, eqb, [(c[0], c[1]) for c in group], shard=250, name=nm)
        for i in bad[:4]:
            ctx.tie_broken("correspondence", "C30 model vs %s" % group[i][2][0], repr(group[i][2])[:800])
        ctx.extra["mismatches_" + nm] = len(bad)

    failing = []
    evcases, evmeta = [], []
    pct_requests = []
    for path in [u"/sale/50%25off", u"/files/report%20final.txt", u"/caf%C3%A9", u"/%41", u"/%4", u"/%%", u"/a%zz/b",
                 u"/%2F%2f", u"/100%", u"/%25%2525", u"/x%20y z+w", u"/é%C3%A9"]:
        pct_requests.append({"method": u"GET", "path": path, "qargs": [(u"k", path[1:]), (u"q", u"%26=%3D+%2B")],
                             "headers": [], "body": None, "data": None, "fargs": None})
        pct_requests.append({"method": u"POST", "path": path, "qargs": [], "headers": [], "body": None, "data": None,
                             "fargs": [(u"f%41", path), (u"g", u"%%20")]})
    whead_cases, wenv_cases = [], []
    for val in NONASCII:
        pct_requests.append({"method": u"POST", "path": u"/j", "qargs": [], "headers": [], "body": None,
                             "data": {u"k": val, val: [val, {u"n": 1}]}, "fargs": None})
        pct_requests.append({"method": u"PUT", "path": u"/f", "qargs": [(u"q", val)], "headers": [], "body": None,
                             "data": None, "fargs": [(u"k", val), (val, u"v")]})
        pct_requests.append({"method": u"POST", "path": u"/m", "qargs": [], "body": None, "data": None,
                             "headers": [(u"Content-Type", u"multipart/form-data")], "fargs": [(u"k", val), (u"n", u"x " + val)]})
    nrand = ctx.n(450, 5000)
    for it in range(len(pct_requests) + nrand):
        req = pct_requests[it] if it < len(pct_requests) else gen_request(ctx.rng)
        resp = gen_response(ctx.rng)
        out = harness.run_exchange(req, resp)
        if len(whead_cases) < ctx.n(60, 600) and not out["error"]:
            hs, es = whole_message_cases(req, resp, out)
            whead_cases += hs
            wenv_cases += es
        if out["response_wire"] and not out["error"]:
            evcases.append(("(cv %s)" % c_events(resp_events(resp)), clist([cz(x) for x in wire_view(out["response_wire"])], "Z")))
            evmeta.append((req, resp, out))
        texts = [v for k, v in req["qargs"]] + [v for k, v in (req["fargs"] or [])] + [req["path"]]
        nontrivial = any(any((c in RESERVED and c != u"/") or ord(c) > 127 for c in t) for t in texts) \
            or resp["kind"] not in ("len",)
        ctx.case({"req": repr(req)[:300], "resp": repr(resp)[:200]}, nontrivial=nontrivial, kind="exchange:" + resp["kind"])
        why = exchange_violation(req, resp, out)
        if why:
            failing.append((req, resp, out, why))
    # SEQUENCES of 2-3 exchanges on ONE keep-alive connection (reused Requestant / Responder): every
    # ordered pair of response classes, plus seeded random triples (all triples in the thorough tier);
    # each exchange is held against the same statement as a lone one, and its bytes on the wire
    # against the model's serve_app of THAT exchange alone
    seqs = [[a, b] for a in SEQ_KINDS for b in SEQ_KINDS]
    if ctx.thorough:
        seqs += [[a, b, c] for a in SEQ_KINDS for b in SEQ_KINDS for c in SEQ_KINDS]
    else:
        seqs += [[ctx.rng.choice(SEQ_KINDS) for _ in range(3)] for _ in range(25)]
    seq_failing = []
    for kinds in seqs:
        pairs = [(seq_request(ctx.rng), seq_response(ctx.rng, k)) for k in kinds]
        outs = harness.run_sequence(pairs)
        segs = split_responses(outs[0]["response_wire"], len(pairs))
        ctx.case({"sequence": kinds}, nontrivial=len(set(kinds)) > 1, kind="sequence:%d" % len(kinds))
        for k, ((req, resp), out) in enumerate(zip(pairs, outs)):
            why = exchange_violation(req, resp, out)
            if why:
                seq_failing.append((pairs, k, outs, "exchange %d of %d on one connection: %s" % (k + 1, len(pairs), why)))
                break
            if segs[k] and not out["error"]:
                evcases.append(("(cv %s)" % c_events(resp_events(resp)), clist([cz(x) for x in wire_view(segs[k])], "Z")))
                evmeta.append((req, resp, dict(out, response_wire=segs[k])))
    for pairs, k, outs, why in seq_failing[:3]:
        ctx.tie_broken("correspondence", "property statement on the implementation (sequence)",
                       "%s; kinds=%r" % (why, [p[1]["kind"] for p in pairs]))
    ctx.extra["sequence_failures"] = len(seq_failing)

    for group, eqb, nm in ((whead_cases, "lz_eqb", "whole_heads"), (wenv_cases, "prs_eqb", "whole_environ")):
        for c in group:
            ctx.case({"whole": repr(c[2])[:200]}, nontrivial=True, kind=c[2][0])
        badw = ctx.coq_cases(WHOLE_HEADER, eqb, [(c[0], c[1]) for c in group], shard=40, name=nm)
        for i in badw[:3]:
            ctx.tie_broken("correspondence", "C30 WholeMessage model vs %s" % group[i][2][0], repr(group[i][2])[:800])
        ctx.extra["mismatches_" + nm] = len(badw)
    badev = ctx.coq_cases(HEADER, "lz_eqb", evcases, shard=150, name="resp_events")
    for i in badev[:4]:
        ctx.tie_broken("correspondence", "C30 model serve_app/client_view vs Responder.service",
                       "resp=%r wire=%r" % (evmeta[i][1], evmeta[i][2]["response_wire"][:300]))
    ctx.extra["mismatches_resp_events"] = len(badev)
    for req, resp, out, why in failing[:4]:
        ctx.tie_broken("correspondence", "property statement on the implementation", "%s; req=%r resp=%r" % (why, req, resp))
    ctx.extra["property_failures"] = len(failing)
    ctx.exhaustive = False

    def search():
        if seq_failing and not failing:
            # an exchange that is fine alone but wrong after another one on the same connection
            pairs, k, outs, why = min(seq_failing, key=lambda c: (len(c[0]), len(repr(c[0]))))
            # shrink: the failing exchange and ONE predecessor
            for j in range(k):
                two = [pairs[j], pairs[k]]
                o2 = harness.run_sequence(two)
                w2 = exchange_violation(two[1][0], two[1][1], o2[1])
                if w2 and not exchange_violation(two[0][0], two[0][1], o2[0]):
                    pairs, k, outs, why = two, 1, o2, "exchange 2 of 2 on one connection: " + w2
                    break
            alone = harness.run_exchange(pairs[k][0], pairs[k][1])
            return {"key": "responder-state-leaks-across-exchanges",
                    "exchanges": [(repr(q), repr(r)) for q, r in pairs], "failing_exchange": k + 1, "why": why,
                    "same_exchange_alone_ok": exchange_violation(pairs[k][0], pairs[k][1], alone) is None,
                    "response_wire": repr(outs[0]["response_wire"][:900]),
                    "client_got": repr(outs[k]["response"] and (outs[k]["response"]["status"], outs[k]["response"]["body"][:80])),
                    "contradicts": "C30.PropsReset.responder_reset_clears_state / error_response_body"}
        cands = list(failing)
        # directed: the two shapes the theorems single out
        for req, resp in directed():
            out = harness.run_exchange(req, resp)
            why = exchange_violation(req, resp, out)
            if why:
                cands.insert(0, (req, resp, out, why))
        if not cands:
            return None
        best = min(cands, key=lambda c: len(repr(c[0])) + len(repr(c[1])))
        req, resp, out, why = best
        if "JSON" in why or ("UnicodeEncodeError" in why and req.get("data") is not None):
            key = "json-body-not-utf8"
        elif "PATH_INFO" in why:
            key = "path-percent-not-escaped"
        elif "form" in why:
            key = "form-reserved-chars"
        elif "HTTPError" in why and resp["kind"] == "error_call":
            key = "httperror-at-call"
        elif resp["kind"] == "raise":
            key = "httperror-raised-%s" % ("after-bytes" if (resp["start"] and any(resp["pieces"])) else
                                           ("after-start" if resp["start"] else "before-start"))
        else:
            key = "roundtrip-other"
        return {"key": key, "request": repr(req), "response_spec": repr(resp), "why": why,
                "request_wire": repr(out["request_wire"][:600]), "response_wire": repr(out["response_wire"][:600]),
                "contradicts": "C30.Props.form_roundtrip" if key == "form-reserved-chars" else "C30 response round trip"}

    ctx.settle(search)


def directed():
    ok = {"kind": "len", "status": "200 OK", "headers": [], "pieces": [b"ok"]}
    base = {"method": u"POST", "path": u"/f", "qargs": [], "headers": [], "body": None, "data": None, "fargs": None}
    r1 = dict(base)
    r1["fargs"] = [(u"a", u"x&y=z")]
    r2 = dict(base)
    out = [(r1, ok), (r2, {"kind": "error_call", "error": {"status": 404}})]
    get = dict(base)
    get["method"] = u"GET"
    for style in ("gen", "callable"):
        for start, pieces, declared in ((False, [], None), (True, [], None), (True, [], 5), (True, [b""], None),
                                        (True, [b""], 3), (True, [b"ab"], None), (True, [b"ab"], 5), (True, [b"ab"], 2)):
            out.append((get, {"kind": "raise", "style": style, "start": start, "pieces": pieces, "declared": declared,
                              "status": "200 OK", "headers": [("X-A", "b")], "error": {"status": 404, "title": "T"}}))
    return out


def search(ctx):
    """fallback used by lib/main.py when run() itself was aborted by an exception: the directed
    exchanges through the real Patron -> Valet pair, held against the end-to-end statement"""
    harness.fakenet.quiet()
    ok = {"kind": "len", "status": "200 OK", "headers": [], "pieces": [b"ok"]}
    cands = list(directed())
    for val in NONASCII:
        cands.append(({"method": u"POST", "path": u"/j", "qargs": [], "headers": [], "body": None,
                       "data": {u"k": val}, "fargs": None}, ok))
    for req, resp in cands:
        out = harness.run_exchange(req, resp)
        why = exchange_violation(req, resp, out)
        if why:
            return {"key": "roundtrip-directed", "request": repr(req), "response_spec": repr(resp), "why": why,
                    "request_wire": repr(out["request_wire"][:600]), "contradicts": "C30 end-to-end round trip"}
    return None
