"""
Round trips through the real Patron (client) and the real Valet (WSGI server) over the fakenet
double.

run_exchange(req, resp) sends ONE request described by `req` and has the WSGI application
answer as described by `resp`; it returns what the application saw (the WSGI environ, with
wsgi.input read) and what the client filed (status, reason, headers, body, data).

req  : dict(method, path, qargs=[(k, v)...], headers=[(k, v)...], body=bytes|None,
            data=json-able|None, fargs=[(k, v)...]|None)
resp : dict(kind='len'|'chunked'|'stream'|'empty'|'error_gen'|'error_call',
            status='200 OK', headers=[(k, v)...], pieces=[bytes...],
            error=dict(status, reason, title, detail, fault, headers))
       or dict(kind='raise', style='gen'|'callable', start=bool, declared=None|int,
            status, headers, pieces=[bytes... yielded BEFORE the error], error=...)
            the application raises HTTPError at a chosen point:
              start=False             before start_response (callable: while being called;
                                      generator: at the first next())
              start=True, pieces=[]   after start_response, before anything is yielded
                                      (callable: still inside the call)
              start=True, pieces=...  after yielding the pieces (b'' = idle yield); a callable
                                      returns an iterator object whose __next__ raises
            declared = Content-Length the application declared in start_response (or None)
"""
import collections.abc  # noqa: F401
import os
import sys

sys.path.insert(0, os.path.join(os.path.dirname(os.path.abspath(__file__)), "..", "C31"))
import fakenet  # noqa: E402

PORT = 6101


def make_error(spec):
    from ioflo.aio.http import httping
    return httping.HTTPError(spec["status"], reason=spec.get("reason", ""), title=spec.get("title", ""),
                             detail=spec.get("detail", ""), fault=spec.get("fault"),
                             headers=spec.get("headers") or None)


def make_wsgi(resp):
    """the WSGI application answering as described by `resp`"""
    def genapp(environ, start_response):
        if resp["kind"] == 'error_gen':
            raise make_error(resp["error"])
        hdrs = list(resp.get("headers", []))
        if resp["kind"] == 'len':
            hdrs.append(('Content-Length', str(sum(len(p) for p in resp["pieces"]))))
        start_response(resp["status"], hdrs)
        for p in resp.get("pieces", []):
            yield p

    class RaisingIterator(object):
        """iterator (not a generator) that yields the pieces, raises HTTPError once, then stops"""
        def __init__(self, pieces):
            self.todo = list(pieces)
            self.raised = False

        def __iter__(self):
            return self

        def __next__(self):
            if self.todo:
                return self.todo.pop(0)
            if not self.raised:
                self.raised = True
                raise make_error(resp["error"])
            raise StopIteration

    def raise_headers():
        hdrs = list(resp.get("headers", []))
        if resp.get("declared") is not None:
            hdrs.append(('Content-Length', str(resp["declared"])))
        return hdrs

    def raising_gen(environ, start_response):
        if resp["start"]:
            start_response(resp["status"], raise_headers())
        for p in resp.get("pieces", []):
            yield p
        raise make_error(resp["error"])

    def raising_callable(environ, start_response):
        if resp["start"]:
            start_response(resp["status"], raise_headers())
        if not resp["start"] or not resp.get("pieces"):
            raise make_error(resp["error"])
        return RaisingIterator(resp["pieces"])

    def app(environ, start_response):
        kind = resp["kind"]
        if kind == 'raise':
            if resp["style"] == 'gen':
                return raising_gen(environ, start_response)
            return raising_callable(environ, start_response)
        if kind == 'error_call':
            raise make_error(resp["error"])
        if kind in ('stream', 'error_gen'):
            return genapp(environ, start_response)
        hdrs = list(resp.get("headers", []))
        if kind == 'len':
            hdrs.append(('Content-Length', str(sum(len(p) for p in resp["pieces"]))))
        start_response(resp["status"], hdrs)
        if kind == 'empty':
            return []
        return list(resp["pieces"])
    return app


def run_sequence(pairs, max_rounds=60):
    """pairs = [(req, resp), ...] sent one after the other on ONE keep-alive connection (the Valet
    reuses its Requestant and Responder).  Returns one result dict per exchange (shape of
    run_exchange's) plus, in each, the whole connection's wire bytes."""
    from ioflo.aid.odicting import odict
    from ioflo.base import storing
    from ioflo.aio.http import clienting, serving
    net = fakenet.install()
    store = storing.Store(stamp=0.0)
    seen = []
    n = len(pairs)

    def app(environ, start_response):
        idx = min(len(seen), n - 1)
        env = {}
        for k, v in environ.items():
            if k == 'wsgi.input':
                env[k] = v.read()
            elif k == 'wsgi.errors':
                continue
            else:
                env[k] = v
        seen.append(env)
        return make_wsgi(pairs[idx][1])(environ, start_response)

    alpha = serving.Valet(port=PORT, bufsize=131072, store=store, app=app)
    assert alpha.servant.reopen()
    beta = clienting.Patron(bufsize=131072, store=store, hostname='127.0.0.1', port=PORT, reconnectable=True)
    assert beta.connector.reopen()
    error = None
    try:
        for req, _ in pairs:
            request = odict([('method', req["method"]), ('path', req["path"]),
                             ('qargs', odict(req.get("qargs") or [])), ('fragment', u''),
                             ('headers', odict(req.get("headers") or [])),
                             ('body', req.get("body"))])
            if req.get("data") is not None:
                request['data'] = req["data"]
            if req.get("fargs") is not None:
                request['fargs'] = odict(req["fargs"])
            beta.requests.append(request)
        idle = 0
        for _ in range(max_rounds * n):
            before = (len(beta.responses), sum(len(s.sent) for s in net.socks))
            alpha.serviceAll()
            beta.serviceAll()
            after = (len(beta.responses), sum(len(s.sent) for s in net.socks))
            if len(beta.responses) >= n:
                break
            idle = idle + 1 if before == after else 0
            if idle >= 12:
                break
        # a client that answers early (HEAD) must not cut the observation of the server short
        for _ in range(12):
            alpha.serviceAll()
    except Exception as ex:
        error = "%s: %s" % (type(ex).__name__, ex)
    rw = bytes(net.connections[0][0].sent) if net.connections else b''
    ww = bytes(net.connections[0][1].sent) if net.connections else b''
    outs = []
    for k in range(n):
        out = {"environ": seen[k] if k < len(seen) else None, "calls": 1 if k < len(seen) else 0,
               "error": error, "response": None, "client_rx": bytes(beta.connector.rxbs), "waited": beta.waited,
               "request_wire": rw, "response_wire": ww, "total_calls": len(seen)}
        if k < len(beta.responses):
            r = beta.responses[k]
            out["response"] = {"status": r["status"], "reason": r["reason"], "version": r["version"],
                               "headers": dict(r["headers"].items()), "body": bytes(r["body"]),
                               "data": r["data"], "errored": r["errored"], "error": r["error"]}
        outs.append(out)
    try:
        alpha.servant.closeAll()
        beta.connector.close()
    except Exception:
        pass
    return outs


def run_exchange(req, resp, max_rounds=60):
    out = run_sequence([(req, resp)], max_rounds)[0]
    out["calls"] = out["total_calls"]
    return out
