"""C05 -- a running framer's active frames are exactly its active frame's outline (kernel property)."""
import kprops

LEVEL = "proof"


def run(ctx):
    kprops.kernel_check(
        ctx, "C05",
        runs=[dict(label="forest", quick=40, thorough=400, features={"bid": True}, ticks=(0.125, 0.1), crash="none"),
              dict(label="crash", quick=15, thorough=150, features={}, ticks=(0.125,), crash="all")],
        preds=["C05", "C05s", "C06"],
        rule=("random kernel programs (nested frames via 'in', primary-child overrides via 'under', several children, "
              "transitions, plain and conditional auxiliaries, stop/abort bids, injected exceptions); after EVERY runner "
              "send the framer's status, active outline, elapsed and recurred are compared with the Coq model (vm_compute, "
              "binary64); the implementation-only statement checks each logged outline against the outline/head computed "
              "independently from the program text. Non-trivial = at least one outline change and > 6 events"))
