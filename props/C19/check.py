"""
C19 -- share stamps, fields and decks follow their documented rules.

Tie H: coq/C19/Model.v is a hand model of Share.value / update / change / create / stampNow /
__setitem__ / __getitem__ / __delitem__ / __contains__, Data.__setattr__ (REO_IdentPub) and
Deck.push / pull / gulp / spew for two shares (A in a Store, B without a store) and the store clock.
  theorems       : coq/C19/Props.v
  correspondence : op interleavings run on real Share objects and on the model; the result of every
                   op and the observation of BOTH shares (items() or KeyError, keys(), len, stamp,
                   deck) and of the store stamp compared after every step inside Coq.
  search         : the implementation alone against the property's executable statement.
"""
import itertools

from vlib import cz, clist, cbool, copt

LEVEL = "proof"

# field-name alphabet: public identifiers and names that are not (ASCII only; names that are
# attributes of class Data itself -- _change, _sift, _show, dunder names -- are excluded, see meta.json)
GOOD = ["value", "x", "y1", "a_b"]
BAD = ["_p", "1a", "", "a-b", "a b", "x\n", "\n", "x\n\n", "a.b"]
NAMES = GOOD + BAD


def is_public_identifier(k):
    return (len(k) > 0 and k[0].isalpha() and k[0].isascii() and
            all((c.isalnum() and c.isascii()) or c == "_" for c in k))


# ------------------------------------------------------------------ implementation side

class Impl(object):
    def __init__(self, t0):
        from ioflo.base import storing
        from ioflo.aid.odicting import odict
        self.S = storing
        self.odict = odict
        self.store = storing.Store(stamp=t0)
        self.A = self.store.create("c19.share")
        self.B = storing.Share(name="free")
        self.n = 0

    def sh(self, w):
        return self.A if w else self.B

    def kvarg(self, kvs):
        """the same field list in one of the argument forms the methods accept"""
        keys = [k for k, _ in kvs]
        self.n += 1
        form = self.n % 4
        if len(set(keys)) != len(keys) or form == 0:
            return ([list(kvs)], {})
        if form == 1:
            return ([dict(kvs)], {})
        if form == 2:
            return ([self.odict(kvs)], {})
        return ([], dict(kvs))

    def do(self, op):
        k = op[0]
        try:
            if k == "setvalue":
                self.sh(op[1]).value = op[2]
                return ("ok",)
            if k == "getvalue":
                return ("val", self.sh(op[1]).value)
            if k in ("update", "change", "create"):
                pa, kwa = self.kvarg(op[2])
                r = getattr(self.sh(op[1]), k)(*pa, **kwa)
                return ("ok",) if r is self.sh(op[1]) else ("crash", "did not return self")
            if k == "stampnow":
                return ("val", self.sh(op[1]).stampNow())
            if k == "setitem":
                self.sh(op[1])[op[2]] = op[3]
                return ("ok",)
            if k == "getitem":
                return ("val", self.sh(op[1])[op[2]])
            if k == "delitem":
                del self.sh(op[1])[op[2]]
                return ("ok",)
            if k == "contains":
                return ("bool", op[2] in self.sh(op[1]))
            if k == "push":
                r = self.sh(op[1]).deck.push(op[2])
                return ("ok",)
            if k == "pull":
                return ("val", self.sh(op[1]).deck.pull())
            if k == "gulp":
                self.sh(op[1]).deck.gulp(op[2])
                return ("ok",)
            if k == "spew":
                return ("val", self.sh(op[1]).deck.spew())
            if k == "advance":
                self.store.advanceStamp(op[1])
                return ("ok",)
            if k == "setstamp":
                self.store.changeStamp(op[1])
                return ("ok",)
            raise RuntimeError("bad op")
        except AttributeError:
            return ("attr",)
        except KeyError:
            return ("key",)
        except IndexError:
            return ("index",)
        except TypeError:
            return ("type",)
        except Exception as ex:
            return ("crash", type(ex).__name__)

    @staticmethod
    def num(x):
        if x is None:
            return None
        if isinstance(x, float):
            if x != int(x):
                raise ValueError("non integral time")
            return int(x)
        return x

    def obs1(self, s):
        try:
            items = [(k, v) for k, v in s.items()]
        except KeyError:
            items = None
        return (items, list(s.keys()), len(s), self.num(s.stamp), list(s.deck))

    def observe(self):
        return (self.num(self.store.stamp), self.obs1(self.A), self.obs1(self.B))


def run_impl(t0, ops):
    im = Impl(t0)
    tr = []
    for op in ops:
        r = im.do(op)
        if r[0] == "val":
            r = ("val", Impl.num(r[1]))
        tr.append((r, im.observe()))
    return tr


# ------------------------------------------------------------- executable property statement

def prop_violation(t0, ops):
    """the implementation alone against the property's statement; reference state kept here"""
    im = Impl(t0)
    ref = {True: {"f": [], "stamp": None, "deck": []}, False: {"f": [], "stamp": None, "deck": []}}
    pushed_none = {True: False, False: False}
    for n, op in enumerate(ops):
        k = op[0]
        before = im.observe()
        r = im.do(op)
        if r[0] == "val":
            r = ("val", Impl.num(r[1]))
        after = im.observe()
        where = "step %d %r -> %r" % (n, op, r)
        if r[0] == "crash":
            return where + ": unexpected exception %s" % r[1]
        tnow = after[0]
        if k in ("advance", "setstamp"):
            if before[1:] != after[1:]:
                return where + ": a store time advance changed a share"
            continue
        w = op[1]
        R = ref[w]
        me_b, me_a = (before[1], after[1]) if w else (before[2], after[2])
        other_b, other_a = (before[2], after[2]) if w else (before[1], after[1])
        if other_b != other_a:
            return where + ": operation on one share changed the other"
        want_stamp = tnow if w else None
        names = dict(R["f"])

        def setf(key, val):
            for i, (kk, _) in enumerate(R["f"]):
                if kk == key:
                    R["f"][i] = (key, val)
                    return
            R["f"].append((key, val))

        if k == "setvalue":
            setf("value", op[2])
            R["stamp"] = want_stamp
        elif k in ("update", "change"):
            ok = True
            for kk, vv in op[2]:
                if kk in names or is_public_identifier(kk):
                    setf(kk, vv)
                    names[kk] = vv
                else:
                    ok = False
                    break
            if ok != (r[0] == "ok"):
                return where + ": field names must be public identifiers (accepted=%r)" % (r[0] == "ok")
            if ok and k == "update":
                R["stamp"] = want_stamp
        elif k == "create":
            ok, added = True, False
            for kk, vv in op[2]:
                if kk in names:
                    continue
                if is_public_identifier(kk):
                    setf(kk, vv)
                    names[kk] = vv
                    added = True
                else:
                    ok = False
                    break
            if ok != (r[0] == "ok"):
                return where + ": field names must be public identifiers (accepted=%r)" % (r[0] == "ok")
            if ok and added:
                R["stamp"] = want_stamp
        elif k == "stampnow":
            R["stamp"] = want_stamp
            if r != ("val", want_stamp):
                return where + ": stampNow returned %r, store time is %r" % (r, want_stamp)
        elif k == "setitem":
            ok = op[2] in names or is_public_identifier(op[2])
            if ok != (r[0] == "ok"):
                return where + ": field names must be public identifiers (accepted=%r)" % (r[0] == "ok")
            if ok:
                setf(op[2], op[3])
        elif k == "getitem":
            exp = ("val", names[op[2]]) if op[2] in names else ("key",)
            if r != exp:
                return where + ": expected %r" % (exp,)
        elif k == "getvalue":
            if r != ("val", names.get("value")):
                return where + ": expected %r" % (names.get("value"),)
        elif k == "delitem":
            if op[2] in names:
                if r[0] != "ok":
                    return where + ": deleting an existing field failed"
                R["f"] = [(a, b) for a, b in R["f"] if a != op[2]]
            elif r[0] != "key":
                return where + ": deleting a missing field must raise KeyError"
        elif k == "contains":
            if r != ("bool", op[2] in names):
                return where + ": expected %r" % (op[2] in names)
        elif k == "push":
            R["deck"].append(op[2])
            if op[2] is None:
                pushed_none[w] = True
        elif k == "gulp":
            if op[2] is not None:
                R["deck"].append(op[2])
        elif k == "pull":
            if R["deck"]:
                e = R["deck"].pop(0)
                if r != ("val", e):
                    return where + ": deck is not FIFO, expected %r" % (e,)
            elif r[0] != "index":
                return where + ": pull on an empty deck must raise IndexError"
        elif k == "spew":
            if R["deck"]:
                e = R["deck"].pop(0)
                if r != ("val", e):
                    return where + ": deck is not FIFO, expected %r" % (e,)
            elif r != ("val", None):
                return where + ": spew on an empty deck must return None"
            if not pushed_none[w] and (r == ("val", None)) != (len(me_b[4]) == 0):
                return where + ": spew returned None although the deck was not empty"
        # the share as observed must now be the reference insertion-ordered map / queue / stamp
        exp = (list(R["f"]), [a for a, _ in R["f"]], len(R["f"]), R["stamp"], list(R["deck"]))
        if me_a != exp:
            return where + ": share observed as %r, ordered-map/queue/stamp reference says %r" % (me_a, exp)
    return None


def shrink(t0, ops):
    ops = list(ops)
    changed = True
    while changed and len(ops) > 1:
        changed = False
        for i in range(len(ops)):
            cand = ops[:i] + ops[i + 1:]
            if prop_violation(t0, cand):
                ops, changed = cand, True
                break
    return ops


WITNESSES = [
    ("share-delitem-stale-keys", 0, [("setitem", True, "x", 1), ("delitem", True, "x")]),
    ("identpub-trailing-newline", 0, [("setitem", True, "x\n", 1)]),
]


# ------------------------------------------------------------------------- Coq rendering

def z(n):
    return "%d" % n if n >= 0 else "(%d)" % n


STRTAB = {}


def c_str(s):
    if s not in STRTAB:
        STRTAB[s] = "n%d" % len(STRTAB)
    return STRTAB[s]


def strtab_header():
    return "\n".join("Definition %s : str := %s." % (nm, clist([z(ord(c)) for c in s], "Z"))
                     for s, nm in STRTAB.items())


def c_oz(x):
    return "(@None Z)" if x is None else "(Some %s)" % z(x)


def c_kvs(kvs):
    return clist(["(%s, %s)" % (c_str(k), z(v)) for k, v in kvs], "(str * Z)")


def c_op(op):
    k = op[0]
    if k in ("advance", "setstamp"):
        return "%s %s" % ({"advance": "Advance", "setstamp": "SetStamp"}[k], z(op[1]))
    w = cbool(op[1])
    if k == "setvalue":
        return "SetValue %s %s" % (w, z(op[2]))
    if k in ("update", "change", "create"):
        return "%s %s %s" % (k.capitalize(), w, c_kvs(op[2]))
    if k == "setitem":
        return "SetItem %s %s %s" % (w, c_str(op[2]), z(op[3]))
    if k in ("getitem", "delitem", "contains"):
        return "%s %s %s" % ({"getitem": "GetItem", "delitem": "DelItem", "contains": "Contains"}[k], w, c_str(op[2]))
    if k in ("push", "gulp"):
        return "%s %s %s" % (k.capitalize(), w, c_oz(op[2]))
    return "%s %s" % ({"getvalue": "GetValue", "stampnow": "StampNow", "pull": "Pull", "spew": "Spew"}[k], w)


def c_res(r):
    k = r[0]
    if k == "ok":
        return "ROk"
    if k == "val":
        return "(RVal %s)" % c_oz(r[1])
    if k == "bool":
        return "(RBool %s)" % cbool(r[1])
    return {"attr": "RErrAttr", "key": "RErrKey", "index": "RErrIndex", "type": "RErrType"}.get(k, "RCrash")


def c_obs1(o):
    items, keys, ln, stamp, deck = o
    it = "(@None (list (str * Z)))" if items is None else "(Some %s)" % c_kvs(items)
    return "(%s, %s, %s, %s, %s)" % (it, clist([c_str(k) for k in keys], "str"), z(ln), c_oz(stamp),
                                       clist([c_oz(e) for e in deck], "(option Z)"))


def c_obs(o):
    return "(%s, %s, %s)" % (c_oz(o[0]), c_obs1(o[1]), c_obs1(o[2]))


# ------------------------------------------------------------------------- generators

def op_alphabet(names, w):
    """one op of each kind on share w over the given field names"""
    out = [("setvalue", w, 7), ("getvalue", w), ("stampnow", w), ("pull", w), ("spew", w),
           ("push", w, 3), ("push", w, None), ("gulp", w, 4), ("gulp", w, None)]
    for nm in names:
        out += [("setitem", w, nm, 1), ("getitem", w, nm), ("delitem", w, nm), ("contains", w, nm),
                ("update", w, [(nm, 2)]), ("change", w, [(nm, 3)]), ("create", w, [(nm, 4)])]
    return out


def rand_kvs(rng):
    n = rng.randint(0, 3)
    return [(rng.choice(NAMES if rng.random() < 0.3 else GOOD), rng.randint(0, 9)) for _ in range(n)]


def rand_op(rng):
    w = rng.random() < 0.65
    k = rng.choice(["setvalue", "getvalue", "update", "update", "change", "create", "create", "stampnow",
                    "setitem", "getitem", "delitem", "delitem", "contains", "push", "pull", "gulp", "spew",
                    "advance", "advance", "setstamp"])
    if k == "setvalue":
        return (k, w, rng.randint(0, 9))
    if k in ("update", "change", "create"):
        return (k, w, rand_kvs(rng))
    if k == "setitem":
        return (k, w, rng.choice(NAMES), rng.randint(0, 9))
    if k in ("getitem", "delitem", "contains"):
        return (k, w, rng.choice(NAMES if rng.random() < 0.3 else GOOD))
    if k in ("push", "gulp"):
        return (k, w, None if rng.random() < 0.25 else rng.randint(0, 9))
    if k == "advance":
        return (k, rng.randint(1, 3))
    if k == "setstamp":
        return (k, rng.randint(0, 50))
    return (k, w)


def sequences(ctx):
    seqs = []
    full = op_alphabet(NAMES, True) + [("advance", 1), ("setstamp", 5)]
    for o in full:
        seqs.append(("L1", 0, [o]))
    for o in op_alphabet(NAMES, False):
        seqs.append(("L1", 0, [o]))
    for o in (("advance", 1), ("stampnow", True), ("setvalue", True, 1)):
        seqs.append(("L1", None, [o]))
    mid = op_alphabet(["x", "value", "_p", "x\n"], True) + [("advance", 1)]
    for a in mid:
        for b in mid:
            seqs.append(("L2", 0, [a, b]))
    small = [("setitem", True, "x", 1), ("setitem", True, "y1", 2), ("delitem", True, "x"), ("create", True, [("x", 4)]),
             ("update", True, [("y1", 2), ("1a", 0), ("x", 5)]), ("change", True, [("x", 3)]), ("setvalue", True, 7),
             ("advance", 1), ("push", True, 3), ("push", True, None), ("gulp", True, None), ("gulp", True, 4),
             ("pull", True), ("spew", True), ("stampnow", True), ("update", False, [("x", 2)])]
    small3 = small if ctx.thorough else small[:9] + small[11:15]
    for a in small3:
        for b in small3:
            for c in small3:
                seqs.append(("L3", 0, [a, b, c]))
    if ctx.thorough:
        tiny = small[:5] + small[7:9] + small[12:14]
        for s4 in itertools.product(tiny, repeat=4):
            seqs.append(("L4", 0, list(s4)))
    for _ in range(ctx.n(200, 3000)):
        t0 = None if ctx.rng.random() < 0.1 else ctx.rng.randint(0, 5)
        seqs.append(("R", t0, [rand_op(ctx.rng) for _ in range(ctx.rng.randint(5, ctx.n(40, 60)))]))
    return seqs


def run(ctx):
    ctx.rule = ("op interleavings (value=, update, change, create, stampNow, share[k]=v, share[k], del share[k], "
                "k in share, deck push/pull/gulp/spew on a share in a store and on a store-less share, store "
                "advanceStamp/changeStamp) run on real Share/Store objects and on the Coq model; the op result and the "
                "observation of both shares (items() or KeyError, keys(), len, stamp, deck) and the store stamp "
                "compared after EVERY step inside Coq; exhaustive: length 1 over all op kinds x 13 field names, "
                "length 2 over 4 names, length 3 over 13 (quick) / 16 (thorough) chosen ops, length 4 over 9 ops in thorough; seeded random "
                "interleavings of 5..40 (quick) / 5..60 (thorough) ops, 10% on a store whose stamp is None; non-trivial = a stamp-changing op "
                "after a time advance, or a rejected name, or a deletion")
    ctx.assumptions = [
        "field names are ASCII strings that are not attributes of class Data itself (_change, _sift, _show, dunder "
        "names bypass the identifier check through the superclass branch of Data.__setattr__: reported finding, "
        "not exercised)",
        "field values and deck elements are small ints (or None for deck elements); times are integer-valued floats so "
        "that float addition is exact",
        "update/change/create are called with one positional list of pairs, dict, odict or keyword arguments "
        "(rotating); Python dict / **kwargs preserve insertion order",
    ]
    ctx.coq_build("C19/Props.v")

    seqs = sequences(ctx)
    cases, metas = [], []
    for kind, t0, ops in seqs:
        tr = run_impl(t0, ops)
        adv = False
        nt = False
        for (r, _), op in zip(tr, ops):
            if op[0] in ("advance", "setstamp"):
                adv = True
            elif (adv and op[0] in ("setvalue", "update", "create", "stampnow")) or r[0] in ("attr", "key") or \
                    (op[0] == "delitem" and r[0] == "ok"):
                nt = True
        ctx.case({"t0": t0, "ops": ops, "results": [r for r, _ in tr]}, nontrivial=nt, kind=kind)
        lit = clist(["(%s, %s)" % (c_res(r), c_obs(o)) for r, o in tr], "(res * obs)")
        cases.append(("(trace %s %s)" % (c_oz(t0), clist([c_op(o) for o in ops], "op")), lit))
        metas.append((t0, ops))

    header = ("From Coq Require Import List ZArith Bool.\nImport ListNotations.\n"
              "Require Import V.C19.Model.\nOpen Scope Z_scope.\n" + strtab_header() + "\n")
    bad = ctx.coq_cases(header, "trace_eqb", cases, shard=ctx.n(250, 1000))
    for i in bad[:5]:
        ctx.tie_broken("correspondence", "C19 model vs Share/Data/Deck",
                       "t0=%r ops=%r impl_trace=%r" % (metas[i][0], metas[i][1], run_impl(*metas[i])))
    ctx.extra["mismatches"] = len(bad)
    ctx.exhaustive = False
    # informational probe of the reported, NOT modelled finding (never alarms): a private name that is an
    # attribute of class Data passes the superclass branch of Data.__setattr__
    try:
        im = Impl(0)
        r = im.do(("setitem", True, "_show", 1))
        ctx.extra["probe_private_class_attribute_name"] = {
            "input": "share['_show'] = 1", "result": r[0], "keys": list(im.A.keys()), "len": len(im.A),
            "note": "ok = accepted although '_show' is not a public identifier (finding data-private-class-attr)"}
    except Exception as ex:  # the probe must never disturb the verdict
        ctx.extra["probe_private_class_attribute_name"] = repr(ex)

    def search():
        best = None
        for key, t0, ops in WITNESSES:
            why = prop_violation(t0, ops)
            if why:
                best = (key, t0, ops, why)
                break
        if best is None:
            cands = [metas[i] for i in bad[:40]] + [(t0, ops) for _, t0, ops in seqs]
            for t0, ops in cands:
                why = prop_violation(t0, ops)
                if why:
                    ops = shrink(t0, ops)
                    best = ("share:" + repr(ops), t0, ops, prop_violation(t0, ops))
                    break
        if best is None:
            return None
        key, t0, ops, why = best
        return {"key": key, "store_stamp0": t0, "ops": ops, "impl_trace": run_impl(t0, ops), "why": why,
                "contradicts": "C19.Props (fields_are_ordered_map / field_names_public / stamp theorems / deck_fifo)"}

    ctx.settle(search)
