"""
C37 -- a stack's remote indexes (uid / name / ha) stay mutually consistent.

Tie H: coq/C37/Model.v is a hand model of RemoteStack.addRemote / moveRemote / renameRemote /
       rehaRemote / removeRemote and of RemoteDevice's uid assignment.
  theorems       : coq/C37/Props.v (every op sequence, successful or rejected)
  correspondence : the same op sequences are run on a real RemoteStack (handler double) with real
                   RemoteDevice objects and on the model; after EVERY op the outcome class, the
                   three indexes (keys and remote identities, in iteration order) and the
                   attributes of every remote object are compared.
"""
import itertools

from vlib import cz, clist, copt

LEVEL = "proof"

LOCAL = (1, 100, 200)          # local uid, name, ha (interned)
UIDS = [1, 2, 3, 4]
NAMES = [100, 101, 102, 103]
HAS = [200, 201, 202, 203]
FIELDS = {"move": "FUid", "rename": "FName", "reha": "FHa"}
OTHER_CLASS = []   # rejections raised with a class other than the intended ValueError


class Handler(object):
    opened = True
    ha = ("127.0.0.1", 7000)

    def reopen(self):
        return True

    def close(self):
        pass


def nm(k):
    return "n%d" % k


def ha(k, style="str"):
    """address for interned code k.  0 is the DEFAULT/empty address '' (what a Device gets when no ha is
    given); others are strings ('h201') or (host, port) tuples depending on the history's style"""
    if k == 0:
        return ""
    return "h%d" % k if style == "str" else ("10.0.0.1", k)


def unnm(s):
    return int(s[1:])


def unha(a):
    if a == "":
        return 0
    return a[1] if isinstance(a, tuple) else int(a[1:])


def snapshot(stack, objs):
    ident = {id(o): i for i, o in objs.items()}

    def index(od, conv):
        out = []
        for k in od.keys():
            v = od[k]
            out.append((conv(k), ident.get(id(v), -1)))
        return out
    return (index(stack.uidRemotes, int), index(stack.nameRemotes, unnm), index(stack.haRemotes, unha),
            [(i, (int(o.uid), unnm(o.name), unha(o.ha))) for i, o in objs.items()])


def run_impl(ops, puid=None, lha=None, style="str"):
    """ops: ('new', id, uid|None, name, ha) | ('add', id) | ('move'|'rename'|'reha', id, new) | ('remove', id)
    returns list of (outcome, uidx, nidx, hidx, objs)"""
    from ioflo.aio.proto import stacking, devicing
    lha = LOCAL[2] if lha is None else lha
    # local address 0 = the default: pass None (Stack/Device turn it into '')
    stack = stacking.RemoteStack(handler=Handler(), uid=LOCAL[0], name=nm(LOCAL[1]),
                                 ha=None if lha == 0 else ha(lha, style),
                                 puid=LOCAL[0] if puid is None else puid)
    objs = {}
    out = []
    for op in ops:
        oc = "Done"
        try:
            if op[0] == "new":
                if op[1] in objs:
                    oc = "Rejected"
                else:
                    # address 0: alternately not given at all (None -> default '') and given as ''
                    a = (None if op[1] % 2 == 0 else "") if op[4] == 0 else ha(op[4], style)
                    objs[op[1]] = devicing.RemoteDevice(stack, uid=op[2], name=nm(op[3]), ha=a)
            elif op[1] not in objs:
                oc = "Rejected"
            elif op[0] == "add":
                stack.addRemote(objs[op[1]])
            elif op[0] == "move":
                stack.moveRemote(objs[op[1]], op[2])
            elif op[0] == "rename":
                stack.renameRemote(objs[op[1]], nm(op[2]))
            elif op[0] == "reha":
                stack.rehaRemote(objs[op[1]], ha(op[2], style))
            elif op[0] == "remove":
                stack.removeRemote(objs[op[1]])
        except ValueError:
            oc = "Rejected"
        except NameError as ex:      # still a rejection for THIS property; class recorded (see run)
            oc = "Rejected"
            OTHER_CLASS.append((list(op), "NameError: %s" % ex))
        except KeyError:
            oc = "KeyErr"
        out.append((oc,) + snapshot(stack, objs))
    return out


def prop_check(ops, lha=None, style="str"):
    """the property's statement, executable, on the implementation alone"""
    res = run_impl(ops, lha=lha, style=style)
    LOCALK = (LOCAL[0], LOCAL[1], LOCAL[2] if lha is None else lha)
    prev = ([], [], [], [])
    for i, (op, r) in enumerate(zip(ops, res)):
        oc, ux, nx, hx, objs = r
        od = dict(objs)
        if oc == "KeyErr":
            return "op %d %r raised KeyError (indexes out of step)" % (i, op)
        sets = [sorted(v for _, v in x) for x in (ux, nx, hx)]
        if not (sets[0] == sets[1] == sets[2]):
            return "after op %d %r the indexes hold different remotes: %r" % (i, op, sets)
        for f, x in enumerate((ux, nx, hx)):
            ks = [k for k, _ in x]
            if len(set(ks)) != len(ks):
                return "after op %d duplicate key in index %d" % (i, f)
            if LOCALK[f] in ks:
                return "after op %d %r a key collides with the local device" % (i, op)
            for k, v in x:
                if v not in od or od[v][f] != k:
                    return "after op %d %r remote %r is filed under key %r but its attribute is %r" % (
                        i, op, v, k, od.get(v))
        if oc == "Rejected":
            pobjs = [o for o in prev[3]]
            if (ux, nx, hx) != prev[:3] or [o for o in objs if o[0] in dict(pobjs)] != pobjs:
                return "rejected op %d %r changed the state" % (i, op)
        if oc == "Done" and op[0] in FIELDS:
            f = ["move", "rename", "reha"].index(op[0])
            cur = (ux, nx, hx)
            if [v for _, v in cur[f]] != [v for _, v in prev[f]]:
                return "op %d %r changed the iteration order" % (i, op)
        prev = (ux, nx, hx, objs)
    return None


# --------------------------------------------------------------------------- Coq rendering
def c_op(op):
    if op[0] == "new":
        return "New %s %s %s %s" % (cz(op[1]), copt(op[2], cz), cz(op[3]), cz(op[4]))
    if op[0] == "add":
        return "Add %s" % cz(op[1])
    if op[0] == "remove":
        return "Remove %s" % cz(op[1])
    return "Rekey %s %s %s" % (FIELDS[op[0]], cz(op[1]), cz(op[2]))


def c_al(l):
    return clist(["(%s, %s)" % (cz(a), cz(b)) for a, b in l], "(Z*Z)")


def c_obs(r):
    oc, ux, nx, hx, objs = r
    return "(%s, (%s, %s, %s), %s)" % (oc, c_al(ux), c_al(nx), c_al(hx),
                                       clist(["(%s, (%s, %s, %s))" % (cz(i), cz(a), cz(b), cz(c))
                                              for i, (a, b, c) in objs], "(Z*(Z*Z*Z))"))


HEADER = """From Coq Require Import List ZArith Bool.
Import ListNotations.
Require Import V.C37.Model.
Open Scope Z_scope.
Definition oc_eqb (a b : outcome) : bool := match a, b with
  | Done, Done | Rejected, Rejected | KeyErr, KeyErr => true | _, _ => false end.
Fixpoint al_eqb (a b : alist) : bool := match a, b with
  | [], [] => true
  | (x1, y1) :: a', (x2, y2) :: b' => Z.eqb x1 x2 && Z.eqb y1 y2 && al_eqb a' b'
  | _, _ => false end.
Fixpoint ob_eqb (a b : list (Z * (Z * Z * Z))) : bool := match a, b with
  | [], [] => true
  | (i1, (a1, b1, c1)) :: a', (i2, (a2, b2, c2)) :: b' =>
      Z.eqb i1 i2 && Z.eqb a1 a2 && Z.eqb b1 b2 && Z.eqb c1 c2 && ob_eqb a' b'
  | _, _ => false end.
Definition obs_eqb (a b : obs) : bool :=
  let '(o1, (u1, n1, h1), r1) := a in let '(o2, (u2, n2, h2), r2) := b in
  oc_eqb o1 o2 && al_eqb u1 u2 && al_eqb n1 n2 && al_eqb h1 h2 && ob_eqb r1 r2.
Fixpoint tr_eqb (a b : list obs) : bool := match a, b with
  | [], [] => true | x :: a', y :: b' => obs_eqb x y && tr_eqb a' b' | _, _ => false end.
"""


def all_ops(nobj):
    ops = []
    for i in range(nobj):
        ops.append(("add", i))
        ops.append(("remove", i))
        for u in UIDS:
            ops.append(("move", i, u))
        for n in NAMES[:3]:
            ops.append(("rename", i, n))
        for h in HAS[:3]:
            ops.append(("reha", i, h))
    return ops


def histories(ctx):
    # 1. small scope: 2 remote objects created up front (distinct or colliding attributes),
    #    then every op sequence of length <= L over all ops on them
    L = ctx.n(2, 3)
    setups = [
        [("new", 0, 2, 101, 201), ("new", 1, 3, 102, 202)],      # distinct
        [("new", 0, 2, 101, 201), ("new", 1, 2, 102, 202)],      # same uid
        [("new", 0, 2, 101, 201), ("new", 1, 3, 101, 201)],      # same name and ha
        [("new", 0, 1, 101, 201), ("new", 1, 3, 100, 202)],      # collide with local uid / name
        [("new", 0, None, 101, 201), ("new", 1, None, 102, 200)],  # auto uid; local ha
    ]
    alpha = all_ops(2)
    for su in setups:
        for n in range(0, L + 1):
            for seq in itertools.product(alpha, repeat=n):
                if n == 3 and ctx.rng.random() > 0.08:
                    continue
                yield su + list(seq), "small", LOCAL[2], "str"
    # 1c. the DEFAULT / empty address '' (code 0; given as None or ''): remotes sharing it, a local device
    #     that has it too, string and (host, port) styles; then add / reha (to and from '') / rename /
    #     remove every one of them
    dsetups = [
        [("new", 0, 2, 101, 0), ("new", 1, 3, 102, 0)],            # both remotes have the default address
        [("new", 0, 2, 101, 0), ("new", 1, 3, 102, 202)],          # one default, one real
        [("new", 0, 2, 101, 201), ("new", 1, 3, 102, 202)],        # real ones (can be re-addressed to '')
    ]
    dalpha = []
    for i in range(2):
        dalpha += [("add", i), ("remove", i), ("reha", i, 0), ("reha", i, 201), ("rename", i, 103), ("move", i, 4)]
    for su in dsetups:
        for lha in (0, 200):
            for style in ("str", "tuple"):
                for n in range(0, 4):
                    for seq in itertools.product(dalpha, repeat=n):
                        if n == 3 and ctx.rng.random() > ctx.n(0.03, 0.3):
                            continue
                        if n == 2 and style == "tuple" and not ctx.thorough and ctx.rng.random() > 0.5:
                            continue
                        yield su + list(seq), "default-ha", lha, style
    # 2. random long histories over 4 objects, 4 uids x 4 names x 4 has
    for _ in range(ctx.n(400, 5000)):
        ops, made = [], 0
        for _ in range(ctx.rng.randint(3, 50)):
            u = ctx.rng.random()
            if made < 4 and (u < 0.15 or made == 0):
                uid = None if ctx.rng.random() < 0.3 else ctx.rng.choice(UIDS + [5, 6])
                ops.append(("new", made, uid, ctx.rng.choice(NAMES), ctx.rng.choice(HAS + [0, 0])))
                made += 1
                continue
            i = ctx.rng.randrange(made)
            if u < 0.40:
                ops.append(("add", i))
            elif u < 0.52:
                ops.append(("remove", i))
            elif u < 0.70:
                ops.append(("move", i, ctx.rng.choice(UIDS + [5, 6])))
            elif u < 0.85:
                ops.append(("rename", i, ctx.rng.choice(NAMES)))
            else:
                ops.append(("reha", i, ctx.rng.choice(HAS + [0])))
        yield ops, "random", ctx.rng.choice([LOCAL[2], LOCAL[2], 0]), ctx.rng.choice(["str", "tuple"])


def run(ctx):
    ctx.rule = ("op sequences (create RemoteDevice objects incl. auto uid, add / move / rename / reha / remove) "
                "over 4 uids x 4 names x 4 addresses incl. the local device's, run on a real RemoteStack and on "
                "the Coq model; after EVERY op: outcome class (done / rejected / KeyError), the three indexes "
                "as ordered (key, remote identity) lists and every remote object's attributes are compared; "
                "non-trivial = at least one rejected and one successful index-changing op")
    ctx.assumptions = [
        "remotes are only changed through the stack's methods (no direct attribute assignment), one stack",
        "rejections are compared by class 'rejected' (removeRemote's not-identical path raises NameError "
        "instead of ValueError: noted, not part of this property)",
        "handler double; RemoteStack constructed with explicit local uid/name/ha and puid",
    ]
    ctx.coq_build("C37/Props.v")
    cases, metas = [], []
    for ops, label, lha, style in histories(ctx):
        res = run_impl(ops, lha=lha, style=style)
        ocs = [r[0] for r in res]
        nt = "Rejected" in ocs and any(o == "Done" and op[0] != "new" for o, op in zip(ocs, ops))
        ctx.case({"ops": ops, "local_ha": lha, "style": style, "outcomes": ocs}, nontrivial=nt,
                 kind=label + ("/local-default-ha" if lha == 0 else ""))
        cases.append(("trace (init %s %s %s %s) %s" % (cz(LOCAL[0]), cz(LOCAL[1]), cz(lha), cz(LOCAL[0]),
                                                      clist([c_op(o) for o in ops], "op")),
                      clist([c_obs(r) for r in res], "obs")))
        metas.append((ops, res, lha, style))
    bad = ctx.coq_cases(HEADER, "tr_eqb", cases, shard=200)
    for i in bad[:5]:
        ctx.tie_broken("correspondence", "C37 model vs RemoteStack",
                       "ops=%r impl=%r local_ha=%r address_style=%r (address 0 = the default '')" % metas[i])
    ctx.extra["mismatches"] = len(bad)
    ctx.exhaustive = False
    # The model rejects with one class only (ValueError, Model.rejection_class).  A rejection raised as
    # another class (removeRemote's undefined `uid` -> NameError before fixes/C37-removeremote-nameerror.patch)
    # does not contradict C37's statement (nothing changes), so it does not alarm; it is measured here.
    ctx.extra["rejections_not_ValueError"] = {"count": len(OTHER_CLASS), "examples": OTHER_CLASS[:3]}
    ctx.extra["outcome_distribution"] = {k: sum(1 for m in metas for r in m[1] if r[0] == k)
                                         for k in ("Done", "Rejected", "KeyErr")}
    ctx.extra["default_ha_histories"] = sum(1 for m in metas if m[2] == 0 or any(o[0] == 'new' and o[4] == 0 for o in m[0]))

    def search():
        best = None
        order = [metas[i] for i in bad] + metas
        for ops, _, lha, style in order:
            if best is not None and len(ops) >= len(best[0]):
                continue
            if prop_check(ops, lha, style):
                best = (list(ops), lha, style)
        if best is None:
            return None
        ops, lha, style = best
        changed = True
        while changed:           # greedy shrink
            changed = False
            for i in range(len(ops)):
                cand = ops[:i] + ops[i + 1:]
                if prop_check(cand, lha, style):
                    ops, changed = cand, True
                    break
        res = run_impl(ops, lha=lha, style=style)
        return {"ops": ops, "local_ha": lha, "address_style": style,
                "legend": "addresses are interned: 0 = the default/empty address '' (ha not given or ''), "
                          "k = 'h<k>' (str style) or ('10.0.0.1', k) (tuple style); names n<k>",
                "why": prop_check(ops, lha, style), "impl_trace": [list(r) for r in res],
                "contradicts": "C37.Props.indexes_inv / rejected_unchanged / rekey_keeps_position",
                "key": "remote-indexes"}

    ctx.settle(search)
