"""
C25 translator (tie T, fail-closed).

Walks the AST of the four transport modules and turns EVERY `except` clause that catches
socket.error / ssl.SSLError / OSError / IOError / Exception inside a class method into a decision
table in Gallina (types in coq/C25/Model.v):

  handler body  ->  decision := Leaf action | Cond test yes no
  test          ->  TIn subj members | TEqTuple subj members | TEq subj member
                    subj = ex.args[0] | ex.errno ; members = errno.X / ssl.X resolved on THIS
                    platform to an int constant (MInt) or to an exception class object (MClass)
  path effects  ->  action in {Quiet, Cutoff, Requeue, Raise, RaiseClose}

Anything outside the whitelist raises TranslationError (the check reports tie_broken("translator")).
"""
import ast
import errno as errno_mod
import os
import ssl as ssl_mod

FILES = ["ioflo/aio/tcp/clienting.py", "ioflo/aio/tcp/serving.py",
         "ioflo/aio/udp/udping.py", "ioflo/aio/proto/stacking.py"]

CATCH = {"socket.error": "CatchOSError", "OSError": "CatchOSError", "IOError": "CatchOSError",
         "ssl.SSLError": "CatchSSLError", "Exception": "CatchException"}
IGNORED_CATCH = {"ValueError", "KeyError", "ImportError", "UnicodeDecodeError", "AttributeError",
                 "TypeError", "IndexError", "StopIteration", "struct.error", "packeting.PacketError"}


# try statements that are NOT transport-level error classification and are left to another property.
# Each entry: "Class.method" -> (source text the try body must contain, recorded reason).  A listed
# method whose try body does not contain that text fails closed.
SKIPPED = {
    "ServerTls.serviceCxes": ("cx.serviceHandshake()",
                              "server accept loop, not a transport site: it catches whatever IncomerTls.handshake "
                              "re-raises (classified here as site IncomerTls.handshake#0: want -> quiet, else "
                              "close + propagate), drops that pending connection and goes on; modelled and proved "
                              "in C26 (flag extraction + pending_entries_are_live) and required by C32"),
}
skipped_log = []


class TranslationError(Exception):
    pass


def dotted(node):
    if isinstance(node, ast.Name):
        return node.id
    if isinstance(node, ast.Attribute):
        base = dotted(node.value)
        return None if base is None else base + "." + node.attr
    return None


def src(node):
    try:
        return ast.unparse(node)
    except Exception:
        return ast.dump(node)


def member(node):
    name = dotted(node)
    if name is None or "." not in name:
        raise TranslationError("tuple member is not module.NAME: %s" % src(node))
    mod, attr = name.split(".", 1)
    if mod == "errno":
        val = getattr(errno_mod, attr, None)
    elif mod == "ssl":
        val = getattr(ssl_mod, attr, None)
    else:
        raise TranslationError("member from unknown module: %s" % name)
    if val is None:
        raise TranslationError("cannot resolve %s on this platform" % name)
    if isinstance(val, bool):
        raise TranslationError("boolean member %s" % name)
    if isinstance(val, int):
        return ("MInt", name, int(val))
    if isinstance(val, type) and issubclass(val, BaseException):
        return ("MClass", name)
    raise TranslationError("member %s is neither an int nor an exception class" % name)


def subject(node, exname):
    # ex.args[0]
    if (isinstance(node, ast.Subscript) and isinstance(node.value, ast.Attribute)
            and node.value.attr == "args" and isinstance(node.value.value, ast.Name)
            and node.value.value.id == exname):
        idx = node.slice
        if isinstance(idx, ast.Constant) and idx.value == 0:
            return "SArgs0"
    if (isinstance(node, ast.Attribute) and node.attr == "errno"
            and isinstance(node.value, ast.Name) and node.value.id == exname):
        return "SErrno"
    raise TranslationError("unsupported comparison subject: %s" % src(node))


def test(node, exname):
    if not (isinstance(node, ast.Compare) and len(node.ops) == 1 and len(node.comparators) == 1):
        raise TranslationError("unsupported handler test: %s" % src(node))
    s = subject(node.left, exname)
    op, rhs = node.ops[0], node.comparators[0]
    if isinstance(rhs, (ast.Tuple, ast.List)):
        ms = [member(e) for e in rhs.elts]
        if isinstance(op, ast.In):
            return ("TIn", s, ms)
        if isinstance(op, ast.Eq):
            return ("TEqTuple", s, ms)
        raise TranslationError("unsupported operator in: %s" % src(node))
    if isinstance(op, ast.Eq):
        return ("TEq", s, member(rhs))
    raise TranslationError("unsupported handler test: %s" % src(node))


EMPTY_RETURNS = {"None", "False", "bytes()", "b''", "(b'', None)", "(None, None)", "''"}


def effect(st):
    """one non-If statement of a handler path -> effect tag (fail-closed)"""
    if isinstance(st, ast.Raise):
        if st.exc is None:
            return "raise"
        raise TranslationError("handler raises a new exception: %s" % src(st))
    if isinstance(st, ast.Pass):
        return "pass"
    if isinstance(st, ast.Return):
        if st.value is None or src(st.value) in EMPTY_RETURNS:
            return "return_empty"
        raise TranslationError("handler returns a non-empty value: %s" % src(st))
    if isinstance(st, ast.Assign) and len(st.targets) == 1:
        tgt, val = src(st.targets[0]), src(st.value)
        if tgt == "self.cutoff" and val == "True":
            return "cutoff"
        if tgt in ("result", "count") and val == "0":
            return "zero"
        if tgt == "emsg":
            return "log"
        raise TranslationError("unsupported assignment in handler: %s" % src(st))
    if isinstance(st, ast.Expr):
        v = st.value
        if isinstance(v, ast.Constant) and isinstance(v.value, str):
            return "pass"
        if isinstance(v, ast.Call):
            fn = dotted(v.func) or ""
            if fn.startswith("console."):
                return "log"
            if fn in ("self.shutclose", "self.close"):
                return "close"
            if fn == "laters.append":
                return "later"
            if fn == "blockeds.append":
                return "block_dest"
    raise TranslationError("unsupported statement in handler: %s" % src(st))


def terminates(stmts):
    return bool(stmts) and isinstance(stmts[-1], (ast.Raise, ast.Return))


def action(effects):
    e = set(effects)
    if "raise" in e:
        if e & {"cutoff", "later", "block_dest"}:
            raise TranslationError("state change before re-raise: %r" % effects)
        return "RaiseClose" if "close" in e else "Raise"
    if "close" in e:
        raise TranslationError("close without re-raise: %r" % effects)
    if "cutoff" in e:
        if not (e & {"return_empty", "zero"}):
            raise TranslationError("cutoff without empty result: %r" % effects)
        return "Cutoff"
    if "later" in e or "block_dest" in e:
        if not ("later" in e and "block_dest" in e):
            raise TranslationError("half a requeue: %r" % effects)
        return "Requeue"
    return "Quiet"


def decision(stmts, exname, acc):
    acc = list(acc)
    for i, st in enumerate(stmts):
        if isinstance(st, ast.If):
            rest = stmts[i + 1:]
            yes = st.body + ([] if terminates(st.body) else rest)
            no = st.orelse + ([] if terminates(st.orelse) else rest)
            return ("Cond", test(st.test, exname), decision(yes, exname, acc), decision(no, exname, acc))
        acc.append(effect(st))
    return ("Leaf", action(acc))


def sites_of(path, relname):
    tree = ast.parse(open(path).read(), filename=path)
    out = []
    for cls in [n for n in tree.body if isinstance(n, ast.ClassDef)]:
        for fn in [n for n in cls.body if isinstance(n, ast.FunctionDef)]:
            k = 0
            for node in ast.walk(fn):
                if not isinstance(node, ast.Try):
                    continue
                qual = "%s.%s" % (cls.name, fn.name)
                if qual in SKIPPED:
                    must, why = SKIPPED[qual]
                    if must not in "\n".join(src(b) for b in node.body):
                        raise TranslationError("%s: try statement without %s in a method listed as skipped" % (qual, must))
                    skipped_log.append((qual, relname, node.lineno, why))
                    continue
                clauses, relevant = [], False
                for h in node.handlers:
                    tname = dotted(h.type) if h.type is not None else None
                    if tname in CATCH:
                        relevant = True
                        clauses.append((CATCH[tname], decision(h.body, h.name or "_", [])))
                    elif tname in IGNORED_CATCH:
                        if relevant:
                            raise TranslationError("%s.%s: %s clause after a transport clause" % (cls.name, fn.name, tname))
                    else:
                        raise TranslationError("%s.%s: unknown except type %r" % (cls.name, fn.name, tname))
                if relevant:
                    out.append(("%s.%s#%d" % (cls.name, fn.name, k), relname, node.lineno, clauses))
                    k += 1
    return out


def connect_table(repo):
    """Client.accept (inherited by ClientTls): how the RETURN code of cs.connect_ex() is handled.
    Expected shape (fail-closed):
        if result not in [<connected codes>]:
            if result in (<reopen codes>):
                self.reopen()
            return False
    returns (connected codes, reopen codes) as lists of (name, int)"""
    path = os.path.join(repo, "ioflo/aio/tcp/clienting.py")
    tree = ast.parse(open(path).read(), filename=path)
    classes = dict((n.name, n) for n in tree.body if isinstance(n, ast.ClassDef))
    if "Client" not in classes or "ClientTls" not in classes:
        raise TranslationError("Client / ClientTls not found")
    if any(isinstance(n, ast.FunctionDef) and n.name == "accept" for n in classes["ClientTls"].body):
        raise TranslationError("ClientTls overrides accept")
    fns = [n for n in classes["Client"].body if isinstance(n, ast.FunctionDef) and n.name == "accept"]
    if len(fns) != 1:
        raise TranslationError("Client.accept not found")
    fn = fns[0]
    calls = [n for n in ast.walk(fn) if isinstance(n, ast.Assign) and src(n.value) == "self.cs.connect_ex(self.ha)"
             and src(n.targets[0]) == "result"]
    if len(calls) != 1:
        raise TranslationError("Client.accept: expected exactly one `result = self.cs.connect_ex(self.ha)`")
    outer = [n for n in fn.body if isinstance(n, ast.If) and "result" in src(n.test)]
    if len(outer) != 1:
        raise TranslationError("Client.accept: expected exactly one top-level test of result")
    o = outer[0]

    def codes(node):
        if not isinstance(node, (ast.List, ast.Tuple)):
            raise TranslationError("Client.accept: code collection is not a literal list/tuple: %s" % src(node))
        out = []
        for e in node.elts:
            if isinstance(e, ast.Constant) and isinstance(e.value, int) and not isinstance(e.value, bool):
                out.append((str(e.value), int(e.value)))
            else:
                m = member(e)
                if m[0] != "MInt":
                    raise TranslationError("Client.accept: non-int code %s" % src(e))
                out.append((m[1], m[2]))
        return out
    t = o.test
    if not (isinstance(t, ast.Compare) and len(t.ops) == 1 and isinstance(t.ops[0], ast.NotIn) and src(t.left) == "result"):
        raise TranslationError("Client.accept: outer test is not `result not in [...]`: %s" % src(t))
    ok = codes(t.comparators[0])
    if o.orelse or len(o.body) != 2 or not isinstance(o.body[0], ast.If) or src(o.body[1]) != "return False":
        raise TranslationError("Client.accept: unexpected body of the not-connected branch")
    i = o.body[0]
    ti = i.test
    if not (isinstance(ti, ast.Compare) and len(ti.ops) == 1 and isinstance(ti.ops[0], ast.In) and src(ti.left) == "result"):
        raise TranslationError("Client.accept: inner test is not `result in (...)`: %s" % src(ti))
    if i.orelse or [src(x) for x in i.body] != ["self.reopen()"]:
        raise TranslationError("Client.accept: inner branch is not just self.reopen()")
    return ok, codes(ti.comparators[0])


# ---------------------------------------------------------------------------- rendering
def r_member(m):
    if m[0] == "MInt":
        return 'MInt "%s" (%d)' % (m[1], m[2])
    return 'MClass "%s"' % m[1]


def r_test(t):
    if t[0] == "TEq":
        return "TEq %s (%s)" % (t[1], r_member(t[2]))
    return "%s %s [%s]" % (t[0], t[1], "; ".join(r_member(m) for m in t[2]))


def r_decision(d, ind="    "):
    if d[0] == "Leaf":
        return "Leaf %s" % d[1]
    return "Cond (%s)\n%s  (%s)\n%s  (%s)" % (r_test(d[1]), ind, r_decision(d[2], ind + "  "),
                                              ind, r_decision(d[3], ind + "  "))


def ident(name):
    return "site_" + name.replace(".", "_").replace("#", "_")


def generate(repo):
    del skipped_log[:]
    sites = []
    for rel in FILES:
        sites += sites_of(os.path.join(repo, rel), rel)
    if not sites:
        raise TranslationError("no transport except clauses found")
    lines = ["(* GENERATED by props/C25/translate.py from %s -- do not edit *)" % ", ".join(FILES),
             "From Coq Require Import List ZArith String.", "Import ListNotations.",
             "Require Import V.C25.Model.", "Open Scope Z_scope.", "Open Scope string_scope.", ""]
    lines.append("(* errno numbers of this platform *)")
    for name in sorted(n for n in dir(errno_mod) if n.startswith("E") and isinstance(getattr(errno_mod, n), int)):
        lines.append("Definition %s : Z := %d." % (name, getattr(errno_mod, name)))
    codes = sorted(set(errno_mod.errorcode))
    lines.append("Definition all_errnos : list Z := [%s]." % "; ".join(str(c) for c in codes))
    lines.append("")
    lines.append("(* ssl error codes *)")
    sslnames = sorted(n for n in dir(ssl_mod) if n.startswith("SSL_ERROR_"))
    for name in sslnames:
        lines.append("Definition %s : Z := %d." % (name, int(getattr(ssl_mod, name))))
    lines.append("Definition all_ssl_codes : list Z := [%s]." % "; ".join(
        str(c) for c in sorted(set(int(getattr(ssl_mod, n)) for n in sslnames))))
    lines.append("")
    for name, rel, lineno, clauses in sites:
        lines.append("(* %s  (%s line %d) *)" % (name, rel, lineno))
        body = ";\n".join("   (%s,\n    %s)" % (c, r_decision(d)) for c, d in clauses)
        lines.append("Definition %s : trysite :=\n  [%s]." % (ident(name), body.lstrip()))
        lines.append("")
    ok, reopen = connect_table(repo)
    lines.append("(* Client.accept / ClientTls.accept: handling of the RETURN code of connect_ex *)")
    lines.append("Definition connect_ok_codes : list Z := [%s].   (* %s *)" % ("; ".join(str(v) for _, v in ok), ", ".join(n for n, _ in ok)))
    lines.append("Definition connect_reopen_codes : list Z := [%s].   (* %s *)" % ("; ".join(str(v) for _, v in reopen), ", ".join(n for n, _ in reopen)))
    lines.append("")
    for qual, rel, lineno, why in skipped_log:
        lines.append("(* SKIPPED %s (%s line %d): %s *)" % (qual, rel, lineno, why))
    lines.append("Definition sites : list (string * trysite) :=\n  [%s]." % ";\n   ".join(
        '("%s", %s)' % (name, ident(name)) for name, _, _, _ in sites))
    return "\n".join(lines) + "\n", sites


if __name__ == "__main__":
    import sys
    text, sites = generate(sys.argv[1] if len(sys.argv) > 1 else "/repo")
    sys.stdout.write(text)
