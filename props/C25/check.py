"""
C25 -- transport errors are classified: connection loss cuts off, would-block changes nothing,
others raise; datagram stacks retry transient destination errors.

Tie T: props/C25/translate.py extracts, on every run, the decision table of every transport
       `except` clause of clienting.py / serving.py / udping.py / stacking.py into coq/gen/C25_Tables.v.
Tie H: coq/C25/Model.v interprets the tables with Python's `in` / `==` / except-dispatch semantics.
  theorems       : coq/C25/Props.v -- finite, exhaustive over sites x error universe, on the GENERATED tables
  correspondence : every error value of the universe is raised from the socket / handler double of
                   every drivable site of the real classes; the observed outcome (quiet / cutoff /
                   requeue / raise / raise+close) is compared with `classify site e` inside Coq.
"""
import collections
import errno
import os
import socket
import ssl
import sys

sys.path.insert(0, os.path.dirname(os.path.abspath(__file__)))
import translate  # noqa: E402

from vlib import cz, clist  # noqa: E402

LEVEL = "proof"

HA = ('127.0.0.1', 5001)
CA = ('127.0.0.1', 40001)
LOSS = [errno.ECONNRESET, errno.ENETRESET, errno.ENETUNREACH, errno.EHOSTUNREACH,
        errno.ENETDOWN, errno.EHOSTDOWN, errno.ETIMEDOUT, errno.ECONNREFUSED]


def gen(ctx):
    text, sites = translate.generate(ctx.repo)
    ctx.write_gen("C25_Tables.v", text)
    return sites


# ------------------------------------------------------------------ error universe
def universe():
    """list of (label, factory) -- a fresh exception object per use"""
    out = []
    for code in sorted(set(errno.errorcode)):
        out.append(("OSError(%s)" % errno.errorcode[code], (lambda c=code: OSError(c, os.strerror(c)))))
    codes = sorted(set(int(getattr(ssl, n)) for n in dir(ssl) if n.startswith("SSL_ERROR_")))
    for code in codes:
        for cls in (ssl.SSLError, ssl.SSLSyscallError, ssl.SSLZeroReturnError, ssl.SSLCertVerificationError):
            out.append(("%s(%d)" % (cls.__name__, code), (lambda k=cls, c=code: k(c, "ssl failure"))))
    out.append(("SSLWantReadError", lambda: ssl.SSLWantReadError(ssl.SSL_ERROR_WANT_READ, "want read")))
    out.append(("SSLWantWriteError", lambda: ssl.SSLWantWriteError(ssl.SSL_ERROR_WANT_WRITE, "want write")))
    out.append(("SSLEOFError", lambda: ssl.SSLEOFError(ssl.SSL_ERROR_EOF, "EOF occurred in violation of protocol")))
    out.append(("socket.timeout", lambda: socket.timeout("timed out")))
    return out


def c_cls(ex):
    t = type(ex)
    if t is ssl.SSLWantReadError:
        return "CSSLWantRead"
    if t is ssl.SSLWantWriteError:
        return "CSSLWantWrite"
    if t is ssl.SSLEOFError:
        return "CSSLEOF"
    if t is ssl.SSLZeroReturnError:
        return "CSSLZeroReturn"
    if t is ssl.SSLSyscallError:
        return "CSSLSyscall"
    if t is ssl.SSLCertVerificationError:
        return "CSSLCertVerify"
    if isinstance(ex, ssl.SSLError):
        return "CSSLError"
    if not isinstance(ex.args[0], int):
        return "CTimeout"
    return "COSError"


def c_val(v):
    if isinstance(v, int) and not isinstance(v, bool):
        return "(VInt %s)" % cz(int(v))
    if v is None:
        return "VNone"
    if isinstance(v, str):
        return "VStr"
    raise ValueError("unexpected python value %r" % (v,))


def c_err(ex):
    return "{| ecls := %s; arg0 := %s; eno := %s |}" % (c_cls(ex), c_val(ex.args[0]), c_val(ex.errno))


# ------------------------------------------------------------------ doubles
class Sock(object):
    def __init__(self):
        self.exc = None
        self.closed = False
        self.shut = False

    def _boom(self, *a, **k):
        raise self.exc

    recv = send = do_handshake = accept = connect_ex = recvfrom = sendto = _boom

    def shutdown(self, how):
        if self.exc is not None and getattr(self, "shutdown_raises", False):
            raise self.exc
        self.shut = True

    def setblocking(self, b):
        pass

    def close(self):
        self.closed = True

    def getsockname(self):
        return HA

    def getpeername(self):
        return CA


class Ctx(object):
    verify_mode = ssl.CERT_NONE
    check_hostname = False

    def wrap_socket(self, sock, **kwa):
        return sock


class Handler(object):
    """datagram handler double for GramStack"""
    opened = True
    ha = HA

    def __init__(self):
        self.exc = None

    def send(self, data, ha):
        raise self.exc

    def receive(self):
        raise self.exc

    def reopen(self):
        return True

    def close(self):
        pass


class Pkt(object):
    packed = b"\x01\x02"


# phases of a client connection: (accepted, connected).  "pending" = the window after connect_ex() returned
# EINPROGRESS (socket present, connect not completed: where a refused / unreachable / timed out connect is
# reported by the next recv / send); "handshaking" (TLS only) = tcp connect done, TLS handshake not yet
PHASES = collections.OrderedDict([("connected", (True, True)), ("pending", (False, False)),
                                  ("handshaking", (True, False))])
CLIENT_PHASES = {"Client": ("pending",), "ClientTls": ("pending", "handshaking")}


def mk(kind, phase="connected"):
    from ioflo.aio.tcp import clienting, serving
    s = Sock()
    acc, con = PHASES[phase]
    if kind == "Client":
        o = clienting.Client(ha=HA)
        o.cs = s
        o.opened = True
        o.accepted = acc     # plain tcp: .connected is .accepted
    elif kind == "ClientTls":
        o = clienting.ClientTls(ha=HA, context=Ctx())
        o.cs = s
        o.opened = True
        o.accepted = acc
        o.connected = con
    elif kind == "Incomer":
        o = serving.Incomer(ha=HA, ca=CA, cs=s, bs=1024)
    else:
        o = serving.IncomerTls(ha=HA, ca=CA, cs=s, bs=1024, context=Ctx())
    return o, s


def drive_stream(kind, meth, phase="connected"):
    def f(ex):
        o, s = mk(kind, phase)
        if kind in CLIENT_PHASES and (bool(o.connected) != PHASES[phase][1] or o.cutoff):
            return "Other:harness could not set up phase %s" % phase
        s.exc = ex
        o.tx(b"queued")
        o.rxbs.extend(b"buffered")

        def snap():
            return (bytes(o.rxbs), [bytes(d) for d in o.txes], getattr(o, "connected", None),
                    getattr(o, "accepted", None), o.cs is s, s.closed, s.shut)
        before = snap()
        try:
            r = getattr(o, meth)(b"abc") if meth == "send" else getattr(o, meth)()
        except BaseException as got:
            if got is not ex:
                return "Other:%r" % (got,)
            if o.cutoff:
                return "Other:cutoff set and raised"
            return "RaiseClose" if s.closed else "Raise"
        if r:
            return "Other:returned %r" % (r,)
        if snap() != before:   # nothing but the cutoff flag may change
            return "Other:connection state changed %r -> %r" % (before, snap())
        return "Cutoff" if o.cutoff else "Quiet"
    return f


def drive_handshake(kind):
    def f(ex):
        o, s = mk(kind)
        if kind == "ClientTls":
            o.connected = False
        s.exc = ex
        try:
            r = o.handshake()
        except BaseException as got:
            if got is not ex:
                return "Other:%r" % (got,)
            return "RaiseClose" if s.closed else "Raise"
        if r or o.connected or s.closed or o.cutoff:
            return "Other:returned %r connected=%r" % (r, o.connected)
        return "Quiet"
    return f


def drive_shutdown(kind, meth):
    def f(ex):
        o, s = mk(kind)
        s.exc = ex
        s.shutdown_raises = True
        try:
            getattr(o, meth)()
        except BaseException as got:
            return "Raise" if got is ex else "Other:%r" % (got,)
        return "Cutoff" if o.cutoff else "Quiet"
    return f


def drive_accept(ex):
    from ioflo.aio.tcp import serving
    a = serving.Acceptor(ha=HA)
    a.ss = Sock()
    a.ss.exc = ex
    try:
        r = a.accept()
    except BaseException as got:
        return "Raise" if got is ex else "Other:%r" % (got,)
    return "Quiet" if r == (None, None) and not a.axes else "Other:returned %r" % (r,)


def drive_acceptor_close(ex):
    from ioflo.aio.tcp import serving
    a = serving.Acceptor(ha=HA)
    a.ss = s = Sock()
    s.exc = ex
    s.shutdown_raises = True
    try:
        a.close()
    except BaseException as got:
        return "Raise" if got is ex else "Other:%r" % (got,)
    return "Quiet" if s.closed and a.ss is None else "Other:not closed"


def drive_connect(ex):
    o, s = mk("Client")
    o.connected = False
    s.exc = ex
    try:
        r = o.accept()
    except BaseException as got:
        if got is not ex:
            return "Other:%r" % (got,)
        return "RaiseClose" if s.closed else "Raise"
    return "Quiet" if not r else "Other:returned %r" % (r,)


def drive_udp(meth):
    def f(ex):
        from ioflo.aio.udp import udping
        u = udping.SocketUdpNb(ha=HA)
        u.ss = Sock()
        u.ss.exc = ex
        try:
            r = u.receive() if meth == "receive" else u.send(b"abc", CA)
        except BaseException as got:
            return "Raise" if got is ex else "Other:%r" % (got,)
        if meth == "receive" and r == (b'', None):
            return "Quiet"
        return "Other:returned %r" % (r,)
    return f


def drive_gram(meth):
    def f(ex):
        from ioflo.aio.proto import stacking
        h = Handler()
        st = stacking.GramStack(handler=h)
        st.handler = h
        h.exc = ex
        pkt = Pkt()
        try:
            if meth == "tx":
                st.txPkts.append((pkt, CA))
                laters, blockeds = collections.deque(), []
                r = st._serviceOneTxPkt(laters, blockeds)
            else:
                r = st._serviceOneReceived()
        except BaseException as got:
            return "Raise" if got is ex else "Other:%r" % (got,)
        if meth == "tx":
            if list(laters) == [(pkt, CA)] and blockeds == [CA] and not st.txPkts:
                return "Requeue"
            return "Other:laters=%r blockeds=%r" % (list(laters), blockeds)
        return "Quiet" if (not r and not st.rxPkts) else "Other:returned %r" % (r,)
    return f


DRIVERS = collections.OrderedDict()
for _k in ("Client", "ClientTls", "Incomer", "IncomerTls"):
    DRIVERS["%s.receive#0" % _k] = drive_stream(_k, "receive")
    DRIVERS["%s.send#0" % _k] = drive_stream(_k, "send")
for _k in ("ClientTls", "IncomerTls"):
    DRIVERS["%s.handshake#0" % _k] = drive_handshake(_k)
for _k in ("Client", "Incomer"):
    DRIVERS["%s.shutdown#0" % _k] = drive_shutdown(_k, "shutdown")
# the same recv / send entry points of the clients in the not-yet-connected phases: implementation only, the
# property's statement (expected) and the state independence of the extracted tables are evaluated on them
PHASE_DRIVERS = collections.OrderedDict()
for _k in ("Client", "ClientTls"):
    for _m in ("receive", "send"):
        for _p in CLIENT_PHASES[_k]:
            PHASE_DRIVERS[("%s.%s#0" % (_k, _m), _p)] = drive_stream(_k, _m, _p)
DRIVERS["Acceptor.accept#0"] = drive_accept
DRIVERS["Acceptor.close#0"] = drive_acceptor_close
DRIVERS["Client.accept#0"] = drive_connect
DRIVERS["SocketUdpNb.receive#0"] = drive_udp("receive")
DRIVERS["SocketUdpNb.send#0"] = drive_udp("send")
DRIVERS["GramStack._serviceOneTxPkt#0"] = drive_gram("tx")
DRIVERS["GramStack._serviceOneReceived#0"] = drive_gram("rx")


# ------------------------------------------------------------------ the property, executable
def expected(site, ex):
    """what the property's statement demands of this site for this error; None = not constrained"""
    cls, meth = site.split("#")[0].split(".")
    code = ex.args[0] if isinstance(ex.args[0], int) else None
    is_ssl = isinstance(ex, ssl.SSLError)
    if cls in ("Client", "ClientTls", "Incomer", "IncomerTls") and meth in ("receive", "send"):
        tls = cls.endswith("Tls")
        if not is_ssl and code in LOSS:
            return "Cutoff"
        if tls and isinstance(ex, ssl.SSLEOFError):
            return "Cutoff"
        if tls and isinstance(ex, (ssl.SSLWantReadError, ssl.SSLWantWriteError)):
            return "Quiet"
        if not tls and not is_ssl and code in (errno.EAGAIN, errno.EWOULDBLOCK):
            return "Quiet"
        if tls and not is_ssl and code in (2, 3, 8):
            return None   # errno numerically equal to an SSL code: documented conflation
        if tls and is_ssl and code in (2, 3, 8):
            return None   # generic SSLError object carrying a want/eof code
        if not tls and is_ssl:
            return None   # SSL errors cannot come out of a plain socket
        return "Raise"
    if cls == "GramStack":
        if not is_ssl and code in LOSS:
            return "Requeue" if meth == "_serviceOneTxPkt" else "Quiet"
        if not is_ssl and code == errno.ETIME:
            return None
        return "Raise" if not is_ssl else None
    propagate = ("Raise", "RaiseClose")
    if meth == "handshake":
        if isinstance(ex, (ssl.SSLWantReadError, ssl.SSLWantWriteError)):
            return "Quiet"
        if is_ssl and code in (2, 3):
            return None
        return propagate
    if site.startswith("Acceptor.accept") or site.startswith("SocketUdpNb.receive"):
        if not is_ssl and code in (errno.EAGAIN, errno.EWOULDBLOCK):
            return "Quiet"
        return propagate if not is_ssl else None
    if site.startswith("Client.accept") or site.startswith("SocketUdpNb.send"):
        return propagate if not is_ssl else None
    return None


# ------------------------------------------------------------------ datagram retry consequence
TRANSIENT = [errno.ECONNREFUSED, errno.ECONNRESET, errno.ENETRESET, errno.ENETUNREACH, errno.EHOSTUNREACH,
             errno.ENETDOWN, errno.EHOSTDOWN, errno.ETIMEDOUT, errno.ETIME]
FATAL = [errno.EPERM, errno.EMSGSIZE, errno.EACCES, errno.ENOBUFS, errno.EINVAL]
TX_ALL = ["serviceTxPkts", "serviceAllTx"]
TX_ONCE = ["serviceTxPktsOnce", "serviceAllTxOnce"]
RX_ALL = ["serviceReceives", "serviceAllRx"]
RX_ONCE = ["serviceReceivesOnce", "serviceAllRxOnce"]


class GramHandler(object):
    """datagram socket double replaying a per-call oracle"""
    opened = True
    ha = HA

    def __init__(self):
        self.sres, self.rres, self.sent = [], [], []

    def send(self, data, ha):
        r = self.sres.pop(0) if self.sres else ("ok",)
        if r[0] != "ok":
            raise socket.error(r[1], os.strerror(r[1]))
        self.sent.append((int(data), ha))
        return len(data)

    def receive(self):
        r = self.rres.pop(0) if self.rres else ("none",)
        if r[0] == "d":
            return (b"%d" % r[1], ('10.9.9.9', r[1]))
        if r[0] == "none":
            return (b'', None)
        raise socket.error(r[1], os.strerror(r[1]))

    def reopen(self):
        return True

    def close(self):
        pass


class GPkt(object):
    def __init__(self, i):
        self.packed = b"%d" % i
        self.i = i


def run_gram(cls, ops):
    from ioflo.aio.proto import stacking
    h = GramHandler()
    st = getattr(stacking, cls)(handler=h)
    st.handler = h
    raised, enq = 0, []
    for op in ops:
        try:
            if op[0] == "enq":
                st.txPkts.append((GPkt(op[1]), op[2]))
                enq.append((op[1], op[2]))
            elif op[0] in ("txall", "txonce"):
                h.sres = [tuple(r) for r in (op[2] if op[0] == "txall" else [op[2]])]
                getattr(st, op[1])()
            else:
                h.rres = [tuple(r) for r in (op[2] if op[0] == "rxall" else [op[2]])]
                getattr(st, op[1])()
        except socket.error:
            raised += 1
        h.sres, h.rres = [], []
    return {"txq": [(p.i, ha) for p, ha in st.txPkts], "sent": list(h.sent), "raised": raised,
            "rxq": [ha[1] for _, ha in st.rxPkts], "enq": enq}


def gram_fatal(ops):
    for op in ops:
        rs = op[2] if op[0] in ("txall", "rxall") else [op[2]] if op[0] in ("txonce", "rxonce") else []
        if any(r[0] == "f" for r in rs):
            return True
    return False


def gram_prop(ops, r):
    """a transient destination error is retryable, not fatal: nothing raised, no packet lost or duplicated;
    with propagating errors in the history only `no duplication` is demanded"""
    out = sorted(r["sent"] + r["txq"])
    if not gram_fatal(ops):
        if r["raised"]:
            return "a transient datagram error propagated out of a service call"
        if out != sorted(r["enq"]):
            missing = [p for p in r["enq"] if p not in out]
            return "packet(s) %r neither sent nor still queued after a transient send error" % (missing,)
    elif len(set(out)) != len(out) or any(p not in r["enq"] for p in out):
        return "a packet was sent / queued twice"
    # single-shot path only (no full pass, no propagating error): the order is preserved exactly
    if not gram_fatal(ops) and not any(op[0] == "txall" for op in ops) and r["sent"] + r["txq"] != r["enq"]:
        return "the single-shot path reordered the packets: sent ++ queued = %r" % (r["sent"] + r["txq"],)
    return None


def c_gops(ops):
    def sr(r):
        return {"ok": "SOk", "t": "STransient", "f": "SFatal"}[r[0]]

    def rr(r):
        return {"d": lambda: "RData %s" % cz(r[1]), "none": lambda: "RNone", "t": lambda: "RTransient",
                "f": lambda: "RFatal"}[r[0]]()
    out = []
    for op in ops:
        if op[0] == "enq":
            out.append("Enq (%s, %s)" % (cz(op[1]), cz(op[2])))
        elif op[0] == "txall":
            out.append("TxAll %s" % clist([sr(r) for r in op[2]], "sres"))
        elif op[0] == "txonce":
            out.append("TxOnce %s" % sr(op[2]))
        elif op[0] == "rxall":
            out.append("RxAll %s" % clist([rr(r) for r in op[2]], "rres"))
        else:
            out.append("RxOnce (%s)" % rr(op[2]))
    return clist(out, "gop")


GRAM_HEADER = """From Coq Require Import List ZArith Bool.
Import ListNotations.
Require Import V.C25.Gram.
Open Scope Z_scope.
Fixpoint lz_eqb (a b : list Z) := match a, b with [], [] => true | x :: a', y :: b' => Z.eqb x y && lz_eqb a' b' | _, _ => false end.
Fixpoint llz_eqb (a b : list (list Z)) := match a, b with [], [] => true | x :: a', y :: b' => lz_eqb x y && llz_eqb a' b' | _, _ => false end.
Definition flatp (l : list pkt) : list Z := flat_map (fun p => [fst p; snd p]) l.
Definition gobs (s : gs) : list (list Z) := [flatp (txq s); flatp (sent s); rxq s; [Z.of_nat (raised s)]].
"""


def c_gobs(r):
    def fl(l):
        return clist([cz(x) for p in l for x in p], "Z")
    return clist([fl(r["txq"]), fl(r["sent"]), clist([cz(x) for x in r["rxq"]], "Z"),
                  clist([cz(r["raised"])], "Z")], "(list Z)")


def gram_histories(rng, nrandom):
    import itertools
    base = [("enq", 1, 10), ("enq", 2, 10), ("enq", 3, 20)]
    # every transient errno on the head packet through every tx entry point, then a clean full pass
    for k, e in enumerate(TRANSIENT + FATAL):
        tag = "t" if e in TRANSIENT else "f"
        for ent in TX_ALL:
            yield base + [("txall", ent, [(tag, e)]), ("txall", TX_ALL[k % 2], [])]
        for ent in TX_ONCE:
            yield base + [("txonce", ent, (tag, e)), ("txall", TX_ALL[k % 2], [])]
        for ent in RX_ALL:
            yield [("rxall", ent, [(tag, e)]), ("rxall", ent, [])]
        for ent in RX_ONCE:
            yield [("rxonce", ent, (tag, e)), ("rxonce", ent, ("none",))]
    yield [("rxall", "serviceReceives", [("d", 5), ("d", 6), ("t", errno.ECONNREFUSED), ("d", 7)]),
           ("rxonce", "serviceReceivesOnce", ("d", 8)), ("rxall", "serviceReceives", [("d", 9), ("none",), ("d", 1)])]
    # small scope: <= 3 packets over 2 destinations x every result pattern x entry kind
    alph = [("ok",), ("t", errno.ECONNREFUSED), ("f", errno.EPERM)]
    for n in (1, 2, 3):
        for dests in itertools.product((10, 20), repeat=n):
            enq = [("enq", i + 1, d) for i, d in enumerate(dests)]
            for orc in itertools.product(alph, repeat=n):
                yield enq + [("txall", TX_ALL[n % 2], list(orc)), ("txall", "serviceTxPkts", [])]
            for orc in itertools.product(alph, repeat=min(n, 2)):
                yield enq + [("txonce", TX_ONCE[(n + k) % 2], r) for k, r in enumerate(orc)] + [("txall", "serviceAllTx", [])]
    for n in (1, 2, 3):
        for dests in itertools.product((10, 20), repeat=n):
            enq = [("enq", i + 1, d) for i, d in enumerate(dests)]
            for orc in itertools.product([("ok",), ("t", errno.EHOSTUNREACH)], repeat=3):
                yield enq + [("txonce", TX_ONCE[k % 2], r) for k, r in enumerate(orc)]   # single-shot path only
    for _ in range(nrandom):
        ops, pid = [], 0
        for _ in range(rng.randint(3, 16)):
            x = rng.random()
            if x < 0.45:
                pid += 1
                ops.append(("enq", pid, 10 * rng.randint(1, 3)))
            elif x < 0.65:
                orc = [rng.choice([("ok",), ("ok",), ("t", rng.choice(TRANSIENT)), ("f", rng.choice(FATAL))] if rng.random() < 0.2
                                  else [("ok",), ("t", rng.choice(TRANSIENT))]) for _ in range(rng.randint(0, 5))]
                ops.append(("txall", rng.choice(TX_ALL), orc))
            elif x < 0.85:
                ops.append(("txonce", rng.choice(TX_ONCE), rng.choice([("ok",), ("t", rng.choice(TRANSIENT)), ("t", rng.choice(TRANSIENT)),
                                                                        ("f", rng.choice(FATAL))] if rng.random() < 0.2
                                                                       else [("ok",), ("t", rng.choice(TRANSIENT))])))
            elif x < 0.93:
                ops.append(("rxall", rng.choice(RX_ALL), [rng.choice([("t", rng.choice(TRANSIENT)), ("none",)])]))
            else:
                ops.append(("rxonce", rng.choice(RX_ONCE), rng.choice([("t", rng.choice(TRANSIENT)), ("none",), ("f", errno.EPERM)])))
        ops.append(("txall", "serviceTxPkts", []))
        yield ops


# ------------------------------------------------------------------ connect_ex return codes (Client.accept)
CONNECT_WB = [errno.EINPROGRESS, errno.EALREADY, errno.EAGAIN, errno.EWOULDBLOCK, errno.EINTR]
CONNECT_CODES = [0, errno.EISCONN, errno.EINPROGRESS, errno.EALREADY, errno.EAGAIN, errno.EINTR, errno.EINVAL,
                 errno.ECONNREFUSED, errno.ETIMEDOUT, errno.ENETUNREACH, errno.EHOSTUNREACH, errno.ECONNRESET]


class ConnSock(Sock):
    """socket double whose connect_ex RETURNS the next code of the world's list"""
    def __init__(self, world):
        Sock.__init__(self)
        self.world = world
        self.sid = world["made"]
        world["made"] += 1

    def connect_ex(self, ha):
        return self.world["codes"].pop(0)


def run_connect(kind, codes):
    """successive Client.accept() calls while not connected; the environment part of open() (creating a
    real socket) is replaced by a double that creates a ConnSock and clears the flags as open() does"""
    from ioflo.aio.tcp import clienting
    world = {"made": 0, "codes": list(codes)}
    o = clienting.Client(ha=HA) if kind == "Client" else clienting.ClientTls(ha=HA, context=Ctx())

    def fake_open():
        o.accepted = False
        o.connected = False
        o.cutoff = False
        o.cs = ConnSock(world)
        o.opened = True
        return True
    o.open = fake_open
    o.reopen()
    trace = []
    for _ in codes:
        if o.accepted:
            break
        before = o.cs
        ret = o.accept()
        trace.append({"ret": bool(ret), "same_socket": o.cs is before, "old_closed": before.closed,
                      "accepted": bool(o.accepted)})
    return {"sockid": o.cs.sid, "accepted": bool(o.accepted), "trace": trace}


def connect_prop(codes, r):
    """would-block class results of connect_ex never change connection state; 0 / EISCONN connect on the same socket"""
    for k, (c, t) in enumerate(zip(codes, r["trace"])):
        if c in CONNECT_WB and (not t["same_socket"] or t["old_closed"] or t["accepted"] or t["ret"]):
            return "attempt %d: connect_ex returned %s (connect still pending) but the client %s" % (
                k, errno.errorcode.get(c, c), "closed its socket and opened a new one" if not t["same_socket"] else "changed state")
        if c in (0, errno.EISCONN) and not (t["same_socket"] and t["accepted"] and t["ret"]):
            return "attempt %d: connect_ex returned %s but the client is not connected on that socket" % (k, c)
    return None


def run(ctx):
    from ioflo.aid.consoling import getConsole
    getConsole().reinit(verbosity=0)   # keep ioflo's console output out of the check's stdout
    ctx.rule = ("sites = every except clause catching socket.error/ssl.SSLError/OSError/Exception in the four "
                "transport modules (extracted by ast on this run); error universe = every errno of the platform "
                "as OSError, every SSL_ERROR_* code under SSLError/SSLSyscallError/SSLZeroReturnError/"
                "SSLCertVerificationError, SSLWantRead/WriteError, SSLEOFError, socket.timeout; each error is "
                "raised from the socket/handler double of each drivable site of the real classes and the observed "
                "outcome compared with classify(site, error) in Coq; non-trivial = error in the loss / would-block / "
                "TLS sets; exhaustive over that finite product")
    ctx.assumptions = [
        "doubles raise the exception object from recv/send/do_handshake/accept/connect_ex/recvfrom/sendto/shutdown",
        "errno and SSL_ERROR_* numbers are those of this platform (resolved by the translator at run time)",
        "sites extracted and proved but not driven by the correspondence: Acceptor.open, SocketUdpNb.open (bind "
        "failures), shutdownSend/shutdownReceive wrappers, and the bare `raise` clauses of Stack/RemoteStack/"
        "ClientStreamStack/TcpClientStack",
        "TLS sites compare ex.args[0] with errno and SSL codes alike: OSError with errno 2/3/8 (ENOENT/ESRCH/"
        "ENOEXEC, not produced by socket I/O) is taken for want-read/want-write/EOF (Example tls_int_conflation)",
    ]
    try:
        sites = gen(ctx)
    except translate.TranslationError as ex:
        ctx.tie_broken("translator", "C25 translate.py", repr(ex))
        sites = []
    res = ctx.coq_build("C25/Props.v") if sites else None

    names = [s[0] for s in sites]
    uni = universe()
    observed = []
    per_site = collections.OrderedDict()
    for site, drv in DRIVERS.items():
        if sites and site not in names:
            ctx.tie_broken("translator", "site vanished", "%s is no longer extracted" % site)
            continue
        rows = []
        for label, mkex in uni:
            ex = mkex()
            got = drv(ex)
            want = expected(site, ex)
            observed.append((site, label, got, want))
            ctx.case({"site": site, "error": label, "outcome": got},
                     nontrivial=want in ("Cutoff", "Quiet", "Requeue"), kind=site.split("#")[0])
            if got.startswith("Other"):
                if sites:
                    ctx.tie_broken("correspondence", site, "error %s: unclassifiable outcome %s" % (label, got))
                continue
            rows.append((label, c_err(ex), got))
        per_site[site] = rows
    # ---- client recv / send in the connect-pending (and TLS handshake-pending) phase, every error of the universe:
    # implementation only, on every run (also when the translator failed); the handler tables carry no connection
    # state, so the outcome must be the one observed (and compared with classify) on the connected client
    connected_outcome = dict(((s, l), g) for s, l, g, w in observed)
    pobserved = []
    for (site, phase), drv in PHASE_DRIVERS.items():
        for label, mkex in uni:
            ex = mkex()
            got = drv(ex)
            want = expected(site, ex)
            pobserved.append((site, phase, label, got, want))
            ctx.case({"site": site, "phase": phase, "error": label, "outcome": got},
                     nontrivial=want in ("Cutoff", "Quiet"), kind="%s/%s" % (site.split("#")[0], phase))
            ref = connected_outcome.get((site, label))
            if got.startswith("Other") or (ref is not None and not ref.startswith("Other") and got != ref):
                ctx.tie_broken("correspondence", "%s [%s]" % (site, phase),
                               "error %s: outcome %s on a client in phase %s, %s when connected (the extracted "
                               "table does not depend on the connection state)" % (label, got, phase, ref))
    ctx.extra["phase_sites_driven"] = ["%s [%s]" % k for k in PHASE_DRIVERS]
    ctx.extra["sites_skipped"] = ["%s (%s:%d): %s" % x for x in translate.skipped_log]
    ctx.extra["sites_extracted"] = names
    ctx.extra["sites_driven"] = list(DRIVERS)
    ctx.exhaustive = True

    if sites:
        # one Coq case per site: map (classify site) <all error values> against the observed outcomes;
        # a disagreeing site is then re-run error by error to name the error value
        header = ("From Coq Require Import List ZArith Bool.\nImport ListNotations.\n"
                  "Require Import V.C25.Model V.gen.C25_Tables.\nOpen Scope Z_scope.\n"
                  "Fixpoint la_eqb (a b : list action) := match a, b with [], [] => true | x :: a', y :: b' => "
                  "action_eqb x y && la_eqb a' b' | _, _ => false end.\n")
        order = list(per_site)
        cases = [("map (classify %s) %s" % (translate.ident(site), clist([r[1] for r in per_site[site]], "errval")),
                  clist([r[2] for r in per_site[site]], "action")) for site in order]
        try:
            bad_sites = ctx.coq_cases(header, "la_eqb", cases, shard=5)
            fine, metas = [], []
            for i in bad_sites:
                for label, lit, got in per_site[order[i]]:
                    fine.append(("classify %s %s" % (translate.ident(order[i]), lit), got))
                    metas.append((order[i], label, got))
            bad = ctx.coq_cases(header, "action_eqb", fine, name="fine") if fine else []
        except RuntimeError as ex:   # e.g. a site definition vanished from the generated tables
            ctx.tie_broken("harness", "coq_cases", str(ex)[-1500:])
            bad, metas = [], []
        for i in bad[:6]:
            ctx.tie_broken("correspondence", "C25 classify vs %s" % metas[i][0],
                           "error %s: implementation outcome %s differs from the extracted table" % (metas[i][1], metas[i][2]))
        ctx.extra["mismatches"] = len(bad)

    # ---- datagram retry consequence: histories through every service entry point of GramStack / UdpStack
    gmetas, gcases = [], []
    for cls in ("GramStack", "UdpStack"):
        for ops in gram_histories(ctx.rng, ctx.n(150, 1500)):
            r = run_gram(cls, ops)
            tr = sum(1 for op in ops if op[0] in ("txall", "txonce") for x in (op[2] if op[0] == "txall" else [op[2]]) if x[0] == "t")
            ctx.case({"stack": cls, "ops": ops}, nontrivial=tr > 0, kind="gram/%s" % cls)
            gcases.append(("gobs (grun %s)" % c_gops(ops), c_gobs(r)))
            gmetas.append((cls, ops, r))
    if sites:
        try:
            gbad = ctx.coq_cases(GRAM_HEADER, "llz_eqb", gcases, name="gram")
        except RuntimeError as ex:
            ctx.tie_broken("harness", "coq_cases gram", str(ex)[-1500:])
            gbad = []
        for i in gbad[:5]:
            cls, ops, r = gmetas[i]
            ctx.tie_broken("correspondence", "C25 Gram model vs %s" % cls, "ops=%r impl=%r" % (ops, r))
        ctx.extra["gram_mismatches"] = len(gbad)

    # ---- connect_ex return codes: every sequence of <= 2 codes (quick) / <= 3 (thorough), Client and ClientTls
    import itertools as _it
    cmetas, ccases = [], []
    for kind in ("Client", "ClientTls"):
        for n in range(1, ctx.n(2, 3) + 1):
            for codes in _it.product(CONNECT_CODES, repeat=n):
                r = run_connect(kind, codes)
                ctx.case({"class": kind, "connect_ex_returns": codes}, nontrivial=any(c in CONNECT_WB for c in codes),
                         kind="connect/%s" % kind)
                ccases.append(("(let s := connect_run {| sockid := 0; accepted := false |} %s in [Z.of_nat (sockid s); if accepted s then 1 else 0])"
                               % clist([cz(c) for c in codes], "Z"),
                               clist([cz(r["sockid"]), cz(int(r["accepted"]))], "Z")))
                cmetas.append((kind, codes, r))
    if sites:
        try:
            cbad = ctx.coq_cases("From Coq Require Import List ZArith Bool.\nImport ListNotations.\n"
                                 "Require Import V.C25.Connect.\nOpen Scope Z_scope.\n"
                                 "Fixpoint lz_eqb (a b : list Z) := match a, b with [], [] => true | x :: a', y :: b' => "
                                 "Z.eqb x y && lz_eqb a' b' | _, _ => false end.\n", "lz_eqb", ccases, name="connect")
        except RuntimeError as ex:
            ctx.tie_broken("harness", "coq_cases connect", str(ex)[-1500:])
            cbad = []
        for i in cbad[:5]:
            kind, codes, r = cmetas[i]
            ctx.tie_broken("correspondence", "C25 connect model vs %s.accept" % kind,
                           "connect_ex returns %r impl=%r" % ([errno.errorcode.get(c, c) for c in codes], r))
        ctx.extra["connect_mismatches"] = len(cbad)

    def search():
        cfail = None
        for kind, codes, r in cmetas:
            why = connect_prop(codes, r)
            if why and (cfail is None or len(codes) < len(cfail["connect_ex_returns"])):
                cfail = {"key": "connect-wouldblock-code-reopens-socket", "class": kind,
                         "connect_ex_returns": [errno.errorcode.get(c, c) for c in codes], "observed": r, "why": why,
                         "expected": "EINPROGRESS/EALREADY/EAGAIN/EWOULDBLOCK/EINTR keep the socket; 0/EISCONN connect on it",
                         "contradicts": "C25.Props.connect_wouldblock_keeps_the_socket"}
        gfail = None
        for cls, ops, r in gmetas:
            why = gram_prop(ops, r)
            if why and (gfail is None or len(repr(ops)) < len(repr(gfail["ops"]))):
                gfail = {"key": "gram-transient-send-error-loses-packet", "stack": cls, "ops": ops,
                         "observed": r, "why": why,
                         "expected": "after transient send errors every queued packet is either sent or still queued; nothing raised",
                         "contradicts": "C25.Props.gram_transient_error_never_loses_a_packet"}
        fails = [(s, l, g, w) for s, l, g, w in observed
                 if w is not None and (g not in w if isinstance(w, tuple) else g != w)]
        pfails = [(s, p, l, g, w) for s, p, l, g, w in pobserved if w is not None and g != w
                  and (s, l, g, w) not in fails]   # a failure that only shows before the connect completed
        if pfails and not [f for f in fails if "Tls" not in f[0] and not f[0].startswith("GramStack")]:
            pfails.sort(key=lambda f: ("Tls" in f[0], f[2] != "OSError(ECONNREFUSED)"))
            s, p, l, g, w = pfails[0]
            acc, con = PHASES[p]
            return {"key": "error-classification-before-connected", "site": s, "class": s.split(".")[0],
                    "method": s.split("#")[0].split(".")[1], "phase": p,
                    "client_state": {"cs": "socket double", "opened": True, "accepted": acc, "connected": con,
                                     "cutoff": False, "txes": ["queued"], "rxbs": "buffered"},
                    "error_raised": l + " from the socket double's recv/send", "observed": g, "expected": w,
                    "all_failing": ["%s [%s] <- %s: %s (expected %s)" % f for f in pfails][:40],
                    "contradicts": "C25.Props.loss_set_cuts_off / wouldblock_quiet / others_raise (tables carry no "
                                   "connection state)"}
        if not fails:
            return cfail or gfail
        tls = [f for f in fails if "Tls" in f[0]]
        gram = [f for f in fails if f[0].startswith("GramStack")]
        rest = [f for f in fails if f not in tls and f not in gram]
        s, l, g, w = (rest or tls or gram)[0]
        key = "error-classification"
        if not rest:
            key = "tls-eof-class-in-errno-tuple" if tls and not gram else \
                  "gram-rx-eq-tuple" if gram and not tls else "tls-eof-and-gram-rx-classification"
        return {"key": key, "site": s, "error_raised": l, "observed": g, "expected": w,
                "all_failing": ["%s <- %s: %s (expected %s)" % f for f in fails][:40],
                "contradicts": "C25.Props.tls_eof_cuts_off / gram_transient_retry / loss_set_cuts_off / others_raise"}

    ctx.settle(search)
