"""
Drive the real Valet (WSGI server) and the real Patron (client) over the fakenet double.

A session is
  shapes   : one response shape per request, request i asks for path /r<i>
             ('len', [pieces])    Content-Length = total length, body yielded in pieces
             ('nolen', [pieces])  no Content-Length, body yielded in pieces (b'' = async idle yield)
             ('empty',)           no Content-Length, empty iterable
             ('len0',)            Content-Length: 0, empty iterable
             ('err', status)      the app raises HTTPError(status)
             ('lencut', [pieces], k)  Content-Length = k <= total length (the server must cut at k)
  schedule : list of steps  ('q',) enqueue the next request on the client
                            ('s', rx, tx) Valet.serviceAll with receive/send byte budgets (None = unlimited)
                            ('c', rx, tx) Patron.serviceAll likewise
                            ('t', seconds) advance the STORE clock (idle gap; the Valet's idle timeout is 5 s)
  After the schedule every remaining request is enqueued and both sides are serviced
  alternately without budgets until the client holds N responses or nothing moves any more.
"""
import collections.abc  # noqa: F401
from collections import deque

import fakenet

PORT = 6101


def inner(shape):
    """('close', request_body, shape): the request is a POST that carries request_body and says
    `Connection: close` (only as the LAST request of a session); its response has shape `shape`"""
    return shape[2] if shape[0] == 'close' else shape


def make_app(shapes, gen=None):
    """gen[i] True -> request i is answered by a generator application (start_response is
    called and HTTPError raised at the first next()); False -> plain function returning a list
    iterator.  'err' shapes always use the generator style (an HTTPError raised while the
    application is *called* is C30's business, not C31's)."""
    from ioflo.aio.http import httping

    def headers(i, shape):
        hdrs = [('Content-Type', 'text/plain'), ('X-Req', str(i))]
        if shape[0] == 'len':
            hdrs.append(('Content-Length', str(sum(len(p) for p in shape[1]))))
        elif shape[0] == 'len0':
            hdrs.append(('Content-Length', '0'))
        elif shape[0] == 'lencut':
            hdrs.append(('Content-Length', str(shape[2])))
        return hdrs

    def pieces(shape):
        return list(shape[1]) if shape[0] in ('len', 'nolen', 'lencut') else []

    def genapp(i, shape, start_response):
        if shape[0] == 'err':
            raise httping.HTTPError(shape[1], title="t%d" % i, detail="d%d" % i)
        start_response('200 OK', headers(i, shape))
        for p in pieces(shape):
            yield p

    def app(environ, start_response):
        path = environ['PATH_INFO']
        i = int(path.rsplit('r', 1)[1])
        shape = inner(shapes[i])
        if shape[0] not in ('len', 'nolen', 'empty', 'len0', 'err', 'lencut'):
            raise ValueError(shape[0])
        if shape[0] == 'err' or (gen and gen[i]):
            return genapp(i, shape, start_response)
        start_response('200 OK', headers(i, shape))
        return iter(pieces(shape))
    return app


def expected_body(shape, i):
    """the body the WSGI app produced for request i (what the client must see)"""
    shape = inner(shape)
    from ioflo.aio.http import httping
    kind = shape[0]
    if kind in ('len', 'nolen'):
        return b''.join(shape[1])
    if kind == 'lencut':
        return b''.join(shape[1])[:shape[2]]
    if kind in ('empty', 'len0'):
        return b''
    if kind == 'err':
        return httping.HTTPError(shape[1], title="t%d" % i, detail="d%d" % i).render()
    raise ValueError(kind)


def expected_status(shape):
    return shape[1] if shape[0] == 'err' else 200


def split_wire(wire):
    """split the server->client byte stream into responses using only the framing headers.
    returns list of (framing, head_headers, body_bytes) with framing 'L' | 'C' | 'U' | '?'"""
    out = []
    buf = bytes(wire)
    while buf:
        k = buf.find(b"\r\n\r\n")
        if k < 0:
            out.append(('?', {}, buf))
            break
        head, rest = buf[:k], buf[k + 4:]
        hd = {}
        for line in head.split(b"\r\n")[1:]:
            name, _, val = line.partition(b":")
            hd[name.strip().lower()] = val.strip()
        if hd.get(b'transfer-encoding', b'').lower() == b'chunked':
            body = bytearray()
            ok = True
            while True:
                j = rest.find(b"\r\n")
                if j < 0:
                    ok = False
                    break
                try:
                    n = int(rest[:j].split(b";")[0], 16)
                except ValueError:
                    ok = False
                    break
                rest = rest[j + 2:]
                if n == 0:
                    if rest[:2] == b"\r\n":
                        rest = rest[2:]
                    else:
                        ok = False
                    break
                body.extend(rest[:n])
                rest = rest[n + 2:]
            out.append(('C' if ok else '?', hd, bytes(body)))
            buf = rest if ok else b''
        elif b'content-length' in hd:
            n = int(hd[b'content-length'])
            out.append(('L', hd, rest[:n]))
            buf = rest[n:]
        else:
            out.append(('U', hd, rest))
            buf = b''
    return out


def request_lines(net):
    """start lines of the requests the client put on the wire (client -> server bytes)"""
    out = []
    for c, sv, ha in net.connections:
        buf = bytes(c.sent)
        while buf:
            k = buf.find(b"\r\n\r\n")
            if k < 0:
                break
            head = buf[:k]
            out.append(head.split(b"\r\n")[0])
            n = 0
            for line in head.split(b"\r\n")[1:]:
                name, _, val = line.partition(b":")
                if name.strip().lower() == b"content-length":
                    n = int(val.strip())
            buf = buf[k + 4 + n:]
    return out


def run_session(shapes, schedule, gen=None, max_rounds=60):
    """returns dict(responses=[(status, body, reqpath, x_req)], framings=[...], wire=bytes, stuck=bool,
    error=None|str)"""
    from ioflo.aid.odicting import odict
    from ioflo.base import storing
    from ioflo.aio.http import clienting, serving
    net = fakenet.install()
    store = storing.Store(stamp=0.0)
    alpha = serving.Valet(port=PORT, bufsize=131072, store=store, app=make_app(shapes, gen))
    assert alpha.servant.reopen()
    beta = clienting.Patron(bufsize=131072, store=store, hostname='127.0.0.1', port=PORT,
                            reconnectable=True)
    assert beta.connector.reopen()
    n = len(shapes)
    pending = deque(range(n))

    def enqueue():
        if pending:
            i = pending.popleft()
            if shapes[i][0] == 'close':
                beta.requests.append(odict([('method', u'POST'), ('path', u'/r%d' % i),
                                            ('qargs', odict()), ('fragment', u''),
                                            ('headers', odict([('Accept', 'text/plain'), ('Connection', 'close')])),
                                            ('body', shapes[i][1])]))
                return
            beta.requests.append(odict([('method', u'GET'), ('path', u'/r%d' % i),
                                        ('qargs', odict()), ('fragment', u''),
                                        ('headers', odict([('Accept', 'text/plain')]))]))

    def budgets(sock, rx, tx):
        if sock is not None:
            sock.rx_budget = rx
            sock.tx_budget = tx

    def step_server(rx, tx):
        for ix in alpha.servant.ixes.values():
            budgets(ix.cs, rx, tx)
        alpha.serviceAll()
        for ix in alpha.servant.ixes.values():   # connection accepted during this very call
            budgets(ix.cs, None, None)

    def step_client(rx, tx):
        budgets(beta.connector.cs, rx, tx)
        beta.serviceAll()
        budgets(beta.connector.cs, None, None)

    error = None
    try:
        for st in schedule:
            if st[0] == 'q':
                enqueue()
            elif st[0] == 't':      # ('t', seconds): STORE time passes (timers of the Valet / Patron run on it)
                store.advanceStamp(st[1])
            elif st[0] == 's':
                step_server(st[1], st[2])
            else:
                step_client(st[1], st[2])
        while pending:
            enqueue()
        idle = 0
        for _ in range(max_rounds * max(1, n)):
            before = (len(beta.responses), sum(len(s.sent) for s in net.socks), len(beta.requests))
            step_server(None, None)
            step_client(None, None)
            after = (len(beta.responses), sum(len(s.sent) for s in net.socks), len(beta.requests))
            if len(beta.responses) >= n and not beta.requests:
                break
            idle = idle + 1 if before == after else 0
            if idle >= 12:  # more than the longest run of idle (empty) yields an app makes
                break
    except Exception as ex:  # an exception escaping serviceAll is an observable outcome
        error = "%s: %s" % (type(ex).__name__, ex)
    wire = b''
    if net.connections:
        wire = bytes(net.connections[0][1].sent)
    resps = []
    for r in beta.responses:
        resps.append((r['status'], bytes(r['body']), r['request'].get('path'),
                      r['headers'].get('x-req')))
    framed = split_wire(wire)
    out = {
        "responses": resps,
        "framings": [f[0] for f in framed],
        "wire_bodies": [f[2] for f in framed],
        "wire_heads": [f[1] for f in framed],
        "http11": all(l.endswith(b" HTTP/1.1") for l in request_lines(net)),
        "wire": wire,
        "stuck": len(resps) < n,
        "error": error,
        "connections": len(net.connections),
    }
    try:
        alpha.servant.closeAll()
        beta.connector.close()
    except Exception:
        pass
    return out


def run_session_loopback(shapes, gen=None, timeout=2.0):
    """the same session over REAL loopback TCP sockets (ephemeral port); no byte budgets, the
    kernel decides the interleaving.  Returns the client's view only."""
    import time
    from ioflo.aid.odicting import odict
    from ioflo.base import storing
    from ioflo.aio.http import clienting, serving
    from ioflo.aio.tcp import Server
    fakenet.uninstall()
    store = storing.Store(stamp=0.0)
    servant = Server(ha=('127.0.0.1', 0), store=store, bufsize=131072)
    alpha = serving.Valet(servant=servant, store=store, app=make_app(shapes, gen))
    assert alpha.servant.reopen()
    port = alpha.servant.ha[1]
    beta = clienting.Patron(bufsize=131072, store=store, hostname='127.0.0.1', port=port, reconnectable=True)
    assert beta.connector.reopen()
    n = len(shapes)
    for i in range(n):
        beta.requests.append(odict([('method', u'GET'), ('path', u'/r%d' % i), ('qargs', odict()),
                                    ('fragment', u''), ('headers', odict([('Accept', 'text/plain')]))]))
    error = None
    t0 = time.time()
    last = (0, t0)
    try:
        while time.time() - t0 < timeout * max(1, n):
            alpha.serviceAll()
            beta.serviceAll()
            if len(beta.responses) >= n and not beta.requests:
                break
            if len(beta.responses) != last[0]:
                last = (len(beta.responses), time.time())
            elif time.time() - last[1] > timeout:    # nothing completed for a while: stuck
                break
            time.sleep(0.002)
    except Exception as ex:
        error = "%s: %s" % (type(ex).__name__, ex)
    resps = [(r['status'], bytes(r['body']), r['request'].get('path'), r['headers'].get('x-req'))
             for r in beta.responses]
    try:
        alpha.servant.closeAll()
        beta.connector.close()
    except Exception:
        pass
    return {"responses": resps, "framings": [], "wire_bodies": [], "wire_heads": [], "wire": b"",
            "stuck": len(resps) < n, "error": error, "connections": 1, "http11": True}
