"""
C31 -- keep-alive connections carry N requests to N ordered, framed responses.

Tie H: coq/C31/Model.v is a hand model of (1) the framing decision of serving.Responder as it
is reused by serving.Valet on one connection and (2) one persistent connection as a state
machine (Patron.requests/.waited/.latest/.responses, request in flight, bytes in flight).
  theorems       : coq/C31/Props.v (all response sequences, all schedules)
  correspondence : generated request/response sessions are run on the real Valet + Patron over
                   an in-process socket double (props/C31/fakenet.py) under random service
                   interleavings and byte budgets; the framing seen on the wire, and the
                   status/body the client files under each request, are compared with the
                   model's `respond` evaluated inside Coq.
"""
import itertools
import os
import sys

sys.path.insert(0, os.path.dirname(os.path.abspath(__file__)))

from vlib import cz, clist, cbool, cbytes, copt  # noqa: E402

import fakenet  # noqa: E402
import harness  # noqa: E402

LEVEL = "proof"

KINDS = ["len", "nolen", "empty", "len0", "err"]


def shape_of(kind, rng=None, i=0):
    if kind == "len":
        return ("len", [b"L%d" % i, b"-body"] if rng is None else rand_pieces(rng, allow_empty_total=False))
    if kind == "nolen":
        return ("nolen", [b"S%d" % i, b"", b"+more"] if rng is None else rand_pieces(rng, allow_empty_total=False))
    if kind == "empty":
        return ("empty",)
    if kind == "len0":
        return ("len0",)
    if kind == "err":
        return ("err", 404 if rng is None else rng.choice([400, 404, 409, 500, 503]))
    if kind == "lencut":
        pcs = rand_pieces(rng, allow_empty_total=False)
        tot = sum(len(p) for p in pcs)
        return ("lencut", pcs, rng.randint(0, tot))
    raise ValueError(kind)


def rand_pieces(rng, allow_empty_total=True):
    n = rng.randint(1, 4)
    out = []
    for _ in range(n):
        k = rng.choice([0, 1, 2, 3, 5, 9, 17, 40]) if rng.random() < 0.9 else rng.randint(0, 120)
        out.append(bytes(rng.randrange(256) for _ in range(k)))
    if not allow_empty_total and not any(out):
        out.append(b"x")
    return out


def model_resp(shape, i):
    """(status, content-length or None, body bytes the app yields) for the Coq model"""
    shape = harness.inner(shape)
    kind = shape[0]
    if kind == "len":
        b = b"".join(shape[1])
        return 200, len(b), b
    if kind == "lencut":
        return 200, shape[2], b"".join(shape[1])
    if kind == "nolen":
        return 200, None, b"".join(shape[1])
    if kind == "empty":
        return 200, None, b""
    if kind == "len0":
        return 200, 0, b""
    if kind == "err":
        b = harness.expected_body(shape, i)
        return shape[1], len(b), b
    raise ValueError(kind)


def expected_client_view(shapes):
    """the property's statement: what the client must hold after N requests"""
    out = []
    for i, sh in enumerate(shapes):
        st, cl, body = model_resp(sh, i)
        if cl is not None:
            body = body[:cl]
        out.append((st, body, "/r%d" % i))
    return out


def prop_violation(shapes, res):
    """None if the implementation's observable result satisfies the property statement"""
    exp = expected_client_view(shapes)
    got = res["responses"]
    if res["error"]:
        return "exception escaped serviceAll: %s" % res["error"]
    if "U" in res["framings"] or "?" in res["framings"]:
        k = [i for i, f in enumerate(res["framings"]) if f in "U?"][0]
        return "response %d is not delimited on the wire (no Content-Length, not chunked)" % k
    if len(got) != len(exp):
        return "client holds %d responses for %d requests" % (len(got), len(exp))
    for i, (g, e) in enumerate(zip(got, exp)):
        if g[2] != e[2]:
            return "response %d is filed under request %r, expected %r" % (i, g[2], e[2])
        if g[0] != e[0]:
            return "response %d has status %r, expected %r" % (i, g[0], e[0])
        if g[1] != e[1]:
            return "response %d (request %s) has body %r, the application produced %r" % (i, e[2], g[1], e[1])
        if sh_has_xreq(shapes[i]) and g[3] != str(i):
            return "response %d carries X-Req %r" % (i, g[3])
    return None


def sh_has_xreq(shape):
    return harness.inner(shape)[0] != "err"


def rand_schedule(rng, n):
    sched = []
    for _ in range(rng.randint(0, 10 + 8 * n)):
        x = rng.random()
        if x < 0.15:
            sched.append(("q",))
        else:
            def bud():
                return None if rng.random() < 0.35 else rng.choice([0, 1, 2, 3, 7, 16, 50, 120, 400])
            sched.append(("s" if rng.random() < 0.5 else "c", bud(), bud()))
    return sched


def c_resp(shape, i):
    st, cl, body = model_resp(shape, i)
    return "(true, mk %s %s %s)" % (cz(st), copt(cl, cz), cbytes(body))


HEADER = """From Coq Require Import List ZArith Bool.
Import ListNotations.
Require Import V.C31.Model.
Open Scope Z_scope.
Definition mk (st : Z) (cl : option Z) (body : list Z) : resp :=
  {| r_status := st; r_cl := cl; r_te := false; r_body := body |}.
Definition fr_code (f : framing) : Z * Z :=
  match f with Length n => (0, n) | Chunked => (1, 0) | UntilClose => (2, 0) end.
Fixpoint outcome (sv : option responder) (qs : list (bool * resp)) : list (Z * (Z * Z) * list Z) :=
  match qs with
  | [] => []
  | (v, a) :: t => let '(sv', m) := respond sv v a in
                   (m_status m, fr_code (m_frame m), m_body m) :: outcome sv' t
  end.
Fixpoint lz_eqb (a b : list Z) : bool :=
  match a, b with [], [] => true | x :: a', y :: b' => Z.eqb x y && lz_eqb a' b' | _, _ => false end.
Definition it_eqb (a b : Z * (Z * Z) * list Z) : bool :=
  let '(s1, (t1, n1), b1) := a in let '(s2, (t2, n2), b2) := b in
  Z.eqb s1 s2 && Z.eqb t1 t2 && Z.eqb n1 n2 && lz_eqb b1 b2.
Fixpoint out_eqb (a b : list (Z * (Z * Z) * list Z)) : bool :=
  match a, b with [], [] => true | x :: a', y :: b' => it_eqb x y && out_eqb a' b' | _, _ => false end.
"""


WIRE_HEADER = """Require Import V.C31.RealCodec.
Fixpoint parse_all (fuel : nat) (wire : list Z) : list (Z * (Z * Z) * list Z) :=
  match fuel with
  | O => []
  | S f => match wire with
           | [] => []
           | _ => match real_parse wire with
                  | Some (m, rest) => (m_status m, fr_code (m_frame m), m_body m) :: parse_all f rest
                  | None => [(-1, (2, 0), [])]
                  end
           end
  end.
"""


def cnat_(n):
    return "%d%%nat" % n


def impl_outcome_literal(res):
    """what the implementation did, in the model's vocabulary: per response the status and
    body the CLIENT holds, and the framing seen on the WIRE"""
    items = []
    fr = res["framings"]
    heads = res["wire_heads"]
    for i, f in enumerate(fr):
        if f == "L":
            code = (0, int(heads[i].get(b"content-length", b"-1")))
        elif f == "C":
            code = (1, 0)
        else:
            code = (2, 0)
        if i < len(res["responses"]):
            st, body = res["responses"][i][0], res["responses"][i][1]
        else:  # the client never completed this response
            st, body = -1, b""
        items.append("(%s, (%s, %s), %s)" % (cz(st), cz(code[0]), cz(code[1]), cbytes(body)))
    return clist(items, "(Z * (Z * Z) * list Z)")


def run(ctx):
    ctx.rule = ("sessions = sequence of response shapes (fixed length / streamed without length / empty / "
                "Content-Length 0 / raised HTTPError / over-long body cut at Content-Length), one GET per shape "
                "on ONE connection, random schedule of enqueue / Valet.serviceAll / Patron.serviceAll steps with "
                "random receive and send byte budgets; exhaustive over the 5 basic shapes for N<=3 (quick) / N<=4 "
                "(thorough) plus seeded random sessions up to N=6 (8); non-trivial = N>=2 with a length-less "
                "response after the first; distinct by shapes+schedule")
    ctx.assumptions = [
        "transport double: fakenet.FakeSock under the real tcp.Client/Server/Incomer (recv/send with byte budgets, EAGAIN); "
        "plus a few sessions over real loopback TCP sockets on an ephemeral port",
        "the client is Patron: every request line says HTTP/1.1 (asserted on the wire each session)",
        "applications keep the WSGI contract: no Transfer-Encoding of their own, at least Content-Length bytes",
        "message codec (head serialisation/parsing) enters the session theorems as the premises parse_complete / "
        "parse_incomplete (C29's subject); here it is exercised, not proved",
    ]
    fakenet.quiet()
    ctx.coq_build("C31/Props.v")
    # real-codec theorems: depend on C29's development (another engineer's files)
    ctx.coq_build(["C31/RealCodec.v", "C31/PropsReal.v"])   # RealCodec.vo is always rebuilt against the current C29

    from ioflo.aio.http import clienting
    if clienting.Requester.HttpVersionString != u'HTTP/1.1':
        ctx.tie_broken("harness", "Requester.HttpVersionString",
                       "model assumes HTTP/1.1 requests, found %r" % clienting.Requester.HttpVersionString)

    sessions = []
    nmax = ctx.n(3, 4)
    for n in range(1, nmax + 1):
        for kinds in itertools.product(KINDS, repeat=n):
            shapes = [shape_of(k, None, i) for i, k in enumerate(kinds)]
            sessions.append((shapes, [], [ctx.rng.random() < 0.5 for _ in shapes]))
    for _ in range(ctx.n(300, 5000)):
        n = ctx.rng.randint(1, ctx.n(6, 8))
        shapes = []
        for i in range(n):
            k = ctx.rng.choice(KINDS + ["nolen", "nolen", "len", "lencut"])
            shapes.append(shape_of(k, ctx.rng, i))
        sessions.append((shapes, rand_schedule(ctx.rng, n), [ctx.rng.random() < 0.5 for _ in shapes]))

    # a non-persistent LAST request (POST, `Connection: close`, with a body) after answered requests,
    # its bytes reaching the server a few at a time: the head is parsed (persisted = False) while
    # the body is still on its way
    for _ in range(ctx.n(40, 600)):
        n = ctx.rng.randint(1, 4)
        shapes = [shape_of(ctx.rng.choice(KINDS + ["nolen"]), ctx.rng, i) for i in range(n)]
        body = bytes(ctx.rng.randrange(256) for _ in range(ctx.rng.randint(8, 40)))
        shapes[-1] = ("close", body, shapes[-1])
        k = ctx.rng.choice([1, 3, 7])
        sched = [("q",)] * n + [("c", None, None), ("s", None, None)] * (2 * n) + [("c", None, None)] + [("s", k, None)] * (400 // k)
        if ctx.rng.random() < 0.3:
            sched = rand_schedule(ctx.rng, n)
        sessions.append((shapes, sched, [ctx.rng.random() < 0.5 for _ in shapes]))

    # STORE TIME passes on a persistent connection: idle gaps of 6-60 s between requests (the Valet's
    # idle timeout is 5 s) and applications that yield nothing for several seconds while streaming
    for _ in range(ctx.n(40, 600)):
        n = ctx.rng.randint(2, 4)
        shapes = []
        for i in range(n):
            if ctx.rng.random() < 0.5:
                idle = [b""] * ctx.rng.randint(2, 5)
                shapes.append(("nolen", idle + [b"x%d" % i] + ([b""] * ctx.rng.randint(0, 2)) + [b"tail"]))
            else:
                shapes.append(shape_of(ctx.rng.choice(KINDS), ctx.rng, i))
        sched = []
        for i in range(n):
            sched += [("q",), ("c", None, None), ("s", None, None)]
            for _ in range(8):            # the response is produced slowly: time passes between service calls
                sched += [("t", ctx.rng.choice([0.5, 2.0, 3.0, 4.0])), ("s", None, None), ("c", None, None)]
            sched += [("t", ctx.rng.choice([6.0, 9.5, 30.0, 60.0])), ("s", None, None), ("c", None, None)]   # idle gap
        sessions.append((shapes, sched, [ctx.rng.random() < 0.5 for _ in shapes]))

    cases, metas = [], []
    failing = []
    for shapes, sched, gen in sessions:
        res = run_one(shapes, sched, gen)
        timed = any(st[0] == "t" for st in sched)
        closing = shapes[-1][0] == "close"
        nontrivial = closing or timed or (len(shapes) >= 2 and any(s[0] in ("nolen", "empty") for s in shapes[1:]))
        ctx.case({"shapes": [repr(s) for s in shapes], "schedule": sched, "gen": gen,
                  "framings": res["framings"], "n_responses": len(res["responses"])},
                 nontrivial=nontrivial, kind=("closing N=%d" if closing else "timed N=%d" if timed else "N=%d") % len(shapes))
        why = prop_violation(shapes, res)
        if why:
            failing.append((shapes, sched, gen, res, why))
        if not res["http11"]:
            ctx.tie_broken("harness", "request version", "a request line on the wire is not HTTP/1.1")
        model = "(outcome None %s)" % clist([c_resp(s, i) for i, s in enumerate(shapes)], "(bool * resp)")
        cases.append((model, impl_outcome_literal(res)))
        metas.append((shapes, sched, gen, res))

    # the same kind of session over REAL loopback sockets (the kernel picks the interleaving)
    for _ in range(ctx.n(8, 60)):
        n = ctx.rng.randint(2, 5)
        shapes = [shape_of(ctx.rng.choice(KINDS + ["nolen", "lencut"]), ctx.rng, i) for i in range(n)]
        gen = [ctx.rng.random() < 0.5 for _ in shapes]
        res = harness.run_session_loopback(shapes, gen)
        ctx.case({"loopback": [repr(s) for s in shapes], "n_responses": len(res["responses"])},
                 nontrivial=any(s[0] in ("nolen", "empty") for s in shapes[1:]), kind="loopback")
        why = prop_violation(shapes, res)
        if why:
            failing.append((shapes, [], gen, res, "real loopback: " + why))

    # the REAL codec of the session theorems (C29's Respondent model, coq/C31/RealCodec.v real_parse)
    # applied to the bytes the real Valet put on the wire must deliver what the real Patron filed
    wire_cases, wire_meta = [], []
    for (shapes, sched, gen, res) in metas:
        if len(wire_cases) >= ctx.n(24, 400):
            break
        if res["stuck"] or res["error"] or not res["wire"] or len(res["wire"]) > 1500:
            continue
        wire_cases.append(("(parse_all %s %s)" % (cnat_(len(shapes) + 1), cbytes(res["wire"])), impl_outcome_literal(res)))
        wire_meta.append((shapes, res))
    try:
        badw = ctx.coq_cases(HEADER + WIRE_HEADER, "out_eqb", wire_cases, shard=6, name="wire")
    except RuntimeError as ex:   # RealCodec / C29 did not build: the tie is broken, the run goes on
        ctx.tie_broken("correspondence", "C31 RealCodec.real_parse on the real wire could not be evaluated", str(ex)[-800:])
        badw = []
    for i in badw[:3]:
        ctx.tie_broken("correspondence", "C31 RealCodec.real_parse (C29 Respondent model) vs Patron on the real wire",
                       "shapes=%r wire=%r" % (wire_meta[i][0], wire_meta[i][1]["wire"][:300]))
    ctx.extra["mismatches_wire"] = len(badw)

    bad = ctx.coq_cases(HEADER, "out_eqb", cases, shard=100)
    for i in bad[:5]:
        shapes, sched, gen, res = metas[i]
        ctx.tie_broken("correspondence", "C31 model respond/framings vs Valet+Patron",
                       "shapes=%r schedule=%r wire_framings=%r client=%r" % (
                           shapes, sched, res["framings"], [(r[0], r[1][:40]) for r in res["responses"]]))
    for shapes, sched, gen, res, why in failing[:3]:
        ctx.tie_broken("correspondence", "property statement on the implementation", "%s; shapes=%r" % (why, shapes))
    ctx.extra["mismatches"] = len(bad)
    ctx.extra["property_failures"] = len(failing)
    ctx.exhaustive = False

    def search():
        best = None
        for shapes, sched, gen, res, why in failing:
            size = (len(shapes), len(sched), sum(len(repr(s)) for s in shapes))
            if best is None or size < best[0]:
                best = (size, shapes, sched, gen, res, why)
        if best is None:
            return None
        _, shapes, sched, gen, res, why = best
        # shrink: drop the schedule, then trailing / leading requests while it still fails
        cand = (shapes, [], gen)
        r2 = run_one(*cand)
        if prop_violation(shapes, r2):
            sched, res, why = [], r2, prop_violation(shapes, r2)
        changed = True
        while changed and len(shapes) > 1:
            changed = False
            for k in range(len(shapes)):
                s2 = shapes[:k] + shapes[k + 1:]
                g2 = gen[:k] + gen[k + 1:]
                if any(x[0] == "close" for x in s2[:-1]):
                    continue
                r2 = run_one(s2, sched, g2)
                w2 = prop_violation(s2, r2)
                if w2:
                    shapes, gen, res, why, changed = s2, g2, r2, w2, True
                    break
        undelimited = any(f in "U?" for f in res["framings"])
        return {
            "key": ("responder-reset-chunkable" if undelimited else
                    "nonpersistent-request-closed-before-body" if (shapes[-1][0] == "close" and
                                                                   len(res["responses"]) < len(shapes)) else
                    "keepalive-dropped-while-idle" if any(st[0] == "t" for st in sched) else
                    "keepalive-responses-missing" if len(res["responses"]) < len(shapes) else
                    "response-body-alias"),
            "shapes": [repr(s) for s in shapes], "schedule": sched, "generator_app": gen,
            "why": why,
            "wire_framings": res["framings"],
            "client_responses": [(r[0], repr(r[1][:80]), r[2]) for r in res["responses"]],
            "expected": [(e[0], repr(e[1][:80]), e[2]) for e in expected_client_view(shapes)],
            "wire": repr(res["wire"][:1200]),
            "contradicts": ("C31.Props.persistent_responses_delimited" if undelimited
                            else "C31.Props.n_requests_n_responses_in_order"),
        }

    ctx.settle(search)


def run_one(shapes, sched, gen):
    # 'lencut' is served by the harness app as a 'len' shape with a smaller declared length
    hs = []
    for s in shapes:
        hs.append(s)
    return harness.run_session(hs, sched, gen)
