"""
fakenet -- in-process TCP double for the ioflo HTTP checks (C30, C31, C34).

The real ioflo classes (tcp.Client / tcp.Server / tcp.Incomer, http Patron / Valet) run
unchanged; only the name `socket` inside ioflo.aio.tcp.clienting / ioflo.aio.tcp.serving is
replaced (in the harness process only) by a shim whose .socket() returns a FakeSock.

A FakeSock behaves like a non blocking stream socket:
  recv  -> bytes available (at most .rx_budget more bytes if a budget is set) or EAGAIN,
           b'' once the peer has closed and everything was read
  send  -> accepts at most .tx_budget more bytes if a budget is set (EAGAIN when 0)
Budgets let a schedule split the byte stream at arbitrary points.  Everything sent is also
appended to .sent (the bytes on the wire, in order).
TLS: ClientTls.wrap/handshake are replaced by no-ops (install(..., tls=True)); the fake
socket then raises SSLWantRead instead of EAGAIN.  No TLS record layer is modelled.
"""
import collections.abc  # noqa: F401
import errno
import socket as _real_socket
import ssl as _ssl


class FakeNet(object):
    def __init__(self):
        self.listeners = {}      # port -> listening FakeSock
        self.nextport = 40000
        self.socks = []          # every socket ever created (for wire inspection)
        self.connections = []    # (client_sock, server_sock, (host, port)) in connect order

    def socket(self, *pa, **kwa):
        s = FakeSock(self)
        self.socks.append(s)
        return s


class FakeSock(object):
    def __init__(self, net):
        self.net = net
        self.peer = None
        self.inq = bytearray()
        self.eof = False          # peer shut down its sending side
        self.closed = False
        self.laddr = ('0.0.0.0', 0)
        self.raddr = None
        self.listening = False
        self.backlog = []
        self.sent = bytearray()
        self.rx_budget = None
        self.tx_budget = None
        self.tls = False

    # -- options -------------------------------------------------------------
    def setblocking(self, flag):
        pass

    def setsockopt(self, *pa):
        pass

    def getsockopt(self, *pa):
        return 1 << 22

    def fileno(self):
        return -1

    # -- server side ---------------------------------------------------------
    def bind(self, ha):
        host, port = ha
        if port in self.net.listeners and not self.net.listeners[port].closed:
            raise _real_socket.error(errno.EADDRINUSE, "fake: address in use")
        self.laddr = (host, port)
        self.net.listeners[port] = self

    def listen(self, n):
        self.listening = True

    def accept(self):
        if not self.backlog:
            raise _real_socket.error(errno.EAGAIN, "fake: nothing to accept")
        cs = self.backlog.pop(0)
        return cs, cs.raddr

    # -- client side ---------------------------------------------------------
    def connect_ex(self, ha):
        if self.peer is not None:
            return errno.EISCONN
        host, port = ha
        lst = self.net.listeners.get(port)
        if lst is None or lst.closed or not lst.listening:
            return errno.ECONNREFUSED
        self.net.nextport += 1
        self.laddr = ('127.0.0.1', self.net.nextport)
        self.raddr = (host, port)
        srv = self.net.socket()
        srv.laddr = (host, port)
        srv.raddr = self.laddr
        srv.peer = self
        self.peer = srv
        lst.backlog.append(srv)
        self.net.connections.append((self, srv, (host, port)))
        return 0

    def getsockname(self):
        return self.laddr

    def getpeername(self):
        return self.raddr

    # -- data ----------------------------------------------------------------
    def _again(self):
        if self.tls:
            raise _ssl.SSLWantReadError(_ssl.SSL_ERROR_WANT_READ, "fake: want read")
        raise _real_socket.error(errno.EAGAIN, "fake: would block")

    def recv(self, n):
        if self.closed:
            raise _real_socket.error(errno.EBADF, "fake: closed")
        if not self.inq:
            if self.eof:
                return b''
            self._again()
        k = min(n, len(self.inq))
        if self.rx_budget is not None:
            k = min(k, self.rx_budget)
            if k <= 0:
                self._again()
            self.rx_budget -= k
        data = bytes(self.inq[:k])
        del self.inq[:k]
        return data

    def send(self, data):
        if self.closed:
            raise _real_socket.error(errno.EBADF, "fake: closed")
        if self.peer is None or self.peer.closed:
            raise _real_socket.error(errno.ECONNRESET, "fake: peer gone")
        k = len(data)
        if self.tx_budget is not None:
            k = min(k, self.tx_budget)
            if k <= 0:
                self._again()
            self.tx_budget -= k
        self.peer.inq.extend(data[:k])
        self.sent.extend(data[:k])
        return k

    def shutdown(self, how):
        if self.peer is not None and how in (_real_socket.SHUT_WR, _real_socket.SHUT_RDWR):
            self.peer.eof = True

    def close(self):
        self.closed = True
        if self.peer is not None:
            self.peer.eof = True
        if self.listening:
            self.listening = False


class _Shim(object):
    """stands in for the module `socket` inside the ioflo tcp modules"""
    def __init__(self, net):
        self._net = net

    def socket(self, *pa, **kwa):
        return self._net.socket(*pa, **kwa)

    def __getattr__(self, name):
        return getattr(_real_socket, name)


def install(net=None, tls=False):
    """route the ioflo tcp modules' socket creation to a FakeNet (harness process only)"""
    from ioflo.aio.tcp import clienting as tcpc, serving as tcps
    net = net or FakeNet()
    shim = _Shim(net)
    tcpc.socket = shim
    tcps.socket = shim
    if tls:
        def wrap(self):
            self.cs.tls = True

        def handshake(self):
            self.connected = True
            return True
        tcpc.ClientTls.wrap = wrap
        tcpc.ClientTls.handshake = handshake
    return net


def uninstall():
    """give the ioflo tcp modules the real socket module back (real loopback sessions)"""
    from ioflo.aio.tcp import clienting as tcpc, serving as tcps
    tcpc.socket = _real_socket
    tcps.socket = _real_socket


def quiet():
    """silence ioflo's console"""
    from ioflo.aid.consoling import getConsole
    console = getConsole()
    console.reinit(verbosity=console.Wordage.mute)
