"""
C36 -- stream stacks deliver every queued packet to the peer intact; every received byte lands
       in exactly one received packet, in order.

Tie H: coq/C36/Model.v models TcpClientStack.serviceTxPkts/_serviceOneTxPkt (txbs + send oracle),
       TcpServerStack.serviceTxPkts/_serviceOneTxPkt -> Server.transmitIx -> Incomer.tx /
       serviceTxes (send oracle), and the receive side (Incomer.serviceReceives, the stacks'
       serviceReceives/_serviceOneReceived with the base Packet parser).
  theorems       : coq/C36/Props.v (all histories, all send/recv oracles)
  correspondence : the same histories on the REAL stacks (real Client / Server / Incomer underneath)
                   over socket doubles injected in this process; observations compared inside Coq.
  thorough tier  : real loopback sockets, both directions (supporting only).
"""
import itertools
import os
import sys

sys.path.insert(0, os.path.dirname(os.path.abspath(__file__)))
import harness  # noqa: E402
import translate  # noqa: E402
from vlib import cz, clist, cnat  # noqa: E402

LEVEL = "proof"

HEADER = r"""
From Coq Require Import List ZArith Bool.
Import ListNotations.
Require Import V.C36.Model V.gen.C36Order.
Open Scope Z_scope.
Definition zb (b : bool) : Z := if b then 1 else 0.
Definition eb (b : bytes) : list Z := Z.of_nat (length b) :: b.
Definition elb (l : list bytes) : list Z := Z.of_nat (length l) :: flat_map eb l.
(* client tx *)
Definition obs_c (s : cst) : list Z := elb (ctxq s) ++ eb (ctxbs s) ++ eb (cwire s) ++ [zb (ccut s)].
Fixpoint trace_c (s : cst) (ops : list cop) : list Z :=
  match ops with [] => [] | o :: ops' => let s' := c_step s o in obs_c s' ++ trace_c s' ops' end.
(* client rx *)
Fixpoint trace_crx (s : crx) (orcs : list (list rres)) : list Z :=
  match orcs with [] => [] | o :: os => let '(s', n) := crx_service s o in
     elb (rxpk s') ++ eb (rxbuf s') ++ [zb (rxcut s'); Z.of_nat n] ++ trace_crx s' os end.
(* server tx *)
Definition obs_s (s : sst) (err : Z) : list Z :=
  Z.of_nat (length (stxq s)) :: flat_map (fun x => eb (fst x) ++ [snd x]) (stxq s) ++
  Z.of_nat (length (sconns s)) :: flat_map (fun kc => fst kc :: elb (txes (snd kc)) ++ eb (wire (snd kc)) ++ [zb (cut (snd kc))]) (sconns s)
  ++ [err].
Definition s_err (s : sst) (o : sop) : Z :=
  match o with SSvcStack => match s_service_tx s with Ok _ => 0 | ErrValue _ => 1 end | _ => 0 end.
Fixpoint trace_s (s : sst) (ops : list sop) : list Z :=
  match ops with [] => [] | o :: ops' => let s' := s_step s o in obs_s s' (s_err s o) ++ trace_s s' ops' end.
(* server rx *)
Definition obs_r (cs : list (Z * rconn)) : list Z :=
  flat_map (fun kc => fst kc :: elb (rpk (snd kc)) ++ eb (rbuf (snd kc)) ++ [zb (rcut (snd kc))]) cs.
Fixpoint trace_r (cs : list (Z * rconn)) (ops : list rop) : list Z :=
  match ops with [] => [] | o :: ops' => let cs' := r_step cs o in obs_r cs' ++ trace_r cs' ops' end.
(* composite serviceAll, order generated from the source *)
Definition obs_p (cs : list (Z * pconn)) : list Z :=
  flat_map (fun kc => let c := snd kc in
     let live := pacc c && palive c in
     fst kc :: zb live :: (if live then eb (pbuf c) ++ [zb (pcut c)] else [0; 1]) ++ elb (pdel c)) cs.
Fixpoint trace_p (cs : list (Z * pconn)) (passes : list ppass) : list Z :=
  match passes with [] => [] | o :: os => let cs' := p_pass server_all_order cs o in obs_p cs' ++ trace_p cs' os end.
(* client serviceAll: rxPkts are consumed by serviceRxPkts, deliveries = cumulative rxpk *)
Fixpoint l_eqb (a b : list Z) : bool :=
  match a, b with [] , [] => true | x :: a', y :: b' => Z.eqb x y && l_eqb a' b' | _, _ => false end.
"""


# ---- Coq rendering --------------------------------------------------------------------------
def c_b(b):
    return clist([cz(x) for x in b], "Z")


def c_sorc(orc):
    return clist(["Cut" if r[0] == 'C' else "(Acc %s)" % cnat(r[1]) for r in orc], "sres")


def c_rorc(orc):
    return clist(["(Data %s)" % c_b(r[1]) if r[0] == 'D' else ("Again" if r[0] == 'N' else "Closed") for r in orc],
                 "rres")


def eb(b):
    return [len(b)] + list(b)


def elb(l):
    out = [len(l)]
    for b in l:
        out += eb(b)
    return out


def flat_client_tx(obs):
    out = []
    for o in obs:
        if o[0].startswith("EXC"):
            return out + [-99]
        out += elb(o[1]) + eb(o[2]) + eb(o[3]) + [int(o[4])]
    return out


def flat_client_rx(obs):
    out = []
    for o in obs:
        if o[0].startswith("EXC"):
            return out + [-99]
        out += elb(o[1]) + eb(o[2]) + [int(o[3]), o[4]]
    return out


def flat_server_tx(obs):
    out = []
    for o in obs:
        if o[0].startswith("EXC"):
            return out + [-99]
        out += [len(o[1])]
        for p, ca in o[1]:
            out += eb(p) + [ca]
        out += [len(o[2])]
        for ca, txes, wire, cutf in o[2]:
            out += [ca] + elb(txes) + eb(wire) + [int(cutf)]
        out += [o[3]]
    return out


def flat_server_rx(obs, cas_order):
    out = []
    for o in obs:
        if o[0].startswith("EXC"):
            return out + [-99]
        for ca, rxbs, cutf in o[2]:
            pk = [p for p, c in o[1] if c == ca]
            out += [ca] + elb(pk) + eb(rxbs) + [int(cutf)]
    return out


# ---- the property's executable statement on the implementation's observations ----------------
def prop_client_tx(ops, obs):
    queued = b""
    for op, o in zip(ops, obs):
        if o[0].startswith("EXC"):
            return "internal error %s" % o[0]
        if op[0] == 'enq':
            queued += op[1]
        _, q, txbs, wire, cutf = o
        if wire + txbs + b"".join(q) != queued:
            return "bytes on the wire + pending differ from the queued packets"
        if op[0] == 'svc' and not cutf and all(r[0] == 'A' and r[1] >= len(queued) for r in op[1]):
            if txbs or q:
                return "a fully accepting service pass left %d bytes of a queued packet unsent" % (
                    len(txbs) + sum(map(len, q)))
    return None


def prop_server_tx(cas, ops, obs):
    """per connected peer: wire + pending = queued for it; a ValueError only when a queued packet is
    addressed to a non-connection; and packets for connected peers are handed to their connection
    whatever happens to packets for gone peers: once a run of consecutive stack passes is longer
    than the number of queued packets addressed to non-connections, the stack queue is empty"""
    queued = {}
    if obs and obs[0][0].startswith("EXC"):
        return "internal error %s while servicing connects" % obs[0][0]
    live = set(cas)
    prevq = []
    run_len, run_unknown = 0, 0
    for op, o in zip(ops, obs):
        if o[0].startswith("EXC"):
            return "internal error %s" % o[0]
        if op[0] == 'enq':
            queued.setdefault(op[2], b"")
            queued[op[2]] += op[1]
        if op[0] == 'drop':
            live.discard(op[1])
        _, q, conns, err = o
        if op[0] == 'stk':
            if run_len == 0:
                run_unknown = sum(1 for _, c in prevq if c not in live)
            run_len += 1
            if err and all(c in live for _, c in prevq):
                return "ValueError although every queued destination is a connected peer"
            if run_len > run_unknown and q:
                return ("%d stack passes over a queue with %d packets for gone peers left %d packets "
                        "untransmitted: %r" % (run_len, run_unknown, len(q), q))
        else:
            run_len = 0
        for ca, txes, wire, cutf in conns:
            pend = b"".join(txes) + b"".join(p for p, c in q if c == ca)
            if wire + pend != queued.get(ca, b""):
                return "peer %d: wire + pending differ from the packets queued for it" % ca
        prevq = q
    return None


def prop_rx(chunks, pkts, rxbs):
    if b"".join(pkts) + rxbs != chunks:
        return "received packets + buffer differ from the bytes received"
    if any(len(p) == 0 for p in pkts):
        return "empty received packet"
    return None


def prop_server_rx(cas, ops, obs):
    got = {ca: b"" for ca in cas}
    cutf = {ca: False for ca in cas}
    for op in ops:
        if op[0] != 'rxc':
            continue
        for ca, orc in op[1].items():
            if cutf[ca]:
                continue
            for r in orc:
                if r[0] == 'D':
                    got[ca] += r[1]
                else:
                    cutf[ca] = r[0] == 'X'
                    break
    last = obs[-1]
    for ca, rxbs, _ in last[2]:
        why = prop_rx(got[ca], [p for p, c in last[1] if c == ca], rxbs)
        if why:
            return "peer %d: %s" % (ca, why)
    return None


# ---- generators --------------------------------------------------------------------------------
def rnd_bytes(rng, lo=0, hi=6):
    return bytes(rng.randint(0, 255) for _ in range(rng.randint(lo, hi)))


def rnd_sorc(rng):
    return [('C',) if rng.random() < 0.05 else ('A', rng.choice([0, 1, 1, 2, 3, 5, 50])) for _ in range(rng.randint(0, 5))]


def rnd_rorc(rng, pclose=0.05):
    out = []
    for _ in range(rng.randint(0, 6)):
        x = rng.random()
        out.append(('X',) if x < pclose else (('N',) if x < 0.3 else ('D', rnd_bytes(rng, 1, 4))))
    return out


def gen(ctx):
    """regenerate coq/gen/C36Order.v (step order inside TcpServerStack.serviceAll) from the source"""
    src = os.path.join(ctx.repo, "ioflo", "aio", "proto", "stacking.py")
    bad = translate.selftest()
    if bad:
        ctx.tie_broken("translator", "translator self-test", "; ".join(bad))
        return None
    try:
        text, steps = translate.translate(open(src).read())
    except (translate.Unsupported, SyntaxError) as ex:
        ctx.tie_broken("translator", "stacking.py serviceAll/serviceConnects is outside the translated fragment", repr(ex))
        # keep the model well defined (canonical order) so that the histories still run and the
        # search can exhibit a concrete failing one; the tie above is already recorded as broken
        ctx.write_gen("C36Order.v", translate.CANONICAL)
        return None
    ctx.write_gen("C36Order.v", text)
    ctx.extra["server_all_order"] = steps
    return steps


def flat_server_all(obs):
    out = []
    for row in obs:
        if isinstance(row, tuple) and row and isinstance(row[0], str):
            return out + [-99]
        for ca, alive, rxbs, cutf, dl in row:
            out += [ca, int(alive)] + (eb(rxbs) + [int(cutf)] if alive else [0, 1]) + elb(dl)
    return out


def prop_server_all(obs, got):
    """every byte the socket handed out on a connection has been delivered in a packet of that
    connection at the end of the pass in which it was read (hence before any drop)"""
    if not obs:
        return None
    last = obs[-1]
    if isinstance(last, tuple) and last and isinstance(last[0], str):
        return "internal error %s" % last[0]
    for ca, alive, rxbs, cutf, dl in last:
        if b"".join(dl) != got[ca]:
            return "peer %d: %d bytes were read from its socket, %d delivered%s" % (
                ca, len(got[ca]), len(b"".join(dl)), "" if alive else " and the connection is dropped")
    return None


def run(ctx):
    steps = gen(ctx)
    ctx.rule = ("histories of enqueue / service ops with per-call send and recv oracles (partial sends, EAGAIN, "
                "reset, close) on the real TcpClientStack and TcpServerStack over socket doubles vs the Coq model; "
                "small-scope exhaustive + seeded random; non-trivial = a partial send / multi-chunk receive occurs")
    ctx.assumptions = [
        "socket double: send takes a prefix of the data or raises EAGAIN / a reset-class errno; recv returns a "
        "non-empty chunk, raises EAGAIN, or returns b''; bytes taken by send are what the peer receives (reliable stream)",
        "base classes only: packeting.Packet (parse takes the whole buffer), no subclass framing",
        "client stack: handler.connected holds (serviceAll's guard); server stack: destinations are accepted peers "
        "(unknown destination -> ValueError is modelled as a result, the popped packet is lost)",
    ]
    ctx.coq_build("C36/Props.v")
    rng = ctx.rng
    cases, metas = [], []

    # ---------------- client tx ----------------
    def add_ctx(ops, kind):
        obs = harness.run_client(ops)
        partial = any(op[0] == 'svc' and any(r[0] == 'A' and r[1] < 5 for r in op[1]) for op in ops)
        ctx.case({"side": "client-tx", "ops": [[o[0], list(o[1]) if o[0] == 'enq' else o[1]] for o in ops]},
                 nontrivial=partial, kind=kind)
        cops = clist(["(CEnq %s)" % c_b(o[1]) if o[0] == 'enq' else "(CSvc %s)" % c_sorc(o[1]) for o in ops], "cop")
        cases.append(("(trace_c cinit %s)" % cops, clist([cz(x) for x in flat_client_tx(obs)], "Z")))
        metas.append(("client-tx", ops, obs, None))

    pk = [b"", b"a", b"bcd"]
    svcs = [[], [('A', 0)], [('A', 1)], [('A', 2), ('A', 9)], [('C',)], [('A', 1), ('A', 1)]]
    alphabet = [('enq', p) for p in pk] + [('svc', s) for s in svcs]
    for n in range(1, ctx.n(3, 4) + 1):
        for ops in itertools.product(alphabet, repeat=n):
            add_ctx(list(ops), "client-tx-exh")
    for _ in range(ctx.n(500, 5000)):
        ops = [('enq', rnd_bytes(rng)) if rng.random() < 0.5 else ('svc', rnd_sorc(rng)) for _ in range(rng.randint(2, 14))]
        add_ctx(ops + [('svc', [])], "client-tx-rnd")

    # ---------------- client rx ----------------
    def add_crx(orcs, kind):
        ops = [('rx', o) for o in orcs]
        obs = harness.run_client(ops)
        multi = any(sum(1 for r in o if r[0] == 'D') >= 2 for o in orcs)
        ctx.case({"side": "client-rx", "orcs": [[list(r[1]) if r[0] == 'D' else r[0] for r in o] for o in orcs]},
                 nontrivial=multi, kind=kind)
        cases.append(("(trace_crx crx_init %s)" % clist([c_rorc(o) for o in orcs], "(list rres)"),
                      clist([cz(x) for x in flat_client_rx(obs)], "Z")))
        metas.append(("client-rx", orcs, obs, None))

    ralpha = [('D', b"a"), ('D', b"bc"), ('N',), ('X',)]
    for n in range(0, ctx.n(4, 5) + 1):
        for o in itertools.product(ralpha, repeat=n):
            add_crx([list(o), [('D', b"z")]], "client-rx-exh")
    for _ in range(ctx.n(300, 3000)):
        add_crx([rnd_rorc(rng) for _ in range(rng.randint(1, 5))], "client-rx-rnd")

    # ---------------- server tx ----------------
    def add_stx(cas, ops, kind):
        obs = harness.run_server(cas, ops)
        partial = any(op[0] == 'cns' and any(r[0] == 'A' and r[1] < 5 for r in op[1]) for op in ops)
        ctx.case({"side": "server-tx", "cas": cas, "ops": [[o[0]] + [list(x) if isinstance(x, bytes) else x for x in o[1:]] for o in ops]},
                 nontrivial=partial, kind=kind)
        cops = clist(["(SEnq %s %s)" % (c_b(o[1]), cz(o[2])) if o[0] == 'enq' else
                      ("SSvcStack" if o[0] == 'stk' else
                       ("(SDrop %s)" % cz(o[1]) if o[0] == 'drop' else "(SSvcConns %s)" % c_sorc(o[1]))) for o in ops], "sop")
        cases.append(("(trace_s (s_init %s) %s)" % (clist([cz(c) for c in cas], "Z"), cops),
                      clist([cz(x) for x in flat_server_tx(obs)], "Z")))
        metas.append(("server-tx", (cas, ops), obs, None))

    salpha = [('enq', b"a", 5001), ('enq', b"bcd", 5002), ('enq', b"ef", 5001), ('stk',), ('cns', []),
              ('cns', [('A', 1)]), ('cns', [('A', 2), ('A', 1)]), ('cns', [('C',)])]
    for n in range(1, ctx.n(3, 4) + 1):
        for ops in itertools.product(salpha, repeat=n):
            add_stx([5001, 5002], list(ops), "server-tx-exh")
    for _ in range(ctx.n(400, 4000)):
        cas = [5001, 5002, 5003][:rng.randint(1, 3)]
        ops = []
        for _ in range(rng.randint(2, 14)):
            x = rng.random()
            if x < 0.08:
                ops.append(('drop', rng.choice(cas)))
            elif x < 0.45:
                ca = rng.choice(cas) if rng.random() < 0.9 else 7777
                ops.append(('enq', rnd_bytes(rng), ca))
            elif x < 0.7:
                ops.append(('stk',))
            else:
                ops.append(('cns', rnd_sorc(rng)))
        nq = sum(1 for o in ops if o[0] == 'enq')
        add_stx(cas, ops + [('stk',)] * (nq + 1 if rng.random() < 0.5 else 1) + [('cns', [])], "server-tx-rnd")
    # packets for a gone peer (never connected: 7777, or connected then dropped: 5001) in front of /
    # between packets for a live peer; then enough stack passes (one ValueError each at most)
    for gone, pre in ((7777, []), (5001, [('drop', 5001)]), (5001, [('enq', b"x", 5001), ('stk',), ('drop', 5001)])):
        for n in range(1, 4):
            for dests in itertools.product([gone, 5002], repeat=n):
                q = [('enq', bytes([65 + i, 97 + i]), d) for i, d in enumerate(dests)]
                add_stx([5001, 5002], pre + q + [('stk',)] * (n + 1) + [('cns', [])], "server-tx-gone-peer")

    # ---------------- server rx ----------------
    def add_srx(cas, ops, kind):
        obs = harness.run_server(cas, ops)
        multi = any(op[0] == 'rxc' and any(sum(1 for r in o if r[0] == 'D') >= 2 for o in op[1].values()) for op in ops)
        ctx.case({"side": "server-rx", "cas": cas,
                  "ops": [[o[0]] + ([{k: [list(r[1]) if r[0] == 'D' else r[0] for r in v] for k, v in o[1].items()}] if o[0] == 'rxc' else []) for o in ops]},
                 nontrivial=multi, kind=kind)
        cops = clist(["(RRecv %s)" % clist(["(%s, %s)" % (cz(k), c_rorc(v)) for k, v in o[1].items()], "(Z * list rres)")
                      if o[0] == 'rxc' else "RPacketize" for o in ops], "rop")
        cases.append(("(trace_r (r_init %s) %s)" % (clist([cz(c) for c in cas], "Z"), cops),
                      clist([cz(x) for x in flat_server_rx(obs, cas)], "Z")))
        metas.append(("server-rx", (cas, ops), obs, None))

    for n in range(0, ctx.n(3, 4) + 1):
        for o in itertools.product(ralpha, repeat=n):
            add_srx([5001, 5002], [('rxc', {5001: list(o), 5002: [('D', b"q")]}), ('rxs',),
                                   ('rxc', {5001: [('D', b"z")]}), ('rxs',)], "server-rx-exh")
    for _ in range(ctx.n(300, 3000)):
        cas = [5001, 5002, 5003][:rng.randint(1, 3)]
        ops = []
        for _ in range(rng.randint(1, 8)):
            if rng.random() < 0.6:
                ops.append(('rxc', {ca: rnd_rorc(rng) for ca in cas if rng.random() < 0.8}))
            else:
                ops.append(('rxs',))
        add_srx(cas, ops + [('rxs',)], "server-rx-rnd")

    # ---------------- composite serviceAll (server): send-then-close within one pass ----------------
    def add_sall(cas, passes, kind):
        obs, got = harness.run_server_all(cas, passes)
        dclose = any(any(r[0] == 'D' for r in o) and any(r[0] == 'X' for r in o) for _, ps in passes for o in ps.values())
        late = any(arr and i > 0 for i, (arr, _) in enumerate(passes))
        ctx.case({"side": "server-all", "cas": cas,
                  "passes": [[arr, {k: [list(r[1]) if r[0] == 'D' else r[0] for r in v] for k, v in ps.items()}] for arr, ps in passes]},
                 nontrivial=dclose or late, kind=kind)
        cps = clist(["(%s, %s)" % (clist([cz(a) for a in arr], "Z"),
                                   clist(["(%s, %s)" % (cz(k), c_rorc(v)) for k, v in ps.items()], "(Z * list rres)"))
                     for arr, ps in passes], "ppass")
        cases.append(("(trace_p (p_init %s) %s)" % (clist([cz(c) for c in cas], "Z"), cps),
                      clist([cz(x) for x in flat_server_all(obs)], "Z")))
        metas.append(("server-all", (cas, passes), (obs, got), None))

    aalpha = [('D', b"a"), ('D', b"bc"), ('N',), ('X',)]
    for n in range(0, ctx.n(3, 4) + 1):
        for o in itertools.product(aalpha, repeat=n):
            # 5001 connects first; 5002 connects (and has already sent) in the second pass, 5003 in the third
            add_sall([5001, 5002, 5003],
                     [([5001], {5001: list(o)}),
                      ([5002], {5001: [('D', b"z")], 5002: [('D', b"q")]}),
                      ([5003], {5002: [('D', b"r"), ('X',)], 5003: [('D', b"s")]}),
                      ([], {5003: [('D', b"t")]})],
                     "server-all-exh")
    for _ in range(ctx.n(400, 4000)):
        cas = [5001, 5002, 5003, 5004][:rng.randint(1, 4)]
        npass = rng.randint(1, 6)
        arrive = sorted(rng.randint(0, max(0, npass - 2)) for _ in cas)     # arrival pass, in cas order
        passes = []
        for i in range(npass):
            arr = [ca for ca, a in zip(cas, arrive) if a == i]
            here = [ca for ca, a in zip(cas, arrive) if a <= i]
            passes.append((arr, {ca: [('D', bytes(rng.randint(32, 126) for _ in range(rng.randint(1, 4)))) if r[0] == 'D' else r
                                      for r in rnd_rorc(rng, pclose=0.25)] for ca in here if rng.random() < 0.8}))
        add_sall(cas, passes, "server-all-rnd")

    # ---------------- composite serviceAll (client) ----------------
    def add_call(passes, kind, entry="serviceAll"):
        obs, got = harness.run_client_all(passes, entry)
        ctx.case({"side": "client-all", "passes": [[list(r[1]) if r[0] == 'D' else r[0] for r in o] for o in passes]},
                 nontrivial=any(any(r[0] == 'D' for r in o) and any(r[0] == 'X' for r in o) for o in passes), kind=kind)
        cases.append(("(trace_crx crx_init %s)" % clist([c_rorc(o) for o in passes], "(list rres)"),
                      clist([cz(x) for x in flat_client_rx([('r',) + tuple(o) if not (o and isinstance(o[0], str)) else o for o in obs])], "Z")))
        metas.append(("client-all", (entry, passes), (obs, got), None))

    for n in range(0, ctx.n(3, 4) + 1):
        for o in itertools.product(ralpha, repeat=n):
            add_call([list(o), [('D', b"z")]], "client-all-exh")
            add_call([list(o), [('D', b"z")]], "client-allrx-exh", entry="serviceAllRx")
    for _ in range(ctx.n(150, 1500)):
        add_call([rnd_rorc(rng, pclose=0.15) for _ in range(rng.randint(1, 5))], "client-all-rnd",
                 entry=rng.choice(["serviceAll", "serviceAllRx"]))

    bad = ctx.coq_cases(HEADER, "l_eqb", cases, name="c36")
    for i in bad[:6]:
        side, inp, obs, _ = metas[i]
        ctx.tie_broken("correspondence", "C36 model vs %s" % side, "input=%r impl=%r" % (inp, obs))
    ctx.extra["mismatches"] = len(bad)
    ctx.exhaustive = False

    if ctx.thorough:
        try:
            import loopback
            ctx.extra["loopback"] = loopback.explore(ctx)
        except Exception as ex:   # supporting exploration only
            ctx.extra["loopback_error"] = repr(ex)

    def search():
        best = None

        def consider(size, cand):
            nonlocal best
            if best is None or size < best[0]:
                best = (size, cand)

        for side, inp, obs, _ in metas:
            why = None
            if side == "client-tx":
                why = prop_client_tx(inp, obs)
                key, thm = "client-tx", "C36.Props.client_tx_prefix / client_tx_drains"
            elif side == "server-tx":
                why = prop_server_tx(inp[0], inp[1], obs)
                key, thm = "server-tx", "C36.Props.server_tx_per_peer"
            elif side == "server-all":
                why = prop_server_all(obs[0], obs[1])
                key, thm = "server-all", "C36.Props.server_pass_delivers_before_drop / server_serviceAll_order_is_safe"
            elif side == "client-all":
                o_, got = obs
                if o_ and isinstance(o_[-1][0], str):
                    why = "internal error %s" % o_[-1][0]
                elif o_:
                    # bytes handed out by the socket = bytes delivered as packets (nothing may stay
                    # unparsed in .rxbs at the end of a pass: the base parser takes the whole buffer)
                    why = prop_rx(got, o_[-1][0], b"")
                    if why:
                        why = "client %s: %d bytes read from the socket, %d delivered as packets, %d left in .rxbs" % (
                            inp[0], len(got), len(b"".join(o_[-1][0])), len(o_[-1][1]))
                key, thm = "client-all", "C36.Props.client_rx_partition / client_rx_all_delivered"
            elif side == "client-rx":
                if obs and obs[-1][0].startswith("EXC"):
                    why = "internal error %s" % obs[-1][0]
                elif obs:
                    got = b""
                    for o, ob in zip(inp, obs):
                        used = o[:len(o) - ob[4]]
                        got += b"".join(r[1] for r in used if r[0] == 'D')
                    why = prop_rx(got, obs[-1][1], b"")
                key, thm = "client-rx", "C36.Props.client_rx_partition / client_rx_all_delivered"
            else:
                if obs and obs[-1][0].startswith("EXC"):
                    why = "internal error %s" % obs[-1][0]
                elif obs:
                    why = prop_server_rx(inp[0], inp[1], obs)
                key, thm = "server-rx", "C36.Props.server_rx_partition"
            if why:
                consider(len(repr(inp)), {"key": key, "side": side, "input": repr(inp), "observed": repr(obs)[:2000],
                                          "why": why, "contradicts": thm})
        return best[1] if best else None

    ctx.settle(search)
