"""
C36 thorough-tier exploration with REAL loopback sockets (supporting only; never decides the
verdict): a real TcpServerStack and TcpClientStack exchange generated packet sequences in both
directions under random service interleavings; the concatenation of what each side receives
must equal the concatenation of what the other side queued.
"""
import time


def explore(ctx):
    from ioflo.aio.proto import stacking, packeting
    res = {"runs": 0, "both_directions_intact": 0, "failures": []}
    for k in range(ctx.n(0, 10)):
        srv = stacking.TcpServerStack(ha=('127.0.0.1', 0))
        port = srv.handler.ha[1]
        cli = stacking.TcpClientStack(ha=('127.0.0.1', port))
        try:
            for _ in range(50):
                cli.serviceConnect()
                srv.handler.serviceConnects()
                if cli.handler.connected and srv.handler.ixes:
                    break
                time.sleep(0.005)
            ca = list(srv.handler.ixes.keys())[0]
            up = [bytes(ctx.rng.randint(0, 255) for _ in range(ctx.rng.randint(1, 3000))) for _ in range(ctx.rng.randint(1, 12))]
            dn = [bytes(ctx.rng.randint(0, 255) for _ in range(ctx.rng.randint(1, 3000))) for _ in range(ctx.rng.randint(1, 12))]
            iu, idn = 0, 0
            got_srv, got_cli = bytearray(), bytearray()
            for step in range(400):
                r = ctx.rng.random()
                if r < 0.15 and iu < len(up):
                    cli.transmit(packeting.Packet(stack=cli, packed=up[iu])); iu += 1
                elif r < 0.3 and idn < len(dn):
                    srv.transmit(packeting.Packet(stack=srv, packed=dn[idn]), ca); idn += 1
                elif r < 0.5:
                    cli.serviceTxPkts()
                elif r < 0.65:
                    srv.serviceTxPkts(); srv.handler.serviceTxesAllIx()
                elif r < 0.8:
                    srv.handler.serviceReceivesAllIx(); srv.serviceReceives()
                else:
                    cli.serviceReceives()
                while srv.rxPkts:
                    got_srv.extend(srv.rxPkts.popleft()[0].packed)
                while cli.rxPkts:
                    got_cli.extend(cli.rxPkts.popleft().packed)
                if iu == len(up) and idn == len(dn) and step > 300:
                    time.sleep(0.002)
            for _ in range(30):   # final drain
                cli.serviceTxPkts(); srv.serviceTxPkts(); srv.handler.serviceTxesAllIx()
                time.sleep(0.002)
                srv.handler.serviceReceivesAllIx(); srv.serviceReceives(); cli.serviceReceives()
                while srv.rxPkts:
                    got_srv.extend(srv.rxPkts.popleft()[0].packed)
                while cli.rxPkts:
                    got_cli.extend(cli.rxPkts.popleft().packed)
            res["runs"] += 1
            if bytes(got_srv) == b"".join(up[:iu]) and bytes(got_cli) == b"".join(dn[:idn]):
                res["both_directions_intact"] += 1
            else:
                res["failures"].append({"up": iu, "down": idn, "srv_got": len(got_srv), "cli_got": len(got_cli)})
        finally:
            cli.close()
            srv.handler.closeAll()
    return res
